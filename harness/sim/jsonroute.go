package sim

import (
	"fmt"
	"regexp"
	"sync"

	"github.com/cosmos/cosmos-sdk/codec"

	ct "github.com/circlefin/noble-cctp/x/cctp/types"

	"verif/harness/chain"
)

var (
	jsonCdcOnce sync.Once
	jsonCdcVal  codec.Codec
)

func jsonCdc() codec.Codec {
	jsonCdcOnce.Do(func() {
		if c, err := chain.New(chain.Config{Genesis: StdGenesis()}); err == nil {
			jsonCdcVal = c.Cdc
		}
	})
	return jsonCdcVal
}

var (
	reQuotedNonce = regexp.MustCompile(`"nonce":"(\d+)"`)
	reBodySize    = regexp.MustCompile(`("max_message_body_size":\{"amount":)"(\d+)"`)
	reNullField   = regexp.MustCompile(`"[a-z_]+":null,?`)
	reTrailComma  = regexp.MustCompile(`,\}`)
)

// GenesisJSON renders gs the way a genesis file may legitimately spell it:
// 0 canonical (what the SDK exporter writes: 64-bit integers as quoted strings, absent sections as null);
// 1 64-bit integers as bare JSON numbers (proto3 JSON accepts both spellings);
// 2 absent sections left out instead of null; 3 both.
func GenesisJSON(gs *ct.GenesisState, variant int) ([]byte, error) {
	cdc := jsonCdc()
	if cdc == nil {
		return nil, fmt.Errorf("no codec")
	}
	bz, err := cdc.MarshalJSON(gs)
	if err != nil {
		return nil, err
	}
	if variant&1 != 0 {
		bz = reQuotedNonce.ReplaceAll(bz, []byte(`"nonce":$1`))
		bz = reBodySize.ReplaceAll(bz, []byte(`$1$2`))
	}
	if variant&2 != 0 {
		bz = reNullField.ReplaceAll(bz, nil)
		bz = reTrailComma.ReplaceAll(bz, []byte("}"))
	}
	return bz, nil
}

// jsonRouteCheck: a genesis initialised through the node's JSON entry point, in each legitimate spelling, gives the
// same observable state as the same genesis handed over as a struct.
func jsonRouteCheck(rc *RunCtx, gs *ct.GenesisState, structOut *ct.GenesisState, cs func() interface{}) {
	wantL, wantS := genesisLists(structOut), genesisScalars(structOut)
	for v := 0; v < 4; v++ {
		bz, err := GenesisJSON(gs, v)
		if err != nil {
			rc.Cov.Inconclusive("genesis JSON: " + err.Error())
			return
		}
		c, err := chain.New(chain.Config{Genesis: gs, GenesisJSON: bz})
		rc.Cov.Assert("C17.json-route-equals-struct-route")
		rc.Cov.Cell("C17_json_route", fmt.Sprintf("spelling%d/init=%v", v, err == nil))
		if err != nil {
			rc.Report(Violation{Props: []string{"C17"}, Monitor: "genesis-json-route", Sig: "C17:json-route-init-fails",
				Detail: fmt.Sprintf("a genesis that initialises as a struct fails through the JSON entry point (spelling %d): %v\n%s", v, err, trunc(string(bz), 600)), Case: cs()})
			continue
		}
		out := exportGenesis(c.QueryCtx(), c)
		gotL, gotS := genesisLists(out), genesisScalars(out)
		for name, w := range wantL {
			if gotL[name] != w {
				rc.Report(Violation{Props: []string{"C17", "C19"}, Monitor: "genesis-json-route", Sig: "C17:json-route-differs:" + name,
					Detail: fmt.Sprintf("list %s after initialisation through the JSON entry point (spelling %d) differs from the struct route:\n got: %s\nwant: %s", name, v, trunc(gotL[name], 300), trunc(w, 300)), Case: cs()})
			}
		}
		for name, w := range wantS {
			if gotS[name] != w {
				props := append([]string{"C17"}, compProps[name]...)
				rc.Report(Violation{Props: props, Monitor: "genesis-json-route", Sig: "C17:json-route-differs:" + name,
					Detail: fmt.Sprintf("%s after initialisation through the JSON entry point (spelling %d) = %q, struct route gives %q\n%s", name, v, gotS[name], w, trunc(string(bz), 400)), Case: cs()})
			}
		}
	}
}
