package sim

import (
	"bytes"
	"crypto/sha256"
	"encoding/hex"
	"fmt"
	"math/big"
	"os"
	"sort"
	"strconv"
	"strings"
	"time"

	sdkerrors "cosmossdk.io/errors"
	abci "github.com/cometbft/cometbft/abci/types"
	sdk "github.com/cosmos/cosmos-sdk/types"
	"github.com/cosmos/gogoproto/proto"
	"google.golang.org/protobuf/encoding/protowire"

	ct "github.com/circlefin/noble-cctp/x/cctp/types"

	"verif/harness/chain"
	"verif/harness/ref"
)

// Tx is one transaction of a history.
type Tx struct {
	// Pre: transactions delivered in the same block before this one. They are built to fail (their last message
	// is unauthorised), so they must change nothing; the main transaction is judged as if they had not been there.
	Pre   [][]sdk.Msg
	Msgs  []sdk.Msg
	Fault map[int]chain.FaultKind // fallible dependency call index -> injected fault
	Note  string
}

// Report is what Exec observed for one transaction.
type Report struct {
	OK          bool
	Res         chain.TxResult
	Exp         []*Expect
	TxExp       Outcome
	Deps        []chain.DepCall
	Ops         []chain.StoreOp
	Events      []*ref.Event
	Sent        [][]byte // decoded MessageSent payloads in order
	SentIdx     []int    // index of the transaction message that emitted each of them (msg_index attribute; -1 unknown)
	RespNonces  []uint64
	RecvSuccess []bool // the success flag of every MsgReceiveMessageResponse of a successful transaction
	Adopted     bool
	PreHash     [32]byte
	PostHash    [32]byte
}

// Engine = real chain + reference model + online monitors.
type Engine struct {
	C    *chain.Chain
	M    *State
	Rc   *RunCtx
	Cfg  chain.Config
	prev map[string][]chain.KV

	// C07
	Start       uint64
	Producers   uint64
	nonceKeyRaw []byte // learned key the producers write
	// C02
	learnedUsed map[string][]byte
	// ledger tracking (real or double)
	FTFPaused   bool
	Blacklisted map[string]bool // hex of raw address
	// options
	LightQueries   bool // run scalar queries after each tx
	NoDumpCheck    bool
	DepositNonces  map[uint64]bool // outbound nonces under which a deposit of this history announced its burn
	NoModeTwin     bool            // do not run each transaction in simulation mode first
	NoPositionTwin bool
	RecordBlocks   bool // keep the bytes and results of every delivered block (block-partition replays)
	BlockLog       [][][]byte
	ResLog         []chain.TxResult
	TxCount        int
	Watch          []string          // extra bech32 addresses whose balances are tracked
	history        []string          // short textual history for replay files
	accepted       map[nonceKey]bool // pairs for which a receive succeeded on this chain history (never resynchronised)
	// conservation bookkeeping from what was observed (independent of the model's verdicts)
	SumMintReq  *big.Int // successful Mint requests of successful transactions
	SumAccepted *big.Int // amounts of module-addressed burn messages accepted (distinct pairs)
	SumBurnReq  *big.Int // successful Burn requests of successful transactions
	SumDeposits *big.Int // amounts stated by module-sent messages emitted by deposits
	dbgCons     bool
	ModuleHeld  *big.Int // coins minted to the module's own account since the ledger baseline
	c13Broken   bool
	c13Started  bool
}

// NewEngine builds a chain from cfg and the matching model.
// headerStyles: what a block carries besides its transactions. None of it may influence the module, so every
// engine gets one of these in turn and all oracles stay as they are.
func headerStyle(cfg *chain.Config, style int) {
	switch style % 4 {
	case 0: // height from 1, zero time, no proposer
	case 1:
		cfg.Header = func(req *abci.RequestFinalizeBlock) {
			req.Time = time.Date(2026, 10, 2, 15, 27, 0, 0, time.UTC).Add(time.Duration(req.Height) * 6 * time.Second)
			req.ProposerAddress = bytes.Repeat([]byte{byte(req.Height)}, 20)
			req.Hash = bytes.Repeat([]byte{byte(req.Height >> 2)}, 32)
		}
	case 2:
		cfg.InitialHeight = 7_000_001
		cfg.Header = func(req *abci.RequestFinalizeBlock) {
			req.Time = time.Date(2031, 1, 1, 0, 0, 0, 0, time.UTC).Add(time.Duration(req.Height-7_000_000) * time.Hour)
			req.ProposerAddress = bytes.Repeat([]byte{0xee}, 20)
		}
	case 3:
		cfg.InitialHeight = 1 << 40
		cfg.Header = func(req *abci.RequestFinalizeBlock) {
			req.Time = time.Unix(1<<33+req.Height%1000, 999_999_999).UTC()
			req.ProposerAddress = bytes.Repeat([]byte{byte(req.Height % 7)}, 32)
		}
	}
}

func NewEngine(rc *RunCtx, cfg chain.Config) (*Engine, error) {
	if cfg.Header == nil && cfg.InitialHeight == 0 && cfg.DB == nil {
		headerStyle(&cfg, int(rc.Seed)+rc.engines)
		rc.Cov.Cell("block_header_styles", fmt.Sprint((int(rc.Seed)+rc.engines)%4))
		rc.engines++
	}
	c, err := chain.New(cfg)
	if err != nil {
		return nil, err
	}
	gs := cfg.Genesis
	if gs == nil {
		gs = ct.DefaultGenesis()
	}
	e := &Engine{C: c, M: FromGenesis(gs), Rc: rc, Cfg: cfg, learnedUsed: map[string][]byte{}, Blacklisted: map[string]bool{}, LightQueries: true}
	e.M.MintDenom = e.MintDenom()
	e.Start = e.M.NextNonce
	e.FTFPaused = cfg.FTFPaused
	for _, b := range cfg.Blacklisted {
		e.Blacklisted[hex.EncodeToString(b)] = true
	}
	e.prev = c.DumpAll()
	c.Store.Reset()
	c.Deps.Reset()
	return e, nil
}

// MintDenom is the fiat-token-factory minting denom of this chain.
func (e *Engine) MintDenom() string {
	if e.Cfg.MintDenom != "" {
		return e.Cfg.MintDenom
	}
	return chain.MintDenom
}

func (e *Engine) viol(props []string, monitor, sig, detail string, cs interface{}) {
	e.Rc.Report(Violation{Props: props, Monitor: monitor, Sig: sig, Detail: detail, Case: cs})
}

func (e *Engine) caseOf(tx *Tx, extra string) interface{} {
	var ms []string
	for _, m := range tx.Msgs {
		ms = append(ms, describeMsg(m))
	}
	h := e.history
	if len(h) > 30 {
		h = h[len(h)-30:]
	}
	return map[string]interface{}{"tx": ms, "note": tx.Note, "model_state": e.M.Hash(), "extra": extra, "recent_history": h,
		"prefix": chain.Prefix(), "double": e.Cfg.Double}
}

func describeMsg(m sdk.Msg) string {
	s := fmt.Sprintf("%T%+v", m, m)
	s = strings.ReplaceAll(s, "*types.", "")
	if len(s) > 1500 {
		s = s[:1500] + "…"
	}
	return s
}

// balances of all watched accounts
func (e *Engine) ledgerSnapshot(extra []string) map[string]*big.Int {
	out := map[string]*big.Int{}
	for i := 0; i < NAccounts; i++ {
		out[Acct(i)] = e.C.Balance(AcctBytes(i), e.MintDenom())
	}
	out[moduleBech()] = e.C.Balance(sdk.AccAddress(ct.ModuleAddress), e.MintDenom())
	out[LongAcct()] = e.C.Balance(LongAcctBytes(), e.MintDenom())
	for _, a := range []string{VeryLongAcct(), TinyAcct(), HugeAcct()} {
		out[a] = e.C.Balance(addrBytes(a), e.MintDenom())
	}
	for _, a := range append(extra, e.Watch...) {
		if _, ok := out[a]; !ok && validAddr(a) {
			out[a] = e.C.Balance(addrBytes(a), e.MintDenom())
		}
	}
	out["<supply>"] = e.C.Supply(e.MintDenom())
	return out
}

func kindFailProps(kind string) []string {
	p := []string{"C15"}
	switch kind {
	case "ReceiveMessage":
		p = append(p, "C03", "C14", "C02", "C04", "C12")
	case "DepositForBurn", "DepositForBurnWithCaller":
		p = append(p, "C14", "C05", "C08", "C06", "C07", "C12")
	case "ReplaceMessage", "ReplaceDepositForBurn":
		p = append(p, "C09", "C06", "C12")
	case "SendMessage", "SendMessageWithCaller":
		p = append(p, "C07", "C06", "C12")
	case "EnableAttester", "DisableAttester", "UpdateSignatureThreshold":
		p = append(p, "C10", "C13")
	default:
		p = append(p, "C10")
	}
	return p
}

// Exec runs one transaction in its own block and applies every monitor.
func (e *Engine) Exec(tx Tx) *Report {
	rc := e.Rc
	rep := &Report{}
	e.TxCount++
	// requests with a field left off the wire: the encoder gets the wrapped form, everything else the inner request
	wireMsgs := tx.Msgs
	if un, any := unwrapMsgs(tx.Msgs); any {
		tx.Msgs = un
		tx.Note += " [a field is absent on the wire]"
		rc.Cov.Cell("env_actions", "field-absent-on-the-wire")
	}
	// ---- model verdict (sequential over messages on a clone)
	st := e.M.Clone()
	txExp := MustSucceed
	var failIdx = -1
	for i, m := range tx.Msgs {
		ex := st.Expect(m)
		rep.Exp = append(rep.Exp, ex)
		switch ex.Out {
		case MustSucceed:
			ex.Effect(st)
		case DepDependent:
			ex.Effect(st)
			if txExp == MustSucceed {
				txExp = DepDependent
			}
		case MustFail:
			txExp = MustFail
			failIdx = i
		case DontCare:
			txExp = DontCare
		}
		if txExp == MustFail || txExp == DontCare {
			break
		}
	}
	rep.TxExp = txExp
	var extraAddrs []string
	for _, ex := range rep.Exp {
		for _, d := range ex.Deps {
			if d.Method == "Mint" {
				extraAddrs = append(extraAddrs, d.To)
			}
		}
	}
	preLedger := e.ledgerSnapshot(extraAddrs)
	// ---- execute
	bz, err := e.C.BuildTx(wireMsgs...)
	if err != nil {
		rc.Cov.Inconclusive("BuildTx: " + err.Error())
		return rep
	}
	// ---- execution-mode twin: the same bytes in baseapp's simulation mode (check state == committed state here)
	simDone, simOK := false, false
	var simEvents []string
	var simLog, simSpace string
	var simCode uint32
	if !e.NoModeTwin && len(tx.Pre) == 0 && tx.Fault == nil {
		e.C.Store.Phase = "simulate"
		e.C.Store.Reset()
		e.C.Deps.Reset()
		e.C.Deps.Faults = nil
		rc.LogCall("SIMULATE-TWIN %s", trunc(describeTx(&tx), 3000))
		_, sres, serr := e.C.App.Simulate(bz)
		rc.LogCall("DONE")
		simDone, simOK = true, serr == nil
		if serr != nil {
			simLog = serr.Error()
			simSpace, simCode, _ = sdkerrors.ABCIInfo(serr, false)
		}
		if sres != nil {
			simEvents = cctpEventStrings(sres.Events)
		}
	}
	// ---- position twin: the same messages behind / in front of a message that changes nothing (the owner sets the
	// max body size to the value it has), again in simulation mode: outcome and events must not depend on the place
	// of a message inside its transaction
	posDone, posOK, posFront := false, false, e.TxCount%2 == 0
	var posEvents []string
	var posLog string
	if simDone && !e.NoPositionTwin && e.M.HasMaxBody && validAddr(e.M.Owner) && e.M.Owner == strings.ToLower(e.M.Owner) && len(tx.Msgs) < 6 {
		pad := &ct.MsgUpdateMaxMessageBodySize{From: e.M.Owner, MessageSize: e.M.MaxBody}
		var msgs []sdk.Msg
		if posFront {
			msgs = append([]sdk.Msg{pad}, wireMsgs...)
		} else {
			msgs = append(append([]sdk.Msg{}, wireMsgs...), pad)
		}
		if pb, perr := e.C.BuildTx(msgs...); perr == nil {
			rc.LogCall("SIMULATE-POSITION-TWIN front=%v", posFront)
			_, sres, serr := e.C.App.Simulate(pb)
			rc.LogCall("DONE")
			posDone, posOK = true, serr == nil
			if serr != nil {
				posLog = serr.Error()
			}
			if sres != nil {
				padIdx := len(tx.Msgs)
				if posFront {
					padIdx = 0
				}
				posEvents = shiftedEventStrings(sres.Events, padIdx)
			}
			e.C.Store.Reset()
			e.C.Deps.Reset()
		}
	}
	e.C.Store.Phase = "tx"
	e.C.Store.Reset()
	e.C.Deps.Reset()
	if tx.Fault != nil {
		e.C.Deps.FaultTx = "*"
		e.C.Deps.Faults = tx.Fault
	} else {
		e.C.Deps.Faults = nil
	}
	rc.LogCall("TX %s", trunc(describeTx(&tx), 3000))
	block := [][]byte{}
	for _, pm := range tx.Pre {
		pb, perr := e.C.BuildTx(pm...)
		if perr == nil {
			block = append(block, pb)
		}
	}
	block = append(block, bz)
	if len(block) > 1 && tx.Fault != nil {
		h := sha256.Sum256(bz)
		e.C.Deps.FaultTx = hex.EncodeToString(h[:])
	}
	res, err := e.C.DeliverBlock(block)
	e.C.Deps.Faults = nil
	if err != nil {
		rc.Cov.Inconclusive("DeliverBlock: " + err.Error())
		return rep
	}
	rc.LogCall("DONE")
	if e.RecordBlocks {
		e.BlockLog = append(e.BlockLog, block)
		e.ResLog = append(e.ResLog, res...)
	}
	main := len(res) - 1
	mainKey := hex.EncodeToString(res[main].TxHash[:])
	for i := 0; i < main; i++ {
		rc.Cov.Assert("same-block.preceding-tx-failed")
		rc.Cov.Cell("env_actions", "same-block-rolled-back-tx")
		if res[i].OK() {
			rc.Cov.Inconclusive("a transaction built to fail succeeded (harness): " + trunc(describeMsg(tx.Pre[i][0]), 200))
		}
		for _, ev := range res[i].Events {
			if strings.HasPrefix(ev.Type, "circle.cctp.") {
				e.viol([]string{"C14", "C15"}, "failed-implies-no-events", "failed-tx-emitted:"+ev.Type, "failed transaction emitted "+ev.Type, e.caseOf(&tx, ""))
			}
		}
	}
	rep.Res = res[main]
	rep.OK = res[main].OK()
	for _, d := range e.C.Deps.Log {
		if d.Tx == mainKey || main == 0 {
			rep.Deps = append(rep.Deps, d)
		}
	}
	for _, op := range e.C.Store.Ops {
		if op.Tx == mainKey || main == 0 {
			rep.Ops = append(rep.Ops, op)
		}
	}
	e.C.Store.Reset()
	e.C.Store.Phase = "query"
	post := e.C.DumpAll()
	rep.PreHash, rep.PostHash = chain.HashDump(e.prev), chain.HashDump(post)
	rc.Cov.Evaluations++
	if rc.Cov.Evaluations%701 == 1 {
		rc.Cov.Sample(map[string]interface{}{"tx": trunc(describeTx(&tx), 600), "note": tx.Note, "model_verdict": txExp.String(), "succeeded": rep.OK, "model_state": e.M.Hash()})
	}
	kinds := make([]string, len(rep.Exp))
	for i, ex := range rep.Exp {
		kinds[i] = ex.Kind
	}
	kindStr := strings.Join(kinds, "+")
	rc.Cov.Cell("tx_outcome", kindStr+"/"+map[bool]string{true: "ok", false: "fail"}[rep.OK])
	e.history = append(e.history, fmt.Sprintf("#%d %s -> %v (%s)", e.TxCount, kindStr, rep.OK, txExp))

	// ---- execution-mode twin
	if simDone {
		rc.Cov.Assert("mode-twin.simulate-equals-deliver")
		props := []string{}
		for _, ex := range rep.Exp {
			for _, p := range kindFailProps(ex.Kind) {
				props = addProp(props, p)
			}
		}
		if simOK != rep.OK {
			e.viol(props, "mode-twin", fmt.Sprintf("mode-divergence:%s:simulate=%v:deliver=%v", kindStr, simOK, rep.OK),
				fmt.Sprintf("the same transaction on the same state %s in simulation mode but %s when delivered (simulate: %s; deliver: %s)",
					okWord(simOK), okWord(rep.OK), trunc(simLog, 300), trunc(rep.Res.Log, 300)), e.caseOf(&tx, ""))
		} else if !rep.OK && (simSpace != rep.Res.Codespace || simCode != rep.Res.Code) {
			// both refuse, but with another error class: the answer depends on something besides the committed state
			e.viol(addProp(append([]string{}, props...), "C18"), "mode-twin", fmt.Sprintf("mode-divergence-code:%s:simulate=%s/%d:deliver=%s/%d", kindStr, simSpace, simCode, rep.Res.Codespace, rep.Res.Code),
				fmt.Sprintf("the same transaction on the same state is refused with %s/%d in simulation mode and with %s/%d when delivered (simulate: %s; deliver: %s)",
					simSpace, simCode, rep.Res.Codespace, rep.Res.Code, trunc(simLog, 300), trunc(rep.Res.Log, 300)), e.caseOf(&tx, ""))
		} else if rep.OK {
			if d := cctpEventStrings(rep.Res.Events); strings.Join(d, "\n") != strings.Join(simEvents, "\n") {
				e.viol(props, "mode-twin", "mode-divergence-events:"+kindStr,
					fmt.Sprintf("simulation and delivery of the same transaction emitted different module events:\nsimulate: %v\ndeliver:  %v", simEvents, d), e.caseOf(&tx, ""))
			}
		}
	}

	if posDone && simDone {
		rc.Cov.Assert("position-twin.padded-equals-plain")
		props := []string{}
		for _, ex := range rep.Exp {
			for _, p := range kindFailProps(ex.Kind) {
				props = addProp(props, p)
			}
		}
		where := map[bool]string{true: "behind", false: "in front of"}[posFront]
		if posOK != simOK {
			// is the padding message itself acceptable in this state? (lazy: only on a mismatch)
			padAlone := false
			if pb, perr := e.C.BuildTx(&ct.MsgUpdateMaxMessageBodySize{From: e.M.Owner, MessageSize: e.M.MaxBody}); perr == nil && rep.OK == simOK {
				_, _, serr := e.C.App.Simulate(pb)
				padAlone = serr == nil
				e.C.Store.Reset()
				e.C.Deps.Reset()
			}
			if padAlone {
				e.viol(props, "position-twin", fmt.Sprintf("position-divergence:%s:alone=%v:padded=%v", kindStr, simOK, posOK),
					fmt.Sprintf("the messages %s on their own but %s when placed %s a message that changes nothing (alone: %s; padded: %s)",
						okWord(simOK), okWord(posOK), where, trunc(simLog, 300), trunc(posLog, 300)), e.caseOf(&tx, ""))
			}
		} else if simOK && strings.Join(posEvents, "\n") != strings.Join(simEvents, "\n") {
			e.viol(props, "position-twin", "position-divergence-events:"+kindStr,
				fmt.Sprintf("the messages emit different module events when placed %s a message that changes nothing:\nalone:  %v\npadded: %v", where, simEvents, posEvents), e.caseOf(&tx, ""))
		}
	}

	// ---- crash tap
	if rep.Res.IsPanic() {
		injected := false
		for _, d := range rep.Deps {
			if d.Injected == chain.FaultPanic {
				injected = true
			}
		}
		if !injected {
			sig := "panic:" + kindStr + ":" + panicSite(rep.Res.Log)
			e.viol([]string{"C20"}, "crash-tap/ErrPanic", sig, "transaction recovered from a panic: "+trunc(rep.Res.Log, 1500), e.caseOf(&tx, ""))
		}
	}

	// ---- dependency outcome
	depFailed, injectedHit := false, false
	var fallible []chain.DepCall
	for _, d := range rep.Deps {
		if d.Seq >= 0 {
			fallible = append(fallible, d)
			if d.Err != "" {
				depFailed = true
			}
			if d.Injected != chain.FaultNone {
				injectedHit = true
			}
		}
	}
	_ = injectedHit
	var expDeps []DepExp
	for _, ex := range rep.Exp {
		expDeps = append(expDeps, ex.Deps...)
	}

	// C14: success although a dependency call failed
	rc.Cov.Assert("C14.success-implies-deps-ok")
	if rep.OK && depFailed {
		e.viol([]string{"C14"}, "all-or-nothing", "C14:success-with-failed-dep:"+kindStr+":"+failedMethods(fallible),
			fmt.Sprintf("transaction succeeded although dependency call(s) failed: %s", depSummary(fallible)), e.caseOf(&tx, ""))
	}

	// ---- outcome oracle
	switch txExp {
	case MustFail:
		ex := rep.Exp[failIdx]
		rc.Cov.Assert("outcome.must-fail")
		rc.Cov.Distinct("F|" + e.M.Hash() + "|" + shapeOf(tx.Msgs) + "|" + ex.Why)
		if rep.OK {
			e.viol(ex.FailProps, "outcome-oracle", "accepted:"+ex.Kind+":"+ex.Why,
				fmt.Sprintf("%s succeeded although the model requires failure (%s)", ex.Kind, ex.Why), e.caseOf(&tx, ex.Why))
		}
	case MustSucceed:
		rc.Cov.Assert("outcome.must-succeed")
		rc.Cov.Distinct("S|" + e.M.Hash() + "|" + shapeOf(tx.Msgs))
		if !rep.OK && !(tx.Fault != nil) {
			props := unionProps(rep.Exp)
			e.viol(props, "outcome-oracle", "rejected:"+kindStr+":"+errClass(rep.Res),
				fmt.Sprintf("%s failed although every stated condition holds: code=%s/%d log=%s", kindStr, rep.Res.Codespace, rep.Res.Code, trunc(rep.Res.Log, 400)), e.caseOf(&tx, ""))
		}
	case DepDependent:
		rc.Cov.Assert("outcome.dep-dependent")
		rc.Cov.Distinct("D|" + e.M.Hash() + "|" + shapeOf(tx.Msgs) + "|" + fmt.Sprint(depFailed))
		if !rep.OK && !depFailed && !rep.Res.IsPanic() {
			// all dependency calls that were made succeeded; did the module make them all?
			predicted := e.predictDeps(expDeps, preLedger)
			if len(fallible) == len(expDeps) || predicted {
				props := unionProps(rep.Exp)
				e.viol(props, "outcome-oracle", "rejected:"+kindStr+":"+errClass(rep.Res),
					fmt.Sprintf("%s failed although every stated condition holds and no dependency call failed: code=%s/%d log=%s", kindStr, rep.Res.Codespace, rep.Res.Code, trunc(rep.Res.Log, 400)), e.caseOf(&tx, ""))
			}
		}
	case DontCare:
		rc.Cov.DontCare++
		rep.Adopted = true
		rc.Cov.Cell("dontcare_reasons", rep.Exp[len(rep.Exp)-1].Kind+":"+rep.Exp[len(rep.Exp)-1].DCNote)
	}

	if !rep.OK {
		for _, d := range fallible {
			if d.Method == "Burn" && d.Err == "" {
				rc.Cov.Cell("late_failures", "deposit-failed-after-burn")
			}
			if d.Method == "Mint" && d.Err == "" {
				rc.Cov.Cell("late_failures", "receive-failed-after-mint")
			}
		}
		// ---- failed => nothing changed, no module events
		rc.Cov.Assert("failed-tx.no-state-change")
		if !e.NoDumpCheck && rep.PreHash != rep.PostHash {
			diff := chain.DiffDump(e.prev, post)
			props := []string{"C15", "C14"}
			for _, ex := range rep.Exp {
				for _, p := range kindFailProps(ex.Kind) {
					props = addProp(props, p)
				}
			}
			e.viol(props, "failed-implies-unchanged", "failed-tx-changed-state:"+kindStr+":"+diffClass(diff),
				fmt.Sprintf("failed transaction changed committed state: %v", diff), e.caseOf(&tx, ""))
		}
		for _, ev := range rep.Res.Events {
			if strings.HasPrefix(ev.Type, "circle.cctp.") {
				e.viol([]string{"C14", "C15"}, "failed-implies-no-events", "failed-tx-emitted:"+ev.Type, "failed transaction emitted "+ev.Type, e.caseOf(&tx, ""))
			}
		}
		// C04: Mint requests of failed transactions are still field-checked
		e.checkMintFields(&tx, rep, expDeps)
		e.prev = post
		e.afterBlock(&tx, rep)
		return rep
	}

	// =========== successful transaction
	e.checkSound(&tx, e.M)
	// adopt the model effects
	if txExp == DontCare {
		e.adoptObserved(&tx, rep)
	} else {
		e.M = st
	}
	e.decodeEvents(&tx, rep)
	e.checkExactlyOnce(&tx, rep)
	e.checkReplacementKeeps(&tx, rep)
	e.checkSuccessImplies(&tx, rep)
	e.trackConservation(&tx, rep)
	// coins minted to the module's own account (a burn message may name it as mint recipient) legitimately stay there
	for _, d := range rep.Deps {
		if d.Method == "Mint" && d.Err == "" && d.To == moduleBech() && d.Amount != nil {
			if e.ModuleHeld == nil {
				e.ModuleHeld = new(big.Int)
			}
			e.ModuleHeld.Add(e.ModuleHeld, d.Amount)
			rc.Cov.Cell("late_failures", "mint-to-module-account")
		}
	}
	e.checkDeps(&tx, rep, expDeps, fallible)
	if txExp != DontCare {
		contentDC := false
		for _, ex := range rep.Exp {
			contentDC = contentDC || ex.ContentDC
		}
		if !contentDC {
			e.checkEvents(&tx, rep)
		}
		e.checkLedger(&tx, rep, preLedger, extraAddrs)
	} else if len(rep.Exp) == 1 && len(tx.Msgs) == 1 && (rep.Exp[0].Kind == "ReplaceMessage" || rep.Exp[0].Kind == "ReplaceDepositForBurn") && rep.Exp[0].Sent != nil {
		// outcome was don't-care (e.g. an empty new destination caller), but a replacement that succeeds is still
		// judged by content: "exactly the requested destination caller (all-zero when none)"
		if len(rep.Exp[0].Sent.Msg.Caller) == 0 {
			rep.Exp[0].Sent.Msg.Caller = make([]byte, 32)
		}
		if len(rep.Exp[0].Sent.Msg.Caller) == 32 && len(rep.Exp[0].Sent.Msg.Recipient) == 32 && (rep.Exp[0].Kind != "ReplaceDepositForBurn" || len(rep.Exp[0].Sent.Msg.Body) == 132) {
			e.checkEvents(&tx, rep)
		}
		e.checkLedger(&tx, rep, preLedger, extraAddrs)
	}
	e.checkWrites(&tx, rep, kindStr)
	e.recordEmitted(&tx, rep)
	e.prev = post
	e.afterBlock(&tx, rep)
	return rep
}

func describeTx(tx *Tx) string {
	var ms []string
	for _, m := range tx.Msgs {
		ms = append(ms, describeMsg(m))
	}
	return strings.Join(ms, " ;; ") + fmt.Sprintf(" fault=%v", tx.Fault)
}

func unionProps(exps []*Expect) []string {
	var p []string
	for _, ex := range exps {
		for _, x := range ex.OKProps {
			p = addProp(p, x)
		}
	}
	return p
}

func shapeOf(msgs []sdk.Msg) string {
	var parts []string
	for _, m := range msgs {
		parts = append(parts, shapeMsg(m))
	}
	return strings.Join(parts, "+")
}

// shapeMsg is a coarse, deterministic description of a message (type + field classes).
func shapeMsg(m sdk.Msg) string {
	switch x := m.(type) {
	case *ct.MsgReceiveMessage:
		return fmt.Sprintf("Recv(l%d,a%d,%s)", len(x.Message), len(x.Attestation), tail(x.From))
	case *ct.MsgDepositForBurn:
		return fmt.Sprintf("Dep(%s,%d,%s,%s)", amtShape(x.Amount.BigIntMut()), x.DestinationDomain, x.BurnToken, tail(x.From))
	case *ct.MsgDepositForBurnWithCaller:
		return fmt.Sprintf("DepC(%s,%d,%s,%s,c%d)", amtShape(x.Amount.BigIntMut()), x.DestinationDomain, x.BurnToken, tail(x.From), len(x.DestinationCaller))
	case *ct.MsgSendMessage:
		return fmt.Sprintf("Send(%d,b%d,%s)", x.DestinationDomain, len(x.MessageBody), tail(x.From))
	case *ct.MsgSendMessageWithCaller:
		return fmt.Sprintf("SendC(%d,b%d,%s)", x.DestinationDomain, len(x.MessageBody), tail(x.From))
	case *ct.MsgReplaceMessage:
		return fmt.Sprintf("Repl(l%d,b%d,c%d,%s)", len(x.OriginalMessage), len(x.NewMessageBody), len(x.NewDestinationCaller), tail(x.From))
	case *ct.MsgReplaceDepositForBurn:
		return fmt.Sprintf("ReplD(l%d,c%d,%s)", len(x.OriginalMessage), len(x.NewDestinationCaller), tail(x.From))
	default:
		s := fmt.Sprintf("%T%v", m, m)
		if len(s) > 120 {
			s = s[:120]
		}
		return s
	}
}

func amtShape(b *big.Int) string {
	if b == nil {
		return "nil"
	}
	return amountClass(b)
}

func errClass(r chain.TxResult) string {
	return fmt.Sprintf("%s/%d", r.Codespace, r.Code)
}

func diffClass(diff []string) string {
	if len(diff) == 0 {
		return "none"
	}
	d := diff[0]
	if i := strings.Index(d, ":"); i > 0 {
		rest := d[i+1:]
		if len(rest) > 24 {
			rest = rest[:24]
		}
		return d[:i] + ":" + rest
	}
	return d
}

func failedMethods(calls []chain.DepCall) string {
	var m []string
	for _, c := range calls {
		if c.Err != "" {
			m = append(m, c.Method)
		}
	}
	return strings.Join(m, ",")
}

func depSummary(calls []chain.DepCall) string {
	var m []string
	for _, c := range calls {
		m = append(m, fmt.Sprintf("%s(from=%s to=%s %s%s err=%q inj=%s)", c.Method, tail(c.From), tail(c.To), bigStr(c.Amount), c.Denom, trunc(c.Err, 60), c.Injected))
	}
	return strings.Join(m, "; ")
}

func bigStr(b *big.Int) string {
	if b == nil {
		return "<nil>"
	}
	return b.String()
}

// panicSite extracts a short stable location from a recovered panic log.
func panicSite(log string) string {
	msg := strings.TrimPrefix(strings.SplitN(log, "\n", 2)[0], "recovered: ")
	msg = trunc(stripDigits(msg), 60)
	// first frame inside the module under test (function name: stable under unrelated edits)
	for _, line := range strings.Split(log, "\n") {
		if i := strings.Index(line, "github.com/circlefin/noble-cctp/x/cctp/"); i >= 0 && !strings.Contains(line, ".go:") {
			fn := line[i+len("github.com/circlefin/noble-cctp/x/cctp/"):]
			if j := strings.Index(fn, "("); j > 0 {
				fn = fn[:j]
			}
			return fn + ":" + msg
		}
	}
	return msg
}

// predictDeps: would the expected dependency calls succeed on the pre-state ledger?
func (e *Engine) predictDeps(exp []DepExp, pre map[string]*big.Int) bool {
	if e.FTFPaused {
		return false
	}
	for _, d := range exp {
		switch d.Method {
		case "Transfer":
			b := pre[d.From]
			if b == nil || d.Amount == nil || b.Cmp(d.Amount) < 0 {
				return false
			}
			if e.Blacklisted[hex.EncodeToString(addrBytes(d.From))] || e.Blacklisted[hex.EncodeToString(ct.ModuleAddress)] {
				return false
			}
		case "Burn":
			if d.Denom != e.MintDenom() && !(e.Cfg.Double && e.Cfg.Fold && strings.EqualFold(d.Denom, e.MintDenom())) {
				return false
			}
		case "Mint":
			if d.Denom != e.MintDenom() {
				return false
			}
			if d.Amount.Sign() <= 0 {
				return false
			}
			if e.Blacklisted[hex.EncodeToString(addrBytes(d.To))] || e.Blacklisted[hex.EncodeToString(ct.ModuleAddress)] {
				return false
			}
			var allow *big.Int
			if e.Cfg.Double {
				allow = e.C.Ledger.Allowance(e.C.QueryCtx())
			} else {
				mn, ok := e.C.FTF.GetMinters(e.C.QueryCtx(), moduleBech())
				if !ok {
					return false
				}
				allow = mn.Allowance.Amount.BigInt()
				// supply overflow of the real bank's 256-bit integers
				if new(big.Int).Add(pre["<supply>"], d.Amount).BitLen() > 256 {
					return false
				}
			}
			if allow.Cmp(d.Amount) < 0 {
				return false
			}
		}
	}
	return true
}

func depEq(c chain.DepCall, d DepExp) (bool, string) {
	if c.Method != d.Method {
		return false, "method"
	}
	if c.From != d.From {
		return false, "from"
	}
	if d.Method != "Burn" && c.To != d.To {
		return false, "to"
	}
	if c.Denom != d.Denom {
		return false, "denom"
	}
	if c.Amount == nil || d.Amount == nil || c.Amount.Cmp(d.Amount) != 0 {
		return false, "amount"
	}
	return true, ""
}

func depProps(method string) []string {
	if method == "Mint" {
		return []string{"C04", "C14"}
	}
	return []string{"C05", "C14"}
}

// checkDeps: on success the fallible dependency requests are exactly the documented ones.
func (e *Engine) checkDeps(tx *Tx, rep *Report, exp []DepExp, got []chain.DepCall) {
	rc := e.Rc
	if rep.TxExp == DontCare {
		// still: transactions other than deposits/receives never talk to the ledger
		for i, ex := range rep.Exp {
			_ = i
			if len(ex.Deps) > 0 || ex.Kind == "DepositForBurn" || ex.Kind == "DepositForBurnWithCaller" || ex.Kind == "ReceiveMessage" {
				return
			}
		}
		if len(rep.Exp) < len(tx.Msgs) {
			return
		}
	}
	rc.Cov.Assert("deps.requests-equal-documented")
	if len(got) != len(exp) {
		props := []string{"C14"}
		for _, g := range got {
			for _, p := range depProps(g.Method) {
				props = addProp(props, p)
			}
		}
		for _, x := range exp {
			for _, p := range depProps(x.Method) {
				props = addProp(props, p)
			}
		}
		for _, ex := range rep.Exp {
			if ex.Kind == "ReplaceMessage" || ex.Kind == "ReplaceDepositForBurn" {
				props = addProp(props, "C09")
			}
		}
		e.viol(props, "dependency-requests", fmt.Sprintf("dep-count:%s:got%d:want%d", kindsOf(rep), len(got), len(exp)),
			fmt.Sprintf("successful transaction made %d ledger requests, documented %d: %s", len(got), len(exp), depSummary(got)), e.caseOf(tx, ""))
		return
	}
	for i := range exp {
		rc.Cov.Assert("deps." + exp[i].Method + ".fields")
		if ok, f := depEq(got[i], exp[i]); !ok {
			e.viol(depProps(exp[i].Method), "dependency-requests", "dep-field:"+exp[i].Method+":"+f,
				fmt.Sprintf("%s request differs in %s: got %s, want from=%s to=%s %s%s", exp[i].Method, f, depSummary(got[i:i+1]), exp[i].From, exp[i].To, bigStr(exp[i].Amount), exp[i].Denom), e.caseOf(tx, ""))
		}
	}
}

// checkMintFields: C04 — every Mint request, whatever the fate of its transaction, carries the documented fields.
func (e *Engine) checkMintFields(tx *Tx, rep *Report, exp []DepExp) {
	i := 0
	for _, d := range rep.Deps {
		if d.Seq < 0 {
			continue
		}
		if i >= len(exp) {
			break
		}
		want := exp[i]
		i++
		if d.Method != want.Method {
			break
		}
		e.Rc.Cov.Assert("deps." + want.Method + ".fields-in-failed-tx")
		if ok, f := depEq(d, want); !ok {
			e.viol(depProps(want.Method)[:1], "dependency-requests", "dep-field:"+want.Method+":"+f,
				fmt.Sprintf("%s request (in a failed tx) differs in %s: got %s, want from=%s to=%s %s%s", want.Method, f, depSummary([]chain.DepCall{d}), want.From, want.To, bigStr(want.Amount), want.Denom), e.caseOf(tx, ""))
		}
	}
}

func kindsOf(rep *Report) string {
	k := make([]string, len(rep.Exp))
	for i, ex := range rep.Exp {
		k[i] = ex.Kind
	}
	return strings.Join(k, "+")
}

// decodeEvents converts ABCI events and extracts MessageSent payloads and response nonces.
func (e *Engine) decodeEvents(tx *Tx, rep *Report) {
	for _, ev := range rep.Res.Events {
		var kv [][2]string
		for _, a := range ev.Attributes {
			kv = append(kv, [2]string{a.Key, a.Value})
		}
		re, err := ref.NewEvent(ev.Type, kv)
		if err != nil {
			e.viol([]string{"C06", "C04"}, "event-decoder", "event-malformed:"+ev.Type, err.Error(), e.caseOf(tx, ""))
			continue
		}
		rep.Events = append(rep.Events, re)
		if ev.Type == "circle.cctp.v1.MessageSent" {
			b, err := re.Bytes("message")
			if err != nil {
				e.viol([]string{"C06"}, "event-decoder", "MessageSent-undecodable", err.Error(), e.caseOf(tx, ""))
				continue
			}
			rep.Sent = append(rep.Sent, b)
			mi := -1
			for _, a := range ev.Attributes {
				if a.Key == "msg_index" {
					if v, err := strconv.Atoi(strings.Trim(a.Value, "\"")); err == nil {
						mi = v
					}
				}
			}
			rep.SentIdx = append(rep.SentIdx, mi)
		}
	}
	// responses
	var tmd sdk.TxMsgData
	if err := proto.Unmarshal(rep.Res.Data, &tmd); err == nil {
		for _, any := range tmd.MsgResponses {
			if strings.HasSuffix(any.TypeUrl, "MsgSendMessageResponse") || strings.HasSuffix(any.TypeUrl, "MsgSendMessageWithCallerResponse") ||
				strings.HasSuffix(any.TypeUrl, "MsgDepositForBurnResponse") || strings.HasSuffix(any.TypeUrl, "MsgDepositForBurnWithCallerResponse") {
				rep.RespNonces = append(rep.RespNonces, wireField1Varint(any.Value))
			}
			if strings.HasSuffix(any.TypeUrl, "MsgReceiveMessageResponse") {
				rep.RecvSuccess = append(rep.RecvSuccess, wireField1Varint(any.Value) != 0)
			}
		}
	}
}

func wireField1Varint(b []byte) uint64 {
	for len(b) > 0 {
		num, typ, n := protowire.ConsumeTag(b)
		if n < 0 {
			return 0
		}
		b = b[n:]
		if num == 1 && typ == protowire.VarintType {
			v, _ := protowire.ConsumeVarint(b)
			return v
		}
		m := protowire.ConsumeFieldValue(num, typ, b)
		if m < 0 {
			return 0
		}
		b = b[m:]
	}
	return 0
}

func eventsOfType(rep *Report, typ string) []*ref.Event {
	var out []*ref.Event
	for _, ev := range rep.Events {
		if ev.Type == typ {
			out = append(out, ev)
		}
	}
	return out
}

// checkEvents compares MessageSent / DepositForBurn / MessageReceived / MintAndWithdraw with the model.
func (e *Engine) checkEvents(tx *Tx, rep *Report) {
	rc := e.Rc
	var wantSent []*SentExp
	var wantDep []*DepositEvExp
	var wantRecv []*RecvExp
	var wantNonces []uint64
	for _, ex := range rep.Exp {
		if ex.Sent != nil {
			wantSent = append(wantSent, ex.Sent)
		}
		if ex.DepositEv != nil {
			wantDep = append(wantDep, ex.DepositEv)
		}
		if ex.Recv != nil {
			wantRecv = append(wantRecv, ex.Recv)
		}
		if ex.RespNonce != nil {
			wantNonces = append(wantNonces, *ex.RespNonce)
		}
	}
	// ---- MessageSent
	rc.Cov.Assert("events.MessageSent.count")
	if len(rep.Sent) != len(wantSent) {
		e.viol([]string{"C06", "C05", "C07", "C09", "C14"}, "message-sent", fmt.Sprintf("sent-count:%s:got%d:want%d", kindsOf(rep), len(rep.Sent), len(wantSent)),
			fmt.Sprintf("transaction emitted %d MessageSent events, documented %d", len(rep.Sent), len(wantSent)), e.caseOf(tx, ""))
	} else {
		for i, raw := range rep.Sent {
			w := wantSent[i].Msg
			got, err := ref.DecodeMessage(raw)
			isReplace := rep.Exp[0].Kind == "ReplaceMessage" || rep.Exp[0].Kind == "ReplaceDepositForBurn"
			base := []string{"C06"}
			if isReplace {
				base = []string{"C09", "C06"}
			}
			if err != nil {
				// a message that cannot be decoded carries no nonce either
				e.viol(append(append([]string{}, base...), "C07"), "message-sent", "sent-malformed", "MessageSent is not a well-formed CCTP message: "+err.Error(), e.caseOf(tx, hex.EncodeToString(raw)))
				continue
			}
			chk := func(field string, ok bool, props ...string) {
				rc.Cov.Assert("C06.field." + field)
				if !ok {
					wb, _ := ref.EncodeMessage(&w)
					e.viol(append(append([]string{}, base...), props...), "message-sent", "sent-field:"+field+":"+kindsOf(rep),
						fmt.Sprintf("MessageSent field %s differs from the request: got %x want %x", field, raw, wb), e.caseOf(tx, ""))
				}
			}
			chk("version", got.Version == w.Version)
			chk("source-domain", got.SrcDomain == w.SrcDomain)
			chk("destination-domain", got.DstDomain == w.DstDomain)
			chk("nonce", got.Nonce == w.Nonce, "C07")
			chk("sender", bytes.Equal(got.Sender, w.Sender), "C05")
			chk("recipient", bytes.Equal(got.Recipient, w.Recipient))
			chk("destination-caller", bytes.Equal(got.Caller, w.Caller))
			if len(w.Body) == 132 && len(got.Body) == 132 && bytes.Equal(w.Sender, modulePadded) {
				gb, _ := ref.DecodeBurn(got.Body)
				wb, _ := ref.DecodeBurn(w.Body)
				chk("body.version", gb.Version == wb.Version)
				chk("body.burn-token", bytes.Equal(gb.BurnToken, wb.BurnToken))
				chk("body.mint-recipient", bytes.Equal(gb.MintRecipient, wb.MintRecipient))
				chk("body.amount", gb.Amount.Cmp(wb.Amount) == 0, "C05")
				chk("body.message-sender", bytes.Equal(gb.Sender, wb.Sender))
			} else {
				chk("body", bytes.Equal(got.Body, w.Body))
			}
			rc.Cov.Cell("C06_body_len", fmt.Sprint(len(w.Body)))
		}
	}
	// ---- response nonces
	rc.Cov.Assert("C07.response-nonce")
	if len(rep.RespNonces) != len(wantNonces) {
		e.viol([]string{"C07", "C06"}, "response-nonce", fmt.Sprintf("resp-nonce-count:%s", kindsOf(rep)),
			fmt.Sprintf("got %d nonce responses, want %d", len(rep.RespNonces), len(wantNonces)), e.caseOf(tx, ""))
	} else {
		for i := range wantNonces {
			if rep.RespNonces[i] != wantNonces[i] {
				e.viol([]string{"C07", "C06"}, "response-nonce", "resp-nonce:"+kindsOf(rep),
					fmt.Sprintf("response nonce %d, expected %d (next consecutive)", rep.RespNonces[i], wantNonces[i]), e.caseOf(tx, ""))
			}
		}
	}
	// ---- DepositForBurn event
	devs := eventsOfType(rep, "circle.cctp.v1.DepositForBurn")
	rc.Cov.Assert("C06.DepositForBurn.count")
	if len(devs) != len(wantDep) {
		e.viol([]string{"C06"}, "deposit-event", fmt.Sprintf("depev-count:%s:got%d:want%d", kindsOf(rep), len(devs), len(wantDep)),
			fmt.Sprintf("got %d DepositForBurn events, documented %d", len(devs), len(wantDep)), e.caseOf(tx, ""))
	} else {
		for i, ev := range devs {
			w := wantDep[i]
			bad := func(field string, err error, ok bool) {
				rc.Cov.Assert("C06.depev." + field)
				if err != nil || !ok {
					e.viol([]string{"C06"}, "deposit-event", "depev-field:"+field+":"+kindsOf(rep),
						fmt.Sprintf("DepositForBurn event field %s wrong (err=%v): attrs=%v want=%+v", field, err, ev.Attrs, *w), e.caseOf(tx, ""))
				}
			}
			n, err := ev.Uint64("nonce")
			bad("nonce", err, n == w.Nonce)
			a, err := ev.Uint("amount")
			bad("amount", err, err == nil && a.Cmp(w.Amount) == 0)
			d, err := ev.Str("depositor")
			bad("depositor", err, d == w.Depositor)
			mr, err := ev.Bytes("mint_recipient")
			bad("mint_recipient", err, bytes.Equal(mr, w.MintRecipient))
			dd, err := ev.Uint64("destination_domain")
			bad("destination_domain", err, dd == uint64(w.DstDomain))
			tm, err := ev.Bytes("destination_token_messenger")
			bad("destination_token_messenger", err, bytes.Equal(tm, w.Messenger))
			dc, err := ev.Bytes("destination_caller")
			bad("destination_caller", err, bytes.Equal(dc, w.Caller) || (ref.IsZero(dc) && ref.IsZero(w.Caller) && (len(dc) == 0 || len(dc) == 32) && (len(w.Caller) == 0 || len(w.Caller) == 32)))
			if w.BurnToken != "" {
				bt, err := ev.Str("burn_token")
				rc.Cov.Assert("C06.depev.replacement-burn-token")
				if err != nil || bt != w.BurnToken {
					e.viol([]string{"C06"}, "deposit-event", "depev-field:replacement-burn-token",
						fmt.Sprintf("replacement's DepositForBurn event names burn token %q, the original deposit's event named %q", bt, w.BurnToken), e.caseOf(tx, ""))
				}
			}
		}
	}
	// ---- MessageReceived / MintAndWithdraw
	revs := eventsOfType(rep, "circle.cctp.v1.MessageReceived")
	mevs := eventsOfType(rep, "circle.cctp.v1.MintAndWithdraw")
	nMint := 0
	for _, w := range wantRecv {
		if w.Mint {
			nMint++
		}
	}
	rc.Cov.Assert("C04.events.count")
	if len(revs) != len(wantRecv) || len(mevs) != nMint {
		e.viol([]string{"C04"}, "receive-events", fmt.Sprintf("recv-event-count:%s", kindsOf(rep)),
			fmt.Sprintf("got %d MessageReceived / %d MintAndWithdraw, documented %d / %d", len(revs), len(mevs), len(wantRecv), nMint), e.caseOf(tx, ""))
		return
	}
	mi := 0
	for i, w := range wantRecv {
		ev := revs[i]
		bad := func(field string, err error, ok bool) {
			rc.Cov.Assert("C04.recvev." + field)
			if err != nil || !ok {
				e.viol([]string{"C04"}, "receive-events", "recv-event-field:"+field,
					fmt.Sprintf("receive event field %s wrong (err=%v): attrs=%v", field, err, ev.Attrs), e.caseOf(tx, ""))
			}
		}
		c, err := ev.Str("caller")
		bad("caller", err, c == w.Caller)
		sd, err := ev.Uint64("source_domain")
		bad("source_domain", err, sd == uint64(w.SrcDomain))
		n, err := ev.Uint64("nonce")
		bad("nonce", err, n == w.Nonce)
		s, err := ev.Bytes("sender")
		bad("sender", err, bytes.Equal(s, w.Sender))
		b, err := ev.Bytes("message_body")
		bad("message_body", err, bytes.Equal(b, w.Body))
		if w.Mint {
			ev = mevs[mi]
			mi++
			mr, err := ev.Bytes("mint_recipient")
			bad("mint.mint_recipient", err, bytes.Equal(mr, w.MintRecip))
			a, err := ev.Uint("amount")
			bad("mint.amount", err, err == nil && a.Cmp(w.Amount) == 0)
			t, err := ev.Str("mint_token")
			bad("mint.mint_token", err, t == w.MintToken)
		}
	}
}

// checkLedger: balances and supply moved exactly as documented (C04/C05).
func (e *Engine) checkLedger(tx *Tx, rep *Report, pre map[string]*big.Int, extra []string) {
	rc := e.Rc
	post := e.ledgerSnapshot(extra)
	want := map[string]*big.Int{}
	add := func(k string, d *big.Int) {
		if want[k] == nil {
			want[k] = new(big.Int)
		}
		want[k].Add(want[k], d)
	}
	for _, ex := range rep.Exp {
		for _, d := range ex.Deps {
			switch d.Method {
			case "Transfer":
				add(d.From, new(big.Int).Neg(d.Amount))
			case "Burn":
				add("<supply>", new(big.Int).Neg(d.Amount))
			case "Mint":
				add(d.To, d.Amount)
				add("<supply>", d.Amount)
			}
		}
	}
	rc.Cov.Assert("ledger.deltas")
	keys := make([]string, 0, len(post))
	for k := range post {
		keys = append(keys, k)
	}
	sort.Strings(keys)
	for _, k := range keys {
		p0 := pre[k]
		if p0 == nil {
			p0 = new(big.Int)
		}
		delta := new(big.Int).Sub(post[k], p0)
		w := want[k]
		if w == nil {
			w = new(big.Int)
		}
		if delta.Cmp(w) != 0 {
			props := []string{"C05", "C04", "C14"}
			if rep.Exp[0].Kind == "ReplaceMessage" || rep.Exp[0].Kind == "ReplaceDepositForBurn" {
				props = append(props, "C09")
			}
			who := "account"
			if k == "<supply>" {
				who = "supply"
			} else if k == moduleBech() {
				who = "module-account"
			}
			e.viol(props, "ledger-delta", "ledger-delta:"+kindsOf(rep)+":"+who,
				fmt.Sprintf("ledger entry %s changed by %s, documented %s", k, delta, w), e.caseOf(tx, ""))
		}
	}
	rc.Cov.Assert("C05.module-account-empty")
	base := e.Cfg.Funded[moduleBech()] // stray funds the chain started with (normally none)
	if base == nil {
		base = new(big.Int)
	}
	if e.ModuleHeld != nil {
		base = new(big.Int).Add(base, e.ModuleHeld)
	}
	if post[moduleBech()].Cmp(base) != 0 {
		e.viol([]string{"C05"}, "ledger-delta", "module-balance-nonzero", fmt.Sprintf("module account holds %s after a transaction (it held %s before the history began, mints addressed to it included)", post[moduleBech()], base), e.caseOf(tx, ""))
	}
}

// checkWrites: raw write-set size (C15) + learned-key guards (C02, C07).
func (e *Engine) checkWrites(tx *Tx, rep *Report, kindStr string) {
	rc := e.Rc
	keys := map[string]int{}
	for _, op := range rep.Ops {
		if op.Op == 'S' || op.Op == 'D' {
			keys[string(op.Key)]++
		}
	}
	if rep.TxExp != DontCare {
		budget := 0
		for _, ex := range rep.Exp {
			budget += ex.Writes
		}
		rc.Cov.Assert("C15.raw-write-count")
		rc.Cov.Cell("C15_writes", fmt.Sprintf("%s/ok/%d", kindStr, len(keys)))
		if len(keys) > budget {
			var ks []string
			for k := range keys {
				ks = append(ks, fmt.Sprintf("%q", k))
			}
			sort.Strings(ks)
			e.viol([]string{"C15"}, "write-set/raw", fmt.Sprintf("raw-writes:%s:%d>%d", kindStr, len(keys), budget),
				fmt.Sprintf("%s wrote %d distinct store keys, documented at most %d: %v", kindStr, len(keys), budget, ks), e.caseOf(tx, ""))
		}
	}
	// C02: keys written by successful receives are never deleted or rewritten differently
	for _, op := range rep.Ops {
		if op.Op != 'S' && op.Op != 'D' {
			continue
		}
		if old, ok := e.learnedUsed[string(op.Key)]; ok {
			rc.Cov.Assert("C02.learned-key-guard")
			if op.Op == 'D' || !bytes.Equal(old, op.Val) {
				e.viol([]string{"C02"}, "learned-key-guard", "used-nonce-entry-modified:"+kindStr,
					fmt.Sprintf("%s %c a store entry that a successful receive had written (key %q)", kindStr, op.Op, op.Key), e.caseOf(tx, ""))
			}
		}
	}
	if rep.TxExp != DontCare && len(rep.Exp) == 1 && rep.Exp[0].Kind == "ReceiveMessage" {
		for _, op := range rep.Ops {
			if op.Op == 'S' {
				e.learnedUsed[string(op.Key)] = op.Val
			}
		}
	}
	// C07: the producers' counter key is written once per producer message and by nothing else
	if rep.TxExp != DontCare {
		prod := 0
		for _, ex := range rep.Exp {
			if ex.RespNonce != nil {
				prod++
			}
		}
		if e.nonceKeyRaw == nil && prod == 1 && len(rep.Exp) == 1 && len(keys) == 1 {
			for k := range keys {
				e.nonceKeyRaw = []byte(k)
			}
		}
		if e.nonceKeyRaw != nil {
			rc.Cov.Assert("C07.counter-key-writes")
			n := 0
			for _, op := range rep.Ops {
				if (op.Op == 'S' || op.Op == 'D') && bytes.Equal(op.Key, e.nonceKeyRaw) {
					n++
				}
			}
			if n != prod {
				e.viol([]string{"C07", "C15"}, "counter-key", "counter-writes:"+kindStr,
					fmt.Sprintf("%s wrote the outbound counter %d times, %d producer messages", kindStr, n, prod), e.caseOf(tx, ""))
			}
		}
		e.Producers += uint64(prod)
	}
}

// recordEmitted indexes outbound messages (for replacements).
func (e *Engine) recordEmitted(tx *Tx, rep *Report) {
	devs := eventsOfType(rep, "circle.cctp.v1.DepositForBurn")
	di := 0
	for i, raw := range rep.Sent {
		m, err := ref.DecodeMessage(raw)
		if err != nil {
			continue
		}
		byModule := bytes.Equal(m.Sender, modulePadded)
		em := e.M.Emitted[m.Nonce]
		isNew := i < len(rep.Exp) && rep.Exp[min(i, len(rep.Exp)-1)].RespNonce != nil
		if !isNew && i < len(rep.SentIdx) && rep.SentIdx[i] >= 0 && rep.SentIdx[i] < len(tx.Msgs) {
			// the output of a replacement belongs to the lineage of a message this chain emitted only if the replaced
			// original is part of that lineage (an attested message crafted elsewhere may carry the same nonce)
			var orig []byte
			switch x := tx.Msgs[rep.SentIdx[i]].(type) {
			case *ct.MsgReplaceMessage:
				orig = x.OriginalMessage
			case *ct.MsgReplaceDepositForBurn:
				orig = x.OriginalMessage
			}
			if orig != nil {
				own := false
				if em != nil {
					for _, v := range em.All {
						if bytes.Equal(v, orig) {
							own = true
						}
					}
				}
				if !own {
					if byModule {
						di++
					}
					continue
				}
			}
		}
		if em == nil || isNew {
			em = &Emitted{Nonce: m.Nonce, Original: raw, ByModule: byModule, Sender: m.Sender}
			e.M.Emitted[m.Nonce] = em
		}
		em.Latest = raw
		em.All = append(em.All, raw)
		if byModule && di < len(devs) {
			if isNew {
				if bt, err := devs[di].Str("burn_token"); err == nil {
					em.BurnTokenEv = bt
				}
				if d, err := devs[di].Str("depositor"); err == nil {
					em.Depositor = d
				}
				if a, err := devs[di].Uint("amount"); err == nil {
					em.Amount = a
				}
			}
			di++
		}
	}
}

// adoptObserved: the model's verdict was DontCare and the transaction succeeded; bring
// the model in line with what is observable (export + pending-owner getter).
func (e *Engine) adoptObserved(tx *Tx, rep *Report) {
	obs := e.Observe()
	// whatever is don't-care about the request, a link or unlink of one key leaves every other token pair as it was
	if len(tx.Msgs) == 1 {
		var k *pairKey
		switch x := tx.Msgs[0].(type) {
		case *ct.MsgLinkTokenPair:
			k = &pairKey{x.RemoteDomain, string(x.RemoteToken)}
		case *ct.MsgUnlinkTokenPair:
			k = &pairKey{x.RemoteDomain, string(x.RemoteToken)}
		}
		if k != nil {
			e.Rc.Cov.Assert("C19.other-pairs-untouched")
			for ok, ov := range e.M.Pairs {
				if nv, has := obs.Pairs[ok]; ok != *k && (!has || nv != ov) {
					e.viol([]string{"C19", "C15"}, "registry-interference", "C19:pair-request-changed-another-pair",
						fmt.Sprintf("a request naming token pair (%d, %x) changed the entry (%d, %x): local token %q -> %q (present %v)", k.Domain, k.Token, ok.Domain, ok.Token, ov, nv, has), e.caseOf(tx, ""))
				}
			}
			for nk := range obs.Pairs {
				if _, had := e.M.Pairs[nk]; !had && nk != *k {
					e.viol([]string{"C19", "C15"}, "registry-interference", "C19:pair-request-created-another-pair",
						fmt.Sprintf("a request naming token pair (%d, %x) created the entry (%d, %x)", k.Domain, k.Token, nk.Domain, nk.Token), e.caseOf(tx, ""))
				}
			}
		}
	}
	obs.Emitted = e.M.Emitted
	obs.Minted, obs.Burned, obs.AcceptedBurnMsg = e.M.Minted, e.M.Burned, e.M.AcceptedBurnMsg
	// every producer message of a successful transaction took exactly one nonce, whatever else is don't-care about it
	for _, m := range tx.Msgs {
		switch m.(type) {
		case *ct.MsgSendMessage, *ct.MsgSendMessageWithCaller, *ct.MsgDepositForBurn, *ct.MsgDepositForBurnWithCaller:
			e.Producers++
		}
	}
	e.M = obs
}

// Observe reads the full observable module state from the committed chain state.
func (e *Engine) Observe() *State {
	ctx := e.C.QueryCtx()
	old := e.C.Store.Phase
	e.C.Store.Phase = "export"
	defer func() { e.C.Store.Phase = old }()
	gs := exportGenesis(ctx, e.C)
	s := FromGenesis(gs)
	if gs.MaxMessageBodySize == nil {
		s.HasMaxBody = false
		s.MaxBody = 0
	}
	p, ok := e.C.Keeper.GetPendingOwner(ctx)
	s.Pending, s.HasPending = p, ok
	s.MintDenom = e.MintDenom()
	return s
}

func min(a, b int) int {
	if a < b {
		return a
	}
	return b
}

// checkExactlyOnce: C02/C04 — independent of the model's used-set (which is resynchronised with the chain
// after a reported divergence): a second successful receive for a (source domain, nonce) pair is a violation.
func (e *Engine) checkExactlyOnce(tx *Tx, rep *Report) {
	if e.accepted == nil {
		e.accepted = map[nonceKey]bool{}
	}
	for _, m := range tx.Msgs {
		rx, ok := m.(*ct.MsgReceiveMessage)
		if !ok {
			continue
		}
		d, err := ref.DecodeMessage(rx.Message)
		if err != nil {
			continue
		}
		k := nonceKey{d.SrcDomain, d.Nonce}
		e.Rc.Cov.Assert("C02.exactly-once")
		if e.accepted[k] {
			props := []string{"C02"}
			if bytes.Equal(d.Recipient, modulePadded) {
				props = append(props, "C04")
			}
			e.viol(props, "exactly-once", "C02:second-success", fmt.Sprintf("a second receive succeeded for (%d,%d)", k.Domain, k.Nonce), e.caseOf(tx, ""))
		}
		e.accepted[k] = true
	}
}

// checkReplacementKeeps: C09 — whatever the model thought of the request, a replacement that succeeds keeps the
// original's nonce, domains, sender and recipient (and burn token, amount, depositor for deposit replacements).
func (e *Engine) checkReplacementKeeps(tx *Tx, rep *Report) {
	if len(tx.Msgs) != 1 || len(rep.Sent) != 1 {
		return
	}
	var orig []byte
	deposit := false
	switch x := tx.Msgs[0].(type) {
	case *ct.MsgReplaceMessage:
		orig = x.OriginalMessage
	case *ct.MsgReplaceDepositForBurn:
		orig, deposit = x.OriginalMessage, true
	default:
		return
	}
	o, err1 := ref.DecodeMessage(orig)
	n, err2 := ref.DecodeMessage(rep.Sent[0])
	if err1 != nil || err2 != nil {
		return
	}
	bad := func(f string) {
		props := []string{"C09", "C06"}
		if f == "nonce" {
			props = append(props, "C07") // a replacement drew a fresh nonce
			if deposit {
				props = append(props, "C05") // ... and announced the same burn a second time under it
			}
		}
		if deposit && (f == "amount" || f == "burn-token" || f == "depositor" || f == "body-shape") {
			props = append(props, "C05") // the module announces, under a burnt nonce, a burn that did not happen as stated
		}
		e.viol(props, "replacement-keeps", "C09:replacement-changed:"+f,
			fmt.Sprintf("the replacement differs from the original in %s: original %x, replacement %x", f, orig, rep.Sent[0]), e.caseOf(tx, ""))
	}
	e.Rc.Cov.Assert("C09.replacement-keeps")
	switch {
	case o.Nonce != n.Nonce:
		bad("nonce")
	case o.SrcDomain != n.SrcDomain || o.DstDomain != n.DstDomain:
		bad("domains")
	case !bytes.Equal(o.Sender, n.Sender):
		bad("sender")
	case !bytes.Equal(o.Recipient, n.Recipient):
		bad("recipient")
	}
	if deposit {
		ob, e1 := ref.DecodeBurn(o.Body)
		nb, e2 := ref.DecodeBurn(n.Body)
		if e1 != nil {
			return
		}
		if e2 != nil {
			bad("body-shape")
			return
		}
		switch {
		case !bytes.Equal(ob.BurnToken, nb.BurnToken):
			bad("burn-token")
		case ob.Amount.Cmp(nb.Amount) != 0:
			bad("amount")
		case !bytes.Equal(ob.Sender, nb.Sender):
			bad("depositor")
		case ob.Version != nb.Version:
			bad("body-version")
		}
	}
}

// checkSuccessImplies: C14, independent of the model's verdict (also for don't-care outcomes): a deposit that
// reports success made a transfer and a burn that both returned ok and emitted a module-sent MessageSent per
// deposit; a successful receive of a module-addressed message made a mint that returned ok.
func (e *Engine) checkSuccessImplies(tx *Tx, rep *Report) {
	deposits, moduleReceives := 0, 0
	for _, m := range tx.Msgs {
		switch x := m.(type) {
		case *ct.MsgDepositForBurn, *ct.MsgDepositForBurnWithCaller:
			deposits++
		case *ct.MsgReceiveMessage:
			if d, err := ref.DecodeMessage(x.Message); err == nil && bytes.Equal(d.Recipient, modulePadded) {
				moduleReceives++
			}
		}
	}
	if deposits == 0 && moduleReceives == 0 {
		return
	}
	okCalls := map[string]int{}
	for _, d := range rep.Deps {
		if d.Seq >= 0 && d.Err == "" {
			okCalls[d.Method]++
		}
	}
	moduleSent := 0
	for _, raw := range rep.Sent {
		if d, err := ref.DecodeMessage(raw); err == nil && bytes.Equal(d.Sender, modulePadded) {
			moduleSent++
		}
	}
	e.Rc.Cov.Assert("C14.success-implies-effects")
	if okCalls["Transfer"] < deposits || okCalls["Burn"] < deposits || moduleSent < deposits {
		e.viol([]string{"C14", "C05"}, "all-or-nothing", "C14:deposit-success-without-effects",
			fmt.Sprintf("%d deposit(s) reported success with %d ok transfers, %d ok burns and %d module-sent MessageSent events", deposits, okCalls["Transfer"], okCalls["Burn"], moduleSent), e.caseOf(tx, ""))
	}
	// a burn is backed by the coins just pulled from a depositor: same denom as spelled, same amount
	if deposits > 0 {
		var pulled []chain.DepCall
		for _, d := range rep.Deps {
			if d.Seq < 0 || d.Err != "" {
				continue
			}
			switch d.Method {
			case "Transfer":
				pulled = append(pulled, d)
			case "Burn":
				e.Rc.Cov.Assert("C05.burn-backed-by-transfer")
				ok := false
				for i, t := range pulled {
					if t.Denom == d.Denom && t.Amount != nil && d.Amount != nil && t.Amount.Cmp(d.Amount) == 0 {
						pulled = append(pulled[:i], pulled[i+1:]...)
						ok = true
						break
					}
				}
				if !ok {
					e.viol([]string{"C05"}, "backed-burn", "C05:burn-not-backed-by-transfer",
						fmt.Sprintf("the module asked to burn %s%s, which is not what a depositor was debited in this transaction: %s", d.Amount, d.Denom, depSummary(rep.Deps)), e.caseOf(tx, ""))
				}
			}
		}
	}
	// a receive transaction that is committed reports success = true and one MessageReceived event per receive: a
	// transaction that goes through although the receive did not take place leaves its pair consumed for nothing
	receives := 0
	for _, m := range tx.Msgs {
		if _, ok := m.(*ct.MsgReceiveMessage); ok {
			receives++
		}
	}
	if receives > 0 {
		e.Rc.Cov.Assert("C02.committed-receive-succeeded")
		okFlags := 0
		for _, f := range rep.RecvSuccess {
			if f {
				okFlags++
			}
		}
		if evs := len(eventsOfType(rep, "circle.cctp.v1.MessageReceived")); okFlags != receives || evs != receives {
			e.viol([]string{"C02", "C14", "C03"}, "all-or-nothing", "C02:receive-committed-without-success",
				fmt.Sprintf("a transaction with %d receive(s) was committed with %d success flags and %d MessageReceived events: the pair is consumed although no receive for it succeeded", receives, okFlags, evs), e.caseOf(tx, ""))
		}
	}
	if okCalls["Mint"] < moduleReceives {
		e.viol([]string{"C14", "C04"}, "all-or-nothing", "C14:receive-success-without-mint",
			fmt.Sprintf("%d module-addressed receive(s) reported success with %d ok mints", moduleReceives, okCalls["Mint"]), e.caseOf(tx, ""))
	}
}

// trackConservation accumulates, from successful transactions only, what the module asked the ledger to do
// and what the accepted / emitted burn messages say.
func (e *Engine) trackConservation(tx *Tx, rep *Report) {
	if e.SumMintReq == nil {
		e.SumMintReq, e.SumAccepted, e.SumBurnReq, e.SumDeposits = new(big.Int), new(big.Int), new(big.Int), new(big.Int)
	}
	for _, d := range rep.Deps {
		if d.Seq < 0 || d.Err != "" || d.Amount == nil {
			continue
		}
		switch d.Method {
		case "Mint":
			e.SumMintReq.Add(e.SumMintReq, d.Amount)
		case "Burn":
			e.SumBurnReq.Add(e.SumBurnReq, d.Amount)
		}
	}
	for _, m := range tx.Msgs {
		if rx, ok := m.(*ct.MsgReceiveMessage); ok {
			if d, err := ref.DecodeMessage(rx.Message); err == nil && bytes.Equal(d.Recipient, modulePadded) {
				if b, err := ref.DecodeBurn(d.Body); err == nil {
					e.SumAccepted.Add(e.SumAccepted, b.Amount)
				}
			}
		}
	}
	producers := 0
	for _, m := range tx.Msgs {
		switch m.(type) {
		case *ct.MsgDepositForBurn, *ct.MsgDepositForBurnWithCaller:
			producers++
		}
	}
	if producers > 0 {
		for i, raw := range rep.Sent {
			// only messages emitted by a deposit (a replace-deposit-for-burn in the same transaction re-emits a burn
			// message without burning anything)
			if i < len(rep.SentIdx) && rep.SentIdx[i] >= 0 && rep.SentIdx[i] < len(tx.Msgs) {
				switch tx.Msgs[rep.SentIdx[i]].(type) {
				case *ct.MsgDepositForBurn, *ct.MsgDepositForBurnWithCaller:
				default:
					continue
				}
			}
			if d, err := ref.DecodeMessage(raw); err == nil && bytes.Equal(d.Sender, modulePadded) {
				if b, err := ref.DecodeBurn(d.Body); err == nil {
					e.SumDeposits.Add(e.SumDeposits, b.Amount)
					// model-independent: however the request spelled the burn token, the burn message names keccak256 of the
					// lower-cased minting denom
					e.Rc.Cov.Assert("C06.deposit-burn-token-is-hash-of-lower-cased-denom")
					if i < len(rep.SentIdx) && rep.SentIdx[i] >= 0 && rep.SentIdx[i] < len(tx.Msgs) {
						spelled := ""
						switch x := tx.Msgs[rep.SentIdx[i]].(type) {
						case *ct.MsgDepositForBurn:
							spelled = x.BurnToken
						case *ct.MsgDepositForBurnWithCaller:
							spelled = x.BurnToken
						}
						if spelled != "" && spelled != e.MintDenom() {
							e.Rc.Cov.Cell("C06_case_variant_deposits", "accepted")
						}
					}
					if want := ref.Keccak256([]byte(strings.ToLower(e.MintDenom()))); !bytes.Equal(b.BurnToken, want) {
						e.viol([]string{"C06"}, "message-sent", "C06:deposit-burn-token-not-hash-of-lower-cased-denom",
							fmt.Sprintf("a deposit's burn message names burn token %x; keccak256(lower-cased minting denom %q) is %x", b.BurnToken, e.MintDenom(), want), e.caseOf(tx, hex.EncodeToString(raw)))
					}
				}
				// model-independent: every deposit announces its burn under an outbound nonce of its own
				if e.DepositNonces == nil {
					e.DepositNonces = map[uint64]bool{}
				}
				e.Rc.Cov.Assert("C05.deposit-nonce-of-its-own")
				if e.DepositNonces[d.Nonce] {
					e.viol([]string{"C05", "C07"}, "deposit-nonce", "C05:deposit-announced-under-a-used-nonce",
						fmt.Sprintf("a deposit announced its burn under outbound nonce %d, under which an earlier deposit of this history already announced another burn", d.Nonce), e.caseOf(tx, hex.EncodeToString(raw)))
				}
				e.DepositNonces[d.Nonce] = true
			}
		}
	}
	if os.Getenv("VERIF_DEBUG_CONSERVATION") != "" && e.SumBurnReq.Cmp(e.SumDeposits) != 0 && !e.dbgCons {
		e.dbgCons = true
		fmt.Printf("DEBUG conservation first diverges at: %s\n  deps=%s\n  sent=%d\n", trunc(describeTx(tx), 3000), depSummary(rep.Deps), len(rep.Sent))
	}
}

func okWord(ok bool) string {
	if ok {
		return "succeeded"
	}
	return "failed"
}

// cctpEventStrings renders the module's typed events of one execution in order.
func cctpEventStrings(evs []abci.Event) []string {
	var out []string
	for _, ev := range evs {
		if !strings.HasPrefix(ev.Type, "circle.cctp.") {
			continue
		}
		s := ev.Type
		for _, a := range ev.Attributes {
			s += " " + a.Key + "=" + a.Value
		}
		out = append(out, s)
	}
	return out
}

// shiftedEventStrings: module events of a padded execution with the padding message's own events removed and the
// msg_index of the others mapped back to what they are without the padding.
func shiftedEventStrings(evs []abci.Event, padIdx int) []string {
	var out []string
	for _, ev := range evs {
		if !strings.HasPrefix(ev.Type, "circle.cctp.") {
			continue
		}
		idx := -1
		for _, a := range ev.Attributes {
			if a.Key == "msg_index" {
				if v, err := strconv.Atoi(strings.Trim(a.Value, "\"")); err == nil {
					idx = v
				}
			}
		}
		if idx == padIdx {
			continue
		}
		s := ev.Type
		for _, a := range ev.Attributes {
			v := a.Value
			if a.Key == "msg_index" && idx > padIdx {
				v = strconv.Itoa(idx - 1)
			}
			s += " " + a.Key + "=" + v
		}
		out = append(out, s)
	}
	return out
}
