package sim

import (
	"fmt"
	"math/big"
	"sort"

	sdk "github.com/cosmos/cosmos-sdk/types"

	ct "github.com/circlefin/noble-cctp/x/cctp/types"

	"verif/harness/chain"
	"verif/harness/ref"
)

type rxRecord struct {
	in   InMsg
	from string
}

var c02ReplayKinds = []string{"verbatim", "other-body", "other-recipient", "other-caller", "other-v-encoding", "other-submitter",
	"after-pause-unpause", "after-attester-rotation", "after-unlink-relink", "after-restart", "after-export-import", "as-non-module", "as-module",
	"after-messenger-remove-readd", "after-admin-churn", "after-domain-decommission"}

// runC02 drives replay-heavy histories; the exactly-once verdicts come from the engine's
// outcome oracle (nonce-used => MustFail), the state tap (used set == model), the
// used-nonce queries over confusable twins and the learned-key write guard.
// c02RefusedMints: receives whose mint the fiat-token-factory refuses (recipient blacklisted; and every error class
// injected at the Mint call in turn) consume nothing: the pair is reported unused afterwards, a second message with
// the same (source domain, nonce) and another recipient is received, and after that the first one is refused for good.
func c02RefusedMints(rc *RunCtx) {
	e, err := StdEngine(rc, false, false, func(gs *ct.GenesisState, cfg *chain.Config) {
		cfg.Blacklisted = [][]byte{AcctBytes(1)}
	})
	if err != nil {
		rc.Cov.Inconclusive("refused mints: " + err.Error())
		return
	}
	e.LightQueries = false
	nonce := uint64(3_300_000)
	for k := 0; k < 12; k++ {
		nonce++
		first := StdInbound(nonce, 1, big.NewInt(int64(5+k))) // recipient account 1 is blacklisted
		tx := Tx{Msgs: msgs1(&ct.MsgReceiveMessage{From: Acct(UserIx), Message: first.Bytes(), Attestation: e.Attest(first.Bytes(), k%3)}), Note: "C02 refused mints: mint refused by the token factory"}
		if k%3 != 0 { // an injected refusal at the Mint call (the classes are cycled), recipient in good standing
			first = StdInbound(nonce, 2, big.NewInt(int64(5+k)))
			tx = Tx{Msgs: msgs1(&ct.MsgReceiveMessage{From: Acct(UserIx), Message: first.Bytes(), Attestation: e.Attest(first.Bytes(), k%3)}), Note: "C02 refused mints: injected refusal at the Mint call",
				Fault: map[int]chain.FaultKind{0: chain.FaultCleanErr}}
		}
		r1 := e.Exec(tx)
		e.queryUsedNonce(&tx, nonceKey{0, nonce})
		second := StdInbound(nonce, 3, big.NewInt(int64(50+k)))
		r2 := e.Exec(Tx{Msgs: msgs1(&ct.MsgReceiveMessage{From: Acct(OtherIx), Message: second.Bytes(), Attestation: e.Attest(second.Bytes(), 0)}), Note: "C02 refused mints: another message for the same pair"})
		again := StdInbound(nonce, 2, big.NewInt(int64(5+k)))
		r3 := e.Exec(Tx{Msgs: msgs1(&ct.MsgReceiveMessage{From: Acct(UserIx), Message: again.Bytes(), Attestation: e.Attest(again.Bytes(), 0)}), Note: "C02 refused mints: the pair is consumed now"})
		rc.Cov.Cell("C02_refused_mints", fmt.Sprintf("refused=%s/second=%s/third=%s", okWord(r1.OK), okWord(r2.OK), okWord(r3.OK)))
	}
}

// c02PairValueSweep: for the source domains 0, 11, 64 and 2^32-1 and every nonce value of the sweep (0..72 and around
// every power of two up to 2^64-1): the first receive succeeds, the second is refused, the pair is reported used.
func c02PairValueSweep(rc *RunCtx) {
	e, err := StdEngine(rc, false, false, nil)
	if err != nil {
		rc.Cov.Inconclusive("pair value sweep: " + err.Error())
		return
	}
	e.LightQueries = true
	var nonces []uint64
	for n := uint64(0); n <= 72; n++ {
		nonces = append(nonces, n)
	}
	for sh := uint(7); sh < 64; sh++ {
		nonces = append(nonces, 1<<sh-1, 1<<sh, 1<<sh+1)
	}
	nonces = append(nonces, ^uint64(0)-1, ^uint64(0))
	i := 0
	for _, d := range []uint32{0, 11, 64, 0xffffffff} {
		for _, n := range nonces {
			i++
			if i%rc.NShards != rc.Shard {
				continue
			}
			in := &InMsg{Version: 0, Src: d, Dst: 4, Nonce: n, Sender: Structured32(1), Recipient: Structured32(2), Caller: make([]byte, 32), Body: []byte("sweep")}
			raw := in.Bytes()
			tx := Tx{Msgs: msgs1(&ct.MsgReceiveMessage{From: Acct(UserIx), Message: raw, Attestation: e.Attest(raw, i%3)}), Note: fmt.Sprintf("C02 pair value sweep: (%d, %d) first", d, n)}
			r1 := e.Exec(tx)
			in.Body = []byte("sweep again")
			raw2 := in.Bytes()
			r2 := e.Exec(Tx{Msgs: msgs1(&ct.MsgReceiveMessage{From: Acct(OtherIx), Message: raw2, Attestation: e.Attest(raw2, 0)}), Note: fmt.Sprintf("C02 pair value sweep: (%d, %d) second", d, n)})
			if i%7 == 0 {
				e.queryUsedNonce(&tx, nonceKey{d, n})
			}
			rc.Cov.Cell("C02_pair_value_sweep", fmt.Sprintf("d=%d/first=%s/second=%s", d, okWord(r1.OK), okWord(r2.OK)))
		}
	}
	e.FullQueryCheck(nil, []uint64{100})
}

func runC02(rc *RunCtx) {
	r := rc.Rand
	c02PairValueSweep(rc)
	if rc.Shard == 1%rc.NShards {
		c02RefusedMints(rc)
	}
	nHist := rc.Pick(3, 10)
	for h := 0; h < nHist; h++ {
		e, err := StdEngine(rc, h%3 == 2, false, nil)
		if err != nil {
			rc.Cov.Inconclusive(err.Error())
			continue
		}
		var done []rxRecord
		exec := func(m sdk.Msg, note string) *Report {
			return e.Exec(Tx{Msgs: msgs1(m), Note: note})
		}
		admin := func(m sdk.Msg) {
			if rep := exec(m, "c02 admin"); !rep.OK {
				rc.Cov.Notes = append(rc.Cov.Notes, "c02 admin step failed: "+describeMsg(m))
			}
		}
		mkRx := func(in *InMsg, from string, vstyle int) *ct.MsgReceiveMessage {
			raw := in.Bytes()
			return &ct.MsgReceiveMessage{From: from, Message: raw, Attestation: e.Attest(raw, vstyle)}
		}
		// used nonces of two source domains that share a nonce value at the boundary between them (in any key order
		// one of the shared values is the last entry of one domain and next to the first of the other)
		{
			var block []rxRecord
			da, db := []uint32{0, 1, 4}[h%3], []uint32{1, 4, 0xffffffff}[h%3]
			for _, p := range []struct {
				d uint32
				n uint64
			}{{da, 3}, {da, 7}, {db, 7}, {db, 9}, {77, ^uint64(0)}, {78, ^uint64(0)}, {79, 0}, {80, 0}} {
				in := &InMsg{Version: 0, Src: p.d, Dst: 4, Nonce: p.n, Sender: Structured32(1), Recipient: Structured32(2), Caller: make([]byte, 32), Body: []byte("boundary")}
				if rep := exec(mkRx(in, Acct(UserIx), 0), "c02 boundary pattern"); rep.OK {
					block = append(block, rxRecord{*in, Acct(UserIx)})
				}
			}
			if _, _, _, err := e.ExportImport(); err != nil {
				rc.Cov.Inconclusive("export/import: " + err.Error())
			}
			for _, rec := range block {
				in2 := rec.in
				rep := exec(mkRx(&in2, Acct(OtherIx), 1), "c02 replay of the boundary pattern after export/import")
				rc.Cov.Cell("C02_replays", "boundary-after-export-import/"+map[bool]string{true: "SECOND-SUCCESS", false: "rejected"}[rep.OK])
				if rep.OK {
					e.viol([]string{"C02"}, "exactly-once", "C02:second-success:boundary-after-export-import",
						fmt.Sprintf("a second receive succeeded for (%d,%d) after export/import", in2.Src, in2.Nonce), nil)
				}
			}
			done = append(done, block...)
		}
		nonces := append([]uint64{0, 1, 255, 256, 0xffffffff, 0x100000000, 1 << 63, ^uint64(0)}, 7, 8, 9, 10, 11, 12, 13, 14, 15, 16, 17, 18, 19, 20, 21, 22, 23, 24)
		steps := rc.Pick(260, 900)
		for i := 0; i < steps; i++ {
			// 1. a fresh valid receive (module or not), on a hostile or small nonce and domain 0/1
			d := uint32(i % 2)
			n := nonces[r.Intn(len(nonces))] + uint64(h*1000+i)*uint64(r.Intn(2))
			var in *InMsg
			if i%3 == 0 {
				// messages not addressed to the module may come from any source domain, the local one and the largest included
				d = []uint32{0, 1, 4, 0xffffffff, 5, 4}[(i/3)%6]
				in = &InMsg{Version: 0, Src: d, Dst: 4, Nonce: n, Sender: Structured32(1), Recipient: Structured32(2), Caller: make([]byte, 32), Body: []byte{1, 2, 3}}
			} else {
				amt := big.NewInt(int64(1 + i))
				if i%7 == 4 { // a burn message stating amount 0
					amt = big.NewInt(0)
				}
				in = StdInbound(n, i%NAccounts, amt)
				in.Src = d
				in.Sender = Messenger(d, 0)
			}
			from := Acct(UserIx)
			used := e.M.Used[nonceKey{in.Src, in.Nonce}]
			rep := exec(mkRx(in, from, i%3), "c02 fresh")
			rc.Cov.Cell("C02_fresh", fmt.Sprintf("used-before=%v/ok=%v", used, rep.OK))
			if rep.OK {
				done = append(done, rxRecord{*in, from})
			}
			// 2. a failed receive followed by the repaired message on the same pair
			if i%4 == 1 {
				bad := *in
				bad.Nonce = in.Nonce + 77777
				bad.Dst = 5 // wrong destination domain
				if rep := exec(mkRx(&bad, from, 0), "c02 failing-first"); !rep.OK {
					bad.Dst = 4
					rep2 := exec(mkRx(&bad, from, 1), "c02 repaired")
					rc.Cov.Cell("C02_repaired", fmt.Sprintf("ok=%v", rep2.OK))
					if rep2.OK {
						done = append(done, rxRecord{bad, from})
					}
				}
			}
			if i%20 == 7 {
				loopBackCycle(e, Acct(i%NAccounts), byte(1+i%200))
			}
			if len(done) == 0 {
				continue
			}
			// 3. replays of earlier successes
			for k := 0; k < 3; k++ {
				rec := done[r.Intn(len(done))]
				kind := c02ReplayKinds[(i*3+k)%len(c02ReplayKinds)]
				if kind == "after-export-import" {
					kind = "verbatim" // scheduled separately below (it is expensive)
				}
				if i%40 == 39 && k == 0 {
					kind = "after-export-import"
				}
				in2 := rec.in
				from2 := rec.from
				vs := 0
				switch kind {
				case "verbatim":
				case "other-body":
					in2.Body = append(append([]byte(nil), in2.Body...), 9)
					if len(rec.in.Body) == 132 {
						in2.Body = BurnBody(0, Token(1), ref.Pad32(AcctBytes(1)), big.NewInt(5), Structured32(3))
					}
				case "other-recipient":
					in2.Recipient = Structured32(byte(50 + k))
				case "other-caller":
					in2.Caller = ref.Pad32(addrBytes(from2))
				case "other-v-encoding":
					vs = 1
				case "other-submitter":
					from2 = Acct(OtherIx)
				case "after-pause-unpause":
					admin(&ct.MsgPauseSendingAndReceivingMessages{From: Acct(PauserIx)})
					admin(&ct.MsgUnpauseSendingAndReceivingMessages{From: Acct(PauserIx)})
				case "after-attester-rotation":
					// enable a new key, disable an old one (keeps threshold satisfiable)
					var newK, oldK string
					for _, kk := range AttesterPool {
						en := false
						for st := 0; st < 4; st++ {
							if e.M.Attesters[kk.Spell(st)] {
								en = true
								oldK = kk.Spell(st)
							}
						}
						if !en && newK == "" {
							newK = kk.Spell(r.Intn(4))
						}
					}
					if newK != "" {
						admin(&ct.MsgEnableAttester{From: Acct(AMIx), Attester: newK})
						admin(&ct.MsgDisableAttester{From: Acct(AMIx), Attester: oldK})
					}
				case "after-unlink-relink":
					admin(&ct.MsgUnlinkTokenPair{From: Acct(TCIx), RemoteDomain: 0, RemoteToken: Token(0), LocalToken: "uusdc"})
					admin(&ct.MsgLinkTokenPair{From: Acct(TCIx), RemoteDomain: 0, RemoteToken: Token(0), LocalToken: "uusdc"})
				case "after-messenger-remove-readd":
					d := in2.Src
					if addr, ok := e.M.Messengers[d]; ok {
						admin(&ct.MsgRemoveRemoteTokenMessenger{From: Acct(OwnerIx), DomainId: d})
						admin(&ct.MsgAddRemoteTokenMessenger{From: Acct(OwnerIx), DomainId: d, Address: addr})
					}
				case "after-domain-decommission":
					// every token pair of the source domain unlinked, its messenger removed (rotation needs remove + add), both
					// restored: what was received from the domain stays received
					d := in2.Src
					type pk struct {
						t  string
						lt string
					}
					var ps []pk
					for k, lt := range e.M.Pairs {
						if k.Domain == d {
							ps = append(ps, pk{k.Token, lt})
						}
					}
					sort.Slice(ps, func(i, j int) bool { return ps[i].t < ps[j].t })
					for _, p := range ps {
						admin(&ct.MsgUnlinkTokenPair{From: Acct(TCIx), RemoteDomain: d, RemoteToken: []byte(p.t), LocalToken: p.lt})
					}
					addr, had := e.M.Messengers[d]
					if had {
						admin(&ct.MsgRemoveRemoteTokenMessenger{From: Acct(OwnerIx), DomainId: d})
					}
					e.queryUsedNonce(&Tx{Note: "C02 after the domain was decommissioned"}, nonceKey{d, in2.Nonce})
					if had {
						admin(&ct.MsgAddRemoteTokenMessenger{From: Acct(OwnerIx), DomainId: d, Address: addr})
					}
					for _, p := range ps {
						if len(p.t) == 32 {
							admin(&ct.MsgLinkTokenPair{From: Acct(TCIx), RemoteDomain: d, RemoteToken: []byte(p.t), LocalToken: p.lt})
						}
					}
				case "after-admin-churn":
					// every kind of administrative write and its inverse between the receive and its replay
					admin(&ct.MsgUpdateMaxMessageBodySize{From: Acct(OwnerIx), MessageSize: 9000})
					admin(&ct.MsgUpdateMaxMessageBodySize{From: Acct(OwnerIx), MessageSize: 8000})
					admin(&ct.MsgSetMaxBurnAmountPerMessage{From: Acct(TCIx), LocalToken: "uusdc", Amount: mkInt(Max256)})
					admin(&ct.MsgPauseBurningAndMinting{From: Acct(PauserIx)})
					admin(&ct.MsgUnpauseBurningAndMinting{From: Acct(PauserIx)})
					admin(&ct.MsgUpdateSignatureThreshold{From: Acct(AMIx), Amount: e.M.Threshold%2 + 1})
					admin(&ct.MsgLinkTokenPair{From: Acct(TCIx), RemoteDomain: 9, RemoteToken: Token(5), LocalToken: "uusdc"})
					admin(&ct.MsgUnlinkTokenPair{From: Acct(TCIx), RemoteDomain: 9, RemoteToken: Token(5), LocalToken: "uusdc"})
				case "after-restart":
					e.Restart()
				case "after-export-import":
					if _, _, _, err := e.ExportImport(); err != nil {
						rc.Cov.Inconclusive("export/import: " + err.Error())
					}
				case "as-non-module":
					in2.Recipient = Structured32(0x70)
					in2.Body = []byte("x")
				case "as-module":
					in2.Recipient = modulePadded
					in2.Sender = Messenger(in2.Src, 0)
					in2.Body = BurnBody(0, Token(0), ref.Pad32(AcctBytes(2)), big.NewInt(3), Structured32(3))
				}
				rep := exec(mkRx(&in2, from2, vs), "c02 replay "+kind)
				rc.Cov.Cell("C02_replays", kind+"/"+map[bool]string{true: "SECOND-SUCCESS", false: "rejected"}[rep.OK])
				rc.Cov.Assert("C02.replay-rejected")
				rc.Cov.Distinct(fmt.Sprintf("c02|%s|%d|%d|%v", kind, in2.Src, in2.Nonce, rep.OK))
				if rep.OK {
					e.viol([]string{"C02"}, "exactly-once", "C02:second-success:"+kind,
						fmt.Sprintf("a second receive succeeded for (%d,%d) [%s]", in2.Src, in2.Nonce, kind), e.caseOf(&Tx{Msgs: msgs1(mkRx(&in2, from2, vs))}, kind))
				}
			}
			if i%25 == 24 {
				e.FullQueryCheck(nil, []uint64{1, 3, uint64(len(e.M.Used)), uint64(len(e.M.Used) + 1)})
			}
		}
		rc.Cov.Sample(map[string]interface{}{"history_tail": e.history[max(0, len(e.history)-12):], "used_pairs": len(e.M.Used)})
	}
	ProbeHistory(rc, rc.Pick(200, 800), false)
	// plus generic hostile histories (restarts interleaved)
	for h := 0; h < rc.Pick(1, 4); h++ {
		e, err := NewHistoryEngine(rc, GenOpts{Unpaused: true}, false, false)
		if err != nil {
			continue
		}
		g := NewGen(e)
		for i := 0; i < rc.Pick(300, 1500); i++ {
			tx := g.Next()
			g.Learn(tx, e.Exec(tx))
			if i%97 == 96 {
				e.Restart()
			}
		}
	}
}

func max(a, b int) int {
	if a > b {
		return a
	}
	return b
}

func init() {
	Register(&Check{
		ID: "C02", Level: "exploration",
		Rule:   "replay-heavy histories on the real chain: every successful receive is replayed later verbatim, with another validly attested body / recipient / caller / v-encoding / submitter, as module and non-module message, after pause+unpause, attester rotation, unlink/relink, a restart and an export->import; failed receives are followed by the repaired message. Oracles: a second success for a pair is a violation; after every transaction the exported used-nonce set equals genesis ∪ successes; UsedNonce answers found <=> used for every touched pair and 14 confusable twins; store entries written by successful receives are never deleted or rewritten. distinct = (replay kind, domain, nonce, outcome).",
		Shards: func(t string) int { return map[string]int{"quick": 4, "thorough": 16}[t] },
		Run:    runC02,
		Floors: func(c *Cov, tier string) []string {
			var miss []string
			tot := 0
			for _, k := range c02ReplayKinds {
				n := c.Matrix["C02_replays"][k+"/rejected"] + c.Matrix["C02_replays"][k+"/SECOND-SUCCESS"]
				tot += n
				if n < 20 && k != "after-export-import" {
					miss = append(miss, fmt.Sprintf("replay kind %s attempted %d times", k, n))
				}
			}
			if tot < 500 {
				miss = append(miss, fmt.Sprintf("only %d replays", tot))
			}
			if c.Matrix["C02_repaired"]["ok=true"] < 100 {
				miss = append(miss, fmt.Sprintf("repaired-after-failure successes: %d", c.Matrix["C02_repaired"]["ok=true"]))
			}
			if c.Matrix["env_actions"]["restart"] == 0 || c.Matrix["env_actions"]["export-import"] == 0 {
				miss = append(miss, "no restart / export-import crossed")
			}
			return miss
		},
	})
}
