package sim

import (
	"bytes"
	"encoding/hex"
	"fmt"
	"math/big"
	"sort"
	"strings"

	sdk "github.com/cosmos/cosmos-sdk/types"
	"github.com/cosmos/cosmos-sdk/types/query"

	"github.com/circlefin/noble-cctp/x/cctp"
	ct "github.com/circlefin/noble-cctp/x/cctp/types"

	"verif/harness/chain"
)

// exportGenesis runs the module's export; a panic inside it (state that the module's own readers cannot decode any
// more) is caught and handed to the caller through lastExportPanic instead of killing the monitor process.
func exportGenesis(ctx sdk.Context, c *chain.Chain) (gs *ct.GenesisState) {
	defer func() {
		if p := recover(); p != nil {
			c.LastExportPanic = fmt.Sprint(p)
			gs = ct.DefaultGenesis()
		}
	}()
	return cctp.ExportGenesis(ctx, c.Keeper)
}

type stateDiff struct {
	Comp   string
	Detail string
}

var compProps = map[string][]string{
	"owner":            {"C11", "C10", "C15"},
	"pending-owner":    {"C11", "C10", "C15"},
	"attester-manager": {"C11", "C10", "C15"},
	"pauser":           {"C11", "C10", "C15"},
	"token-controller": {"C11", "C10", "C15"},
	"flag-bm":          {"C12", "C15"},
	"flag-sr":          {"C12", "C15"},
	"threshold":        {"C13", "C15", "C19"},
	"attesters":        {"C13", "C19", "C15"},
	"limits":           {"C19", "C15"},
	"pairs":            {"C19", "C15"},
	"messengers":       {"C19", "C15"},
	"used":             {"C02", "C19", "C15", "C03"},
	"next-nonce":       {"C07", "C15", "C19"},
	"max-body":         {"C15", "C19"},
}

func compareStates(m, o *State) []stateDiff {
	var d []stateDiff
	str := func(c, a, b string) {
		if a != b {
			d = append(d, stateDiff{c, fmt.Sprintf("model %q, chain %q", a, b)})
		}
	}
	str("owner", m.Owner, o.Owner)
	if m.HasPending != o.HasPending || m.Pending != o.Pending {
		d = append(d, stateDiff{"pending-owner", fmt.Sprintf("model %q/%v, chain %q/%v", m.Pending, m.HasPending, o.Pending, o.HasPending)})
	}
	str("attester-manager", m.AM, o.AM)
	str("pauser", m.Pauser, o.Pauser)
	str("token-controller", m.TC, o.TC)
	if m.PausedBM != o.PausedBM {
		d = append(d, stateDiff{"flag-bm", fmt.Sprintf("model %v, chain %v", m.PausedBM, o.PausedBM)})
	}
	if m.PausedSR != o.PausedSR {
		d = append(d, stateDiff{"flag-sr", fmt.Sprintf("model %v, chain %v", m.PausedSR, o.PausedSR)})
	}
	if m.Threshold != o.Threshold {
		d = append(d, stateDiff{"threshold", fmt.Sprintf("model %d, chain %d", m.Threshold, o.Threshold)})
	}
	if m.NextNonce != o.NextNonce {
		d = append(d, stateDiff{"next-nonce", fmt.Sprintf("model %d, chain %d", m.NextNonce, o.NextNonce)})
	}
	if m.HasMaxBody != o.HasMaxBody || m.MaxBody != o.MaxBody {
		d = append(d, stateDiff{"max-body", fmt.Sprintf("model %d/%v, chain %d/%v", m.MaxBody, m.HasMaxBody, o.MaxBody, o.HasMaxBody)})
	}
	// sets
	var x []string
	for a := range m.Attesters {
		if !o.Attesters[a] {
			x = append(x, "-"+tail(a))
		}
	}
	for a := range o.Attesters {
		if !m.Attesters[a] {
			x = append(x, "+"+tail(a))
		}
	}
	if len(x) > 0 {
		sort.Strings(x)
		d = append(d, stateDiff{"attesters", strings.Join(x, " ")})
	}
	x = nil
	for k, v := range m.Limits {
		if w, ok := o.Limits[k]; !ok || w.Cmp(v) != 0 {
			x = append(x, fmt.Sprintf("model[%s]=%s chain=%v", k, v, w))
		}
	}
	for k, v := range o.Limits {
		if _, ok := m.Limits[k]; !ok {
			x = append(x, fmt.Sprintf("chain-only[%s]=%s", k, v))
		}
	}
	if len(x) > 0 {
		sort.Strings(x)
		d = append(d, stateDiff{"limits", strings.Join(x, " ")})
	}
	x = nil
	for k, v := range m.Pairs {
		if w, ok := o.Pairs[k]; !ok || w != v {
			x = append(x, fmt.Sprintf("model[%d,%x]=%s chain=%q/%v", k.Domain, k.Token, v, w, ok))
		}
	}
	for k, v := range o.Pairs {
		if _, ok := m.Pairs[k]; !ok {
			x = append(x, fmt.Sprintf("chain-only[%d,%x]=%s", k.Domain, k.Token, v))
		}
	}
	if len(x) > 0 {
		sort.Strings(x)
		d = append(d, stateDiff{"pairs", strings.Join(x, " ")})
	}
	x = nil
	for k, v := range m.Messengers {
		if w, ok := o.Messengers[k]; !ok || !bytes.Equal(w, v) {
			x = append(x, fmt.Sprintf("model[%d]=%x chain=%x/%v", k, v, w, ok))
		}
	}
	for k, v := range o.Messengers {
		if _, ok := m.Messengers[k]; !ok {
			x = append(x, fmt.Sprintf("chain-only[%d]=%x", k, v))
		}
	}
	if len(x) > 0 {
		sort.Strings(x)
		d = append(d, stateDiff{"messengers", strings.Join(x, " ")})
	}
	x = nil
	for k := range m.Used {
		if !o.Used[k] {
			x = append(x, fmt.Sprintf("lost(%d,%d)", k.Domain, k.Nonce))
		}
	}
	for k := range o.Used {
		if !m.Used[k] {
			x = append(x, fmt.Sprintf("spurious(%d,%d)", k.Domain, k.Nonce))
		}
	}
	if len(x) > 0 {
		sort.Strings(x)
		if len(x) > 6 {
			x = x[:6]
		}
		d = append(d, stateDiff{"used", strings.Join(x, " ")})
	}
	return d
}

// afterBlock is the state tap: semantic state vs model, exported-list multiplicities, scalar queries.
func (e *Engine) afterBlock(tx *Tx, rep *Report) {
	rc := e.Rc
	e.C.LastExportPanic = ""
	obs := e.Observe()
	rc.Cov.Assert("state-tap.semantic-compare")
	kind := kindsOf(rep)
	if e.C.LastExportPanic != "" {
		props := []string{"C20", "C17", "C19"}
		for _, ex := range rep.Exp {
			for _, p := range kindFailProps(ex.Kind) {
				props = addProp(props, p)
			}
		}
		e.viol(props, "crash-tap/export-panic", "panic:ExportGenesis:after:"+kind,
			fmt.Sprintf("after %s (success=%v) the genesis export panics - the stored state can no longer be read: %s", kind, rep.OK, trunc(e.C.LastExportPanic, 300)), e.caseOf(tx, ""))
		e.C.LastExportPanic = ""
		return // nothing sensible to compare; the model keeps its view
	}
	for _, df := range compareStates(e.M, obs) {
		props := compProps[df.Comp]
		for _, ex := range rep.Exp {
			if ex.Kind == "ReplaceMessage" || ex.Kind == "ReplaceDepositForBurn" {
				props = addProp(append([]string{}, props...), "C09")
			}
		}
		e.viol(props, "state-tap/semantic", "state-diff:"+kind+":"+df.Comp+":"+map[bool]string{true: "ok", false: "fail"}[rep.OK],
			fmt.Sprintf("after %s (success=%v) the observable %s differs from the documented effect: %s", kind, rep.OK, df.Comp, df.Detail), e.caseOf(tx, ""))
	}
	// a model mismatch would cascade: resynchronise
	obs.Emitted, obs.Minted, obs.Burned, obs.AcceptedBurnMsg = e.M.Emitted, e.M.Minted, e.M.Burned, e.M.AcceptedBurnMsg
	e.M = obs
	if e.LightQueries {
		e.scalarQueries(tx)
		e.touchedQueries(tx, rep)
	}
	// C07: next nonce == start + successes
	rc.Cov.Assert("C07.next-equals-start-plus-successes")
	if e.M.NextNonce != e.Start+e.Producers {
		e.viol([]string{"C07"}, "nonce-sequence", "next-nonce-vs-successes",
			fmt.Sprintf("next available nonce %d != start %d + %d successful producers", e.M.NextNonce, e.Start, e.Producers), e.caseOf(tx, ""))
		e.Producers = e.M.NextNonce - e.Start
	}
	// C13 invariant (only when it held at the start)
	rc.Cov.Assert("C13.invariant")
	n := len(e.M.Attesters)
	if e.M.Threshold < 1 || int(e.M.Threshold) > n {
		if !e.c13Broken {
			e.c13Broken = true
			if e.c13Started {
				e.viol([]string{"C13"}, "threshold-invariant", "invariant-broken:"+kind,
					fmt.Sprintf("after %s: threshold=%d attesters=%d", kind, e.M.Threshold, n), e.caseOf(tx, ""))
			}
		}
	} else {
		e.c13Broken = false
		e.c13Started = true
	}
}

// scalarQueries compares the six state scalars exposed by queries with the model.
func (e *Engine) scalarQueries(tx *Tx) {
	rc := e.Rc
	c := e.C
	m := e.M
	bad := func(props []string, q, detail string) {
		e.viol(props, "query-tap/scalar", "query:"+q, "query "+q+" disagrees with the model: "+detail, e.caseOf(tx, ""))
	}
	var r ct.QueryRolesResponse
	rc.Cov.Assert("query.Roles")
	if err := c.Query("Roles", &ct.QueryRolesRequest{}, &r); err != nil {
		bad([]string{"C19", "C11"}, "Roles", err.Error())
	} else if r.Owner != m.Owner || r.AttesterManager != m.AM || r.Pauser != m.Pauser || r.TokenController != m.TC {
		bad([]string{"C19", "C11"}, "Roles", fmt.Sprintf("%+v vs owner=%s am=%s pauser=%s tc=%s", r, m.Owner, m.AM, m.Pauser, m.TC))
	}
	var bm ct.QueryGetBurningAndMintingPausedResponse
	rc.Cov.Assert("query.BurningAndMintingPaused")
	if err := c.Query("BurningAndMintingPaused", &ct.QueryGetBurningAndMintingPausedRequest{}, &bm); err != nil || bm.Paused.Paused != m.PausedBM {
		bad([]string{"C19", "C12"}, "BurningAndMintingPaused", fmt.Sprintf("%v err=%v vs %v", bm.Paused.Paused, err, m.PausedBM))
	}
	var sr ct.QueryGetSendingAndReceivingMessagesPausedResponse
	rc.Cov.Assert("query.SendingAndReceivingMessagesPaused")
	if err := c.Query("SendingAndReceivingMessagesPaused", &ct.QueryGetSendingAndReceivingMessagesPausedRequest{}, &sr); err != nil || sr.Paused.Paused != m.PausedSR {
		bad([]string{"C19", "C12"}, "SendingAndReceivingMessagesPaused", fmt.Sprintf("%v err=%v vs %v", sr.Paused.Paused, err, m.PausedSR))
	}
	var th ct.QueryGetSignatureThresholdResponse
	rc.Cov.Assert("query.SignatureThreshold")
	if err := c.Query("SignatureThreshold", &ct.QueryGetSignatureThresholdRequest{}, &th); err != nil || th.Amount.Amount != m.Threshold {
		bad([]string{"C19", "C13"}, "SignatureThreshold", fmt.Sprintf("%v err=%v vs %v", th.Amount.Amount, err, m.Threshold))
	}
	var nn ct.QueryGetNextAvailableNonceResponse
	rc.Cov.Assert("query.NextAvailableNonce")
	if err := c.Query("NextAvailableNonce", &ct.QueryGetNextAvailableNonceRequest{}, &nn); err != nil || nn.Nonce.Nonce != m.NextNonce {
		bad([]string{"C19", "C07"}, "NextAvailableNonce", fmt.Sprintf("%v err=%v vs %v", nn.Nonce.Nonce, err, m.NextNonce))
	}
	var mb ct.QueryGetMaxMessageBodySizeResponse
	rc.Cov.Assert("query.MaxMessageBodySize")
	err := c.Query("MaxMessageBodySize", &ct.QueryGetMaxMessageBodySizeRequest{}, &mb)
	if m.HasMaxBody && (err != nil || mb.Amount.Amount != m.MaxBody) {
		bad([]string{"C19"}, "MaxMessageBodySize", fmt.Sprintf("%v err=%v vs %v", mb.Amount.Amount, err, m.MaxBody))
	}
}

// confusableNonces returns the twins a wrong key layout or lookup would confuse with (d, n).
func confusableNonces(d uint32, n uint64) []nonceKey {
	rev := func(x uint64) uint64 {
		var b [8]byte
		for i := 0; i < 8; i++ {
			b[i] = byte(x >> (8 * i))
		}
		var y uint64
		for i := 0; i < 8; i++ {
			y = y<<8 | uint64(b[i])
		}
		return y
	}
	out := []nonceKey{{d, n}, {uint32(n), uint64(d)}, {uint32(n), n}, {d, uint64(d)}, {d, n & 0xffffffff}, {d, rev(n)},
		{d, n + 1}, {d, n - 1}, {d + 1, n}, {d, n << 8}, {d << 8, n}, {0, n}, {d, 0}, {d, n | 1<<32}, {d ^ 1, n}}
	return out
}

// touchedQueries: single-item queries for the keys a transaction named and their confusable twins.
func (e *Engine) touchedQueries(tx *Tx, rep *Report) {
	for _, m := range tx.Msgs {
		switch x := m.(type) {
		case *ct.MsgReceiveMessage:
			if len(x.Message) >= 20 {
				d := uint32(x.Message[4])<<24 | uint32(x.Message[5])<<16 | uint32(x.Message[6])<<8 | uint32(x.Message[7])
				var n uint64
				for _, b := range x.Message[12:20] {
					n = n<<8 | uint64(b)
				}
				for _, k := range confusableNonces(d, n) {
					e.queryUsedNonce(tx, k)
				}
			}
		}
	}
}

func (e *Engine) queryUsedNonce(tx *Tx, k nonceKey) {
	var r ct.QueryGetUsedNonceResponse
	err := e.C.Query("UsedNonce", &ct.QueryGetUsedNonceRequest{SourceDomain: k.Domain, Nonce: k.Nonce}, &r)
	found := err == nil
	e.Rc.Cov.Assert("query.UsedNonce")
	if found != e.M.Used[k] {
		e.viol([]string{"C02", "C19", "C14"}, "query-tap/used-nonce", "query:UsedNonce:"+map[bool]string{true: "spurious", false: "missing"}[found],
			fmt.Sprintf("UsedNonce(%d,%d) found=%v, model used=%v (err=%v)", k.Domain, k.Nonce, found, e.M.Used[k], err), e.caseOf(tx, ""))
	} else if found && (r.Nonce.SourceDomain != k.Domain || r.Nonce.Nonce != k.Nonce) {
		e.viol([]string{"C19"}, "query-tap/used-nonce", "query:UsedNonce:echo", fmt.Sprintf("UsedNonce(%d,%d) returned %+v", k.Domain, k.Nonce, r.Nonce), e.caseOf(tx, ""))
	}
}

// ------------------------------------------------------------------ full registry/query check (C19, C02)

type pageMode struct {
	limit   uint64
	byKey   bool
	reverse bool
}

// walk pages through a list query and returns the concatenated items' identity strings and the reported total.
func walkQuery(c *chain.Chain, method string, pm pageMode, fetch func(req *query.PageRequest) ([]string, *query.PageResponse, error)) (items []string, total uint64, err error) {
	var key []byte
	var offset uint64
	first := true
	for guard := 0; guard < 5000; guard++ {
		req := &query.PageRequest{Limit: pm.limit, Reverse: pm.reverse}
		if pm.byKey {
			req.Key = key
			req.CountTotal = first
		} else {
			req.Offset = offset
			req.CountTotal = true
		}
		page, pr, err := fetch(req)
		if err != nil {
			return nil, 0, err
		}
		items = append(items, page...)
		if pr != nil && (first || !pm.byKey) {
			total = pr.Total
		}
		first = false
		if pm.byKey {
			if pr == nil || len(pr.NextKey) == 0 {
				return items, total, nil
			}
			key = pr.NextKey
		} else {
			if len(page) == 0 || uint64(len(page)) < pm.limit {
				return items, total, nil
			}
			offset += uint64(len(page))
			if pr != nil && offset >= pr.Total {
				return items, total, nil
			}
		}
	}
	return nil, 0, fmt.Errorf("pagination of %s did not terminate", method)
}

func limStr(v *big.Int) string {
	if v == nil {
		return "<nil>"
	}
	return v.String()
}

// FullQueryCheck compares every list and single-item query with the model (C19).
func (e *Engine) FullQueryCheck(tx *Tx, pageSizes []uint64) {
	c, m, rc := e.C, e.M, e.Rc
	if tx == nil {
		tx = &Tx{Note: "full query check"}
	}
	type lister struct {
		name  string
		want  []string
		fetch func(req *query.PageRequest) ([]string, *query.PageResponse, error)
	}
	var wantA, wantL, wantP, wantM, wantU []string
	for a := range m.Attesters {
		wantA = append(wantA, a)
	}
	for d, v := range m.Limits {
		wantL = append(wantL, d+"="+limStr(v))
	}
	for k, v := range m.Pairs {
		wantP = append(wantP, fmt.Sprintf("%d/%x=%s", k.Domain, k.Token, v))
	}
	for d, a := range m.Messengers {
		wantM = append(wantM, fmt.Sprintf("%d=%x", d, a))
	}
	for k := range m.Used {
		wantU = append(wantU, fmt.Sprintf("%d/%d", k.Domain, k.Nonce))
	}
	listers := []lister{
		{"Attesters", wantA, func(req *query.PageRequest) ([]string, *query.PageResponse, error) {
			var r ct.QueryAllAttestersResponse
			if err := c.Query("Attesters", &ct.QueryAllAttestersRequest{Pagination: req}, &r); err != nil {
				return nil, nil, err
			}
			var out []string
			for _, a := range r.Attesters {
				out = append(out, a.Attester)
			}
			return out, r.Pagination, nil
		}},
		{"PerMessageBurnLimits", wantL, func(req *query.PageRequest) ([]string, *query.PageResponse, error) {
			var r ct.QueryAllPerMessageBurnLimitsResponse
			if err := c.Query("PerMessageBurnLimits", &ct.QueryAllPerMessageBurnLimitsRequest{Pagination: req}, &r); err != nil {
				return nil, nil, err
			}
			var out []string
			for _, a := range r.BurnLimits {
				v := new(big.Int)
				if !a.Amount.IsNil() {
					v = a.Amount.BigInt()
				}
				out = append(out, a.Denom+"="+v.String())
			}
			return out, r.Pagination, nil
		}},
		{"TokenPairs", wantP, func(req *query.PageRequest) ([]string, *query.PageResponse, error) {
			var r ct.QueryAllTokenPairsResponse
			if err := c.Query("TokenPairs", &ct.QueryAllTokenPairsRequest{Pagination: req}, &r); err != nil {
				return nil, nil, err
			}
			var out []string
			for _, a := range r.TokenPairs {
				out = append(out, fmt.Sprintf("%d/%x=%s", a.RemoteDomain, a.RemoteToken, a.LocalToken))
			}
			return out, r.Pagination, nil
		}},
		{"RemoteTokenMessengers", wantM, func(req *query.PageRequest) ([]string, *query.PageResponse, error) {
			var r ct.QueryRemoteTokenMessengersResponse
			if err := c.Query("RemoteTokenMessengers", &ct.QueryRemoteTokenMessengersRequest{Pagination: req}, &r); err != nil {
				return nil, nil, err
			}
			var out []string
			for _, a := range r.RemoteTokenMessengers {
				out = append(out, fmt.Sprintf("%d=%x", a.DomainId, a.Address))
			}
			return out, r.Pagination, nil
		}},
		{"UsedNonces", wantU, func(req *query.PageRequest) ([]string, *query.PageResponse, error) {
			var r ct.QueryAllUsedNoncesResponse
			if err := c.Query("UsedNonces", &ct.QueryAllUsedNoncesRequest{Pagination: req}, &r); err != nil {
				return nil, nil, err
			}
			var out []string
			for _, a := range r.UsedNonces {
				out = append(out, fmt.Sprintf("%d/%d", a.SourceDomain, a.Nonce))
			}
			return out, r.Pagination, nil
		}},
	}
	for _, l := range listers {
		sort.Strings(l.want)
		n := uint64(len(l.want))
		sizes := append([]uint64{}, pageSizes...)
		if len(sizes) == 0 {
			sizes = []uint64{1, 2, n, n + 1}
		}
		seen := map[uint64]bool{}
		for _, sz := range sizes {
			if sz == 0 || seen[sz] {
				continue
			}
			seen[sz] = true
			for _, pm := range []pageMode{{sz, true, false}, {sz, false, false}, {sz, true, true}, {sz, false, true}} {
				rc.Cov.Assert("C19.walk." + l.name)
				rc.Cov.Cell("C19_walks", fmt.Sprintf("%s/key=%v/rev=%v", l.name, pm.byKey, pm.reverse))
				rc.Cov.Distinct(fmt.Sprintf("walk|%s|%d|%v|%v|n%d", l.name, sz, pm.byKey, pm.reverse, n))
				got, total, err := walkQuery(c, l.name, pm, l.fetch)
				if err != nil {
					e.viol([]string{"C19"}, "query-tap/walk", "walk-error:"+l.name, fmt.Sprintf("%s page=%d %+v: %v", l.name, sz, pm, err), e.caseOf(tx, ""))
					continue
				}
				g := append([]string{}, got...)
				sort.Strings(g)
				if strings.Join(g, "\n") != strings.Join(l.want, "\n") {
					e.viol([]string{"C19", "C02"}[:1+b2i(l.name == "UsedNonces")], "query-tap/walk", "walk-content:"+l.name,
						fmt.Sprintf("%s paginated (size %d, key=%v, reverse=%v) returned %d items %v, model has %d %v", l.name, sz, pm.byKey, pm.reverse, len(g), clip(g), len(l.want), clip(l.want)), e.caseOf(tx, ""))
				} else if total != n {
					e.viol([]string{"C19"}, "query-tap/walk", "walk-total:"+l.name,
						fmt.Sprintf("%s total=%d, model has %d (size %d key=%v reverse=%v)", l.name, total, n, sz, pm.byKey, pm.reverse), e.caseOf(tx, ""))
				}
			}
		}
	}
	// unusual but valid pagination requests, judged against the key-ordered listing obtained above
	for _, l := range listers {
		n := len(l.want)
		fwd, _, err := walkQuery(c, l.name, pageMode{1000, true, false}, l.fetch)
		if err != nil || len(fwd) != n {
			continue // already reported by the walks above
		}
		rev := make([]string, n)
		for i, x := range fwd {
			rev[n-1-i] = x
		}
		first := func(xs []string, k int) []string {
			if k > len(xs) {
				k = len(xs)
			}
			return xs[:k]
		}
		odd := func(name string, req *query.PageRequest, want []string, wantTotal int) {
			rc.Cov.Assert("C19.odd-pagination." + l.name)
			rc.Cov.Cell("C19_odd_pagination", l.name+"/"+name)
			got, pr, err := l.fetch(req)
			if err != nil {
				e.viol([]string{"C19"}, "query-tap/odd-pagination", "odd-page-error:"+l.name+":"+name, fmt.Sprintf("%s with %s: %v", l.name, name, err), e.caseOf(tx, ""))
				return
			}
			if strings.Join(got, "\n") != strings.Join(want, "\n") {
				e.viol([]string{"C19"}, "query-tap/odd-pagination", "odd-page-content:"+l.name+":"+name,
					fmt.Sprintf("%s with %s returned %d items %v, expected %d %v", l.name, name, len(got), clip(got), len(want), clip(want)), e.caseOf(tx, ""))
			} else if wantTotal >= 0 && (pr == nil || int(pr.Total) != wantTotal) {
				e.viol([]string{"C19"}, "query-tap/odd-pagination", "odd-page-total:"+l.name+":"+name,
					fmt.Sprintf("%s with %s reported total %v, expected %d", l.name, name, pr, wantTotal), e.caseOf(tx, ""))
			}
		}
		odd("no-pagination", nil, first(fwd, 100), -1)
		odd("limit-0", &query.PageRequest{Limit: 0}, first(fwd, 100), -1)
		odd("limit-0-count-total", &query.PageRequest{Limit: 0, CountTotal: true}, first(fwd, 100), n)
		odd("reverse-default-limit", &query.PageRequest{Reverse: true}, first(rev, 100), -1)
		odd("offset-at-end", &query.PageRequest{Offset: uint64(n), Limit: 3, CountTotal: true}, nil, n)
		odd("offset-beyond-end", &query.PageRequest{Offset: uint64(n) + 7, Limit: 3, CountTotal: true}, nil, n)
		odd("offset-last", &query.PageRequest{Offset: uint64(max(n-1, 0)), Limit: 5}, fwd[max(n-1, 0):], -1)
		// (page sizes far above n+1 are outside the property's quantifier: cosmos-sdk's Paginate computes offset+limit in
		// 64 bits, so {offset >= 1, limit near 2^64} returns an empty page on the unchanged tree - not judged here)
		odd("limit-n+1", &query.PageRequest{Limit: uint64(n) + 1}, fwd, -1)
		for _, off := range []int{1, 2, n / 2, n - 1} {
			if off >= 1 && off < n {
				odd(fmt.Sprintf("offset-%s-default-limit", map[bool]string{true: "1", false: "k"}[off == 1]), &query.PageRequest{Offset: uint64(off)}, first(fwd[off:], 100), -1)
				odd("offset-with-limit-n+1", &query.PageRequest{Offset: uint64(off), Limit: uint64(n) + 1}, fwd[off:], -1)
			}
		}
		if n >= 2 {
			// continue from the key that a one-item page hands out, with count_total set as well
			if _, pr, err := l.fetch(&query.PageRequest{Limit: 1}); err == nil && pr != nil && len(pr.NextKey) > 0 {
				odd("key-with-count-total", &query.PageRequest{Key: pr.NextKey, Limit: 1000, CountTotal: true}, fwd[1:], -1)
			}
		}
	}
	// single-item queries over the probe pools
	for _, k := range AttesterPool {
		for st := 0; st < 4; st++ {
			a := k.Spell(st)
			var r ct.QueryGetAttesterResponse
			err := c.Query("Attester", &ct.QueryGetAttesterRequest{Attester: a}, &r)
			rc.Cov.Assert("C19.single.Attester")
			if (err == nil) != m.Attesters[a] || (err == nil && r.Attester.Attester != a) {
				e.viol([]string{"C19"}, "query-tap/single", "single:Attester", fmt.Sprintf("Attester(%s) found=%v model=%v", tail(a), err == nil, m.Attesters[a]), e.caseOf(tx, ""))
			}
		}
	}
	for _, d := range Denoms {
		var r ct.QueryGetPerMessageBurnLimitResponse
		err := c.Query("PerMessageBurnLimit", &ct.QueryGetPerMessageBurnLimitRequest{Denom: d}, &r)
		w, has := m.Limits[d]
		rc.Cov.Assert("C19.single.PerMessageBurnLimit")
		ok := (err == nil) == has
		if ok && has {
			v := new(big.Int)
			if !r.BurnLimit.Amount.IsNil() {
				v = r.BurnLimit.Amount.BigInt()
			}
			ok = v.Cmp(w) == 0 && r.BurnLimit.Denom == d
		}
		if !ok {
			e.viol([]string{"C19"}, "query-tap/single", "single:PerMessageBurnLimit", fmt.Sprintf("PerMessageBurnLimit(%q) err=%v resp=%+v model=%v/%v", d, err, r.BurnLimit, w, has), e.caseOf(tx, ""))
		}
	}
	for _, d := range Domains {
		var r ct.QueryRemoteTokenMessengerResponse
		err := c.Query("RemoteTokenMessenger", &ct.QueryRemoteTokenMessengerRequest{DomainId: d}, &r)
		w, has := m.Messengers[d]
		rc.Cov.Assert("C19.single.RemoteTokenMessenger")
		if (err == nil) != has || (has && (!bytes.Equal(r.RemoteTokenMessenger.Address, w) || r.RemoteTokenMessenger.DomainId != d)) {
			e.viol([]string{"C19"}, "query-tap/single", "single:RemoteTokenMessenger", fmt.Sprintf("RemoteTokenMessenger(%d) err=%v resp=%+v model=%x/%v", d, err, r.RemoteTokenMessenger, w, has), e.caseOf(tx, ""))
		}
		for ti := 0; ti < NTokens; ti++ {
			tok := Token(ti)
			for _, sp := range []string{"0x" + hex.EncodeToString(tok), hex.EncodeToString(tok)} {
				var pr ct.QueryGetTokenPairResponse
				err := c.Query("TokenPair", &ct.QueryGetTokenPairRequest{RemoteDomain: d, RemoteToken: sp}, &pr)
				w, has := m.Pairs[pairKey{d, string(tok)}]
				rc.Cov.Assert("C19.single.TokenPair")
				if (err == nil) != has || (has && (pr.Pair.LocalToken != w || pr.Pair.RemoteDomain != d || !bytes.Equal(pr.Pair.RemoteToken, tok))) {
					e.viol([]string{"C19"}, "query-tap/single", "single:TokenPair", fmt.Sprintf("TokenPair(%d,%s) err=%v resp=%+v model=%q/%v", d, sp, err, pr.Pair, w, has), e.caseOf(tx, ""))
				}
			}
		}
	}
	// domains outside the usual handful; a shorter hex spelling of a registered padded token names that token (the query pads)
	for _, d := range []uint32{6, 7, 8, 9, 10, 11, 12, 13, 15, 16, 17, 31, 32, 33, 63, 64, 127, 128, 255, 256, 65535, 65536, 1 << 31} {
		var r ct.QueryRemoteTokenMessengerResponse
		err := c.Query("RemoteTokenMessenger", &ct.QueryRemoteTokenMessengerRequest{DomainId: d}, &r)
		w, has := m.Messengers[d]
		rc.Cov.Assert("C19.single.RemoteTokenMessenger")
		if (err == nil) != has || (has && (!bytes.Equal(r.RemoteTokenMessenger.Address, w) || r.RemoteTokenMessenger.DomainId != d)) {
			e.viol([]string{"C19"}, "query-tap/single", "single:RemoteTokenMessenger", fmt.Sprintf("RemoteTokenMessenger(%d) err=%v resp=%+v model=%x/%v", d, err, r.RemoteTokenMessenger, w, has), e.caseOf(tx, ""))
		}
	}
	np := 0
	for k := range m.Pairs {
		if len(k.Token) != 32 || !bytes.Equal([]byte(k.Token[:12]), make([]byte, 12)) || np > 6 {
			continue
		}
		np++
		bare := []byte(k.Token[12:])
		var pr ct.QueryGetTokenPairResponse
		err := c.Query("TokenPair", &ct.QueryGetTokenPairRequest{RemoteDomain: k.Domain, RemoteToken: "0x" + hex.EncodeToString(bare)}, &pr)
		// the query left-pads a shorter hex string to 32 bytes (types.RemoteTokenPadded): it names the padded entry
		w, has := m.Pairs[k]
		rc.Cov.Assert("C19.single.TokenPair.bare-spelling")
		if (err == nil) != has || (has && (pr.Pair.LocalToken != w || !bytes.Equal(pr.Pair.RemoteToken, []byte(k.Token)))) {
			e.viol([]string{"C19"}, "query-tap/single", "single:TokenPair:bare-spelling", fmt.Sprintf("TokenPair(%d,0x%x) err=%v resp=%+v model=%q/%v", k.Domain, bare, err, pr.Pair, w, has), e.caseOf(tx, ""))
		}
	}
	// used nonces: every model entry + twins
	n := 0
	for k := range m.Used {
		if n > 40 {
			break
		}
		n++
		for _, t := range confusableNonces(k.Domain, k.Nonce) {
			e.queryUsedNonce(tx, t)
		}
	}
	// constants
	var ld ct.QueryLocalDomainResponse
	if err := c.Query("LocalDomain", &ct.QueryLocalDomainRequest{}, &ld); err != nil || ld.DomainId != 4 {
		e.viol([]string{"C19"}, "query-tap/scalar", "query:LocalDomain", fmt.Sprintf("LocalDomain=%d err=%v", ld.DomainId, err), e.caseOf(tx, ""))
	}
	var bv ct.QueryBurnMessageVersionResponse
	if err := c.Query("BurnMessageVersion", &ct.QueryBurnMessageVersionRequest{}, &bv); err != nil || bv.Version != 0 {
		e.viol([]string{"C19"}, "query-tap/scalar", "query:BurnMessageVersion", fmt.Sprintf("BurnMessageVersion=%d err=%v", bv.Version, err), e.caseOf(tx, ""))
	}
	var lv ct.QueryLocalMessageVersionResponse
	if err := c.Query("LocalMessageVersion", &ct.QueryLocalMessageVersionRequest{}, &lv); err != nil || lv.Version != 0 {
		e.viol([]string{"C19"}, "query-tap/scalar", "query:LocalMessageVersion", fmt.Sprintf("LocalMessageVersion=%d err=%v", lv.Version, err), e.caseOf(tx, ""))
	}
	rc.Cov.AssertN("C19.constants", 3)
}

func b2i(b bool) int {
	if b {
		return 1
	}
	return 0
}

func clip(s []string) []string {
	if len(s) > 8 {
		return append(append([]string{}, s[:8]...), "…")
	}
	return s
}
