package sim

import (
	"fmt"
	"os"
	"testing"

	"verif/harness/chain"
)

var exitCode int

// TestMain dispatches: VERIF_MODE=driver runs Drive(check) (spawning shard children of
// this same binary); VERIF_MODE=shard runs one shard via the ordinary test runner so that
// coverage counters are flushed.
func TestMain(m *testing.M) {
	switch os.Getenv("VERIF_MODE") {
	case "driver":
		os.Exit(Drive(os.Getenv("VERIF_CHECK")))
	case "shard":
		p := os.Getenv("VERIF_PREFIX")
		if p == "" {
			p = "noble"
		}
		chain.SetPrefix(p)
		code := m.Run()
		if code == 0 {
			code = exitCode
		}
		os.Exit(code)
	default:
		chain.SetPrefix("noble")
		os.Exit(m.Run())
	}
}

func TestVerifShard(t *testing.T) {
	if os.Getenv("VERIF_MODE") != "shard" {
		t.Skip("not a shard process")
	}
	exitCode = RunShard(os.Getenv("VERIF_CHECK"))
	if exitCode != 0 {
		fmt.Fprintf(os.Stderr, "shard exit code %d\n", exitCode)
	}
}

// TestVerifExtras prints which sanitizer builds a check's tier needs (used by ./check).
func TestVerifExtras(t *testing.T) {
	if os.Getenv("VERIF_MODE") != "extras" {
		t.Skip()
	}
	ck := registry[os.Getenv("VERIF_CHECK")]
	if ck == nil || ck.Extra == nil {
		return
	}
	for _, ep := range ck.Extra(os.Getenv("VERIF_TIER")) {
		fmt.Printf("EXTRA %s\n", ep.Build)
	}
}
