package sim

import (
	"fmt"

	ct "github.com/circlefin/noble-cctp/x/cctp/types"

	"verif/harness/chain"
)

// RunHistory drives n transactions of hostile history on e with all online monitors.
func RunHistory(e *Engine, g *Gen, n int, fullEvery int) {
	for i := 0; i < n; i++ {
		tx := g.Next()
		if e.Rc.Rand.Intn(40) == 0 && len(g.queue) == 0 {
			// a gas-estimation style dry run of some state-changing request before the real traffic continues
			e.Simulate(g.RollbackProbeFirstOnly())
		}
		rep := e.Exec(tx)
		g.Learn(tx, rep)
		if fullEvery > 0 && (i+1)%fullEvery == 0 {
			e.FullQueryCheck(nil, nil)
		}
	}
}

func init() {
	Register(&Check{
		ID: "HIST", Level: "exploration",
		Rule:   "debug: general hostile history with every online monitor",
		Shards: func(t string) int { return 1 },
		Run: func(rc *RunCtx) {
			for h := 0; h < rc.Pick(6, 40); h++ {
				e, err := NewHistoryEngine(rc, GenOpts{Unpaused: h%2 == 0}, h%3 == 2, h%6 == 5)
				if err != nil {
					rc.Cov.Inconclusive(err.Error())
					continue
				}
				g := NewGen(e)
				g.BigAmts = e.Cfg.Double
				RunHistory(e, g, rc.Pick(400, 2000), 100)
			}
			_ = fmt.Sprint
			_ = ct.ModuleName
		},
	})
}

// ProbeHistory: a short history on the standard chain in which every third transaction is a rollback probe
// (a holder's state change + a reader + a failing message, rolled back) followed by the requests whose outcome
// would differ had the change leaked; the rest is ordinary hostile traffic. Used as a common tail by the
// focused checks so that state kept outside the store (caches, in-place mutated buffers) is exercised under
// every property's monitors.
func ProbeHistory(rc *RunCtx, n int, double bool) {
	e, err := StdEngine(rc, double, false, func(gs *ct.GenesisState, cfg *chain.Config) {
		// domains 3 and 5 start without a token messenger, so that "register in a rolled-back transaction, then
		// deposit there" is exercised as well as "rotate in a rolled-back transaction"
		var tm []ct.RemoteTokenMessenger
		for _, m := range gs.TokenMessengerList {
			if m.DomainId != 3 && m.DomainId != 5 {
				tm = append(tm, m)
			}
		}
		gs.TokenMessengerList = tm
	})
	if err != nil {
		rc.Cov.Inconclusive("probe history: " + err.Error())
		return
	}
	g := NewGen(e)
	g.CycleProbes = true
	for i := 0; i < n; i++ {
		var tx Tx
		if i%3 == 0 && len(g.queue) == 0 {
			if g.probeN%14 == 3 && !e.M.HasPending && (g.probeN/14)%2 == 1 {
				// a pending owner exists before the ownership probe of every other cycle (accept rolled back)
				e.Exec(Tx{Msgs: msgs1(&ct.MsgUpdateOwner{From: e.M.Owner, NewOwner: Acct((AcctIndex(e.M.Owner) + 1 + rc.Rand.Intn(NAccounts-1)) % NAccounts)}), Note: "probe history: name a pending owner"})
			}
			tx = g.RollbackProbe()
			rc.Cov.Cell("rollback_probe_kinds", fmt.Sprintf("kind=%d/same-block=%v", (g.probeN-1)%14, len(tx.Pre) > 0))
		} else {
			tx = g.Next()
		}
		rep := e.Exec(tx)
		g.Learn(tx, rep)
		if i%50 == 49 {
			e.Simulate(g.RollbackProbeFirstOnly())
		}
	}
	rc.Cov.Cell("env_actions", "probe-history")
}
