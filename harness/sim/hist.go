package sim

import (
	"fmt"

	ct "github.com/circlefin/noble-cctp/x/cctp/types"
)

// RunHistory drives n transactions of hostile history on e with all online monitors.
func RunHistory(e *Engine, g *Gen, n int, fullEvery int) {
	for i := 0; i < n; i++ {
		tx := g.Next()
		if e.Rc.Rand.Intn(40) == 0 && len(g.queue) == 0 {
			// a gas-estimation style dry run of some state-changing request before the real traffic continues
			e.Simulate(g.RollbackProbeFirstOnly())
		}
		rep := e.Exec(tx)
		g.Learn(tx, rep)
		if fullEvery > 0 && (i+1)%fullEvery == 0 {
			e.FullQueryCheck(nil, nil)
		}
	}
}

func init() {
	Register(&Check{
		ID: "HIST", Level: "exploration",
		Rule:   "debug: general hostile history with every online monitor",
		Shards: func(t string) int { return 1 },
		Run: func(rc *RunCtx) {
			for h := 0; h < rc.Pick(6, 40); h++ {
				e, err := NewHistoryEngine(rc, GenOpts{Unpaused: h%2 == 0}, h%3 == 2, h%6 == 5)
				if err != nil {
					rc.Cov.Inconclusive(err.Error())
					continue
				}
				g := NewGen(e)
				g.BigAmts = e.Cfg.Double
				RunHistory(e, g, rc.Pick(400, 2000), 100)
			}
			_ = fmt.Sprint
			_ = ct.ModuleName
		},
	})
}

// ProbeHistory: a short history on the standard chain in which every third transaction is a rollback probe
// (a holder's state change + a reader + a failing message, rolled back) followed by the requests whose outcome
// would differ had the change leaked; the rest is ordinary hostile traffic. Used as a common tail by the
// focused checks so that state kept outside the store (caches, in-place mutated buffers) is exercised under
// every property's monitors.
func ProbeHistory(rc *RunCtx, n int, double bool) {
	e, err := StdEngine(rc, double, false, nil)
	if err != nil {
		rc.Cov.Inconclusive("probe history: " + err.Error())
		return
	}
	g := NewGen(e)
	for i := 0; i < n; i++ {
		var tx Tx
		if i%3 == 0 && len(g.queue) == 0 {
			tx = g.RollbackProbe()
		} else {
			tx = g.Next()
		}
		rep := e.Exec(tx)
		g.Learn(tx, rep)
		if i%50 == 49 {
			e.Simulate(g.RollbackProbeFirstOnly())
		}
	}
	rc.Cov.Cell("env_actions", "probe-history")
}
