package sim

import (
	"encoding/binary"
	"testing"

	ct "github.com/circlefin/noble-cctp/x/cctp/types"

	"verif/harness/ref"
)

// Coverage-guided exploration passes (thorough tier, iteration-capped by -fuzztime=Nx).
// The oracles are the same deterministic monitors the checks use; a failing input is
// written by the Go fuzzer to testdata/fuzz and moved to replays/ by ./check.

func fuzzRc() *RunCtx { return &RunCtx{Cov: NewCov(), Rand: newRand(1)} }

func failOn(t *testing.T, rc *RunCtx) {
	if len(rc.Viol) > 0 {
		t.Fatalf("VIOLATION %v %s: %s", rc.Viol[0].Props, rc.Viol[0].Sig, rc.Viol[0].Detail)
	}
}

func FuzzC16Codec(f *testing.F) {
	f.Add(structured(116, 1))
	f.Add(structured(132, 2))
	f.Add(structured(248, 3))
	f.Add([]byte{})
	f.Fuzz(func(t *testing.T, data []byte) {
		rc := fuzzRc()
		c16Message(rc, data, "fuzz")
		c16Burn(rc, data, "fuzz")
		if len(data) >= 132 {
			c16Burn(rc, data[:132], "fuzz")
		}
		c16Token(rc, string(data))
		failOn(t, rc)
	})
}

// FuzzC01Verifier: (message, mutation script) -> attestation built from honest signatures, judged by both oracles.
func FuzzC01Verifier(f *testing.F) {
	f.Add([]byte("msg"), []byte{1, 2, 3, 4, 5, 6, 7, 8})
	f.Add([]byte{}, []byte{0})
	keys := AttesterPool
	f.Fuzz(func(t *testing.T, msg []byte, script []byte) {
		if len(script) < 3 {
			return
		}
		n := 1 + int(script[0])%6
		tt := 1 + int(script[1])%n
		var attesters []ct.Attester
		var pubs [][]byte
		var enabled []*ref.Key
		for i := 0; i < n; i++ {
			k := keys[(int(script[2])+i)%len(keys)]
			enabled = append(enabled, k)
			attesters = append(attesters, ct.Attester{Attester: k.Spell(i + int(script[0]))})
			pubs = append(pubs, k.Pub)
		}
		outsider := keys[(int(script[2])+n)%len(keys)]
		signers := ref.SortByAddr(enabled)[:tt]
		att := ref.HonestAttestation(msg, signers, int(script[1])%3)
		r := newRand(int64(binary.LittleEndian.Uint16(append(script[:2:2], 0, 0)[:2])))
		for i := 3; i+1 < len(script) && i < 11; i += 2 {
			att = MutateBytes(r, AttOps[int(script[i])%len(AttOps)], int(script[i+1]), msg, att, signers, outsider)
		}
		// raw byte edits
		for i := 11; i+2 < len(script) && i < 30 && len(att) > 0; i += 3 {
			att[(int(script[i])<<8|int(script[i+1]))%len(att)] ^= script[i+2]
		}
		rc := fuzzRc()
		c01Judge(rc, msg, att, attesters, pubs, uint32(tt), "fuzz", "fuzz", 0, false)
		failOn(t, rc)
	})
}

// FuzzC20Decoders: panics are the only failure.
func FuzzC20Decoders(f *testing.F) {
	f.Add(structured(116, 9))
	f.Fuzz(func(t *testing.T, data []byte) {
		_, _ = new(ct.Message).Parse(append([]byte(nil), data...))
		_, _ = new(ct.BurnMessage).Parse(append([]byte(nil), data...))
		_, _ = ct.RemoteTokenPadded(string(data))
	})
}
