package sim

import (
	"fmt"
	"math/big"
	"math/bits"

	ct "github.com/circlefin/noble-cctp/x/cctp/types"

	"verif/harness/chain"
	"verif/harness/ref"
)

const c03UsedBase = 5000
const c03UsedN = 64

// c03Engines: one chain per (send/receive paused, burn/mint paused) combination.
func c03Engine(rc *RunCtx, sr, bm bool) (*Engine, error) {
	return StdEngine(rc, false, false, func(gs *ct.GenesisState, cfg *chain.Config) {
		gs.SendingAndReceivingMessagesPaused.Paused = sr
		gs.BurningAndMintingPaused.Paused = bm
		if rc.Shard%2 == 1 {
			// per-message burn limits far below every inbound amount: they bound outbound burns only
			gs.PerMessageBurnLimitList = []ct.PerMessageBurnLimit{{Denom: "uusdc", Amount: sdkInt(50)}, {Denom: "ueure", Amount: sdkInt(0)}}
		}
		for i := 0; i < c03UsedN; i++ {
			for _, d := range []uint32{0, 1, 2} {
				gs.UsedNoncesList = append(gs.UsedNoncesList, ct.Nonce{SourceDomain: d, Nonce: c03UsedBase + uint64(i)})
			}
		}
		// nonces that the sweep will present as fresh for source domains 0..2 are already used for other source domains
		// (the local one, a neighbour, the largest): a pair is (source domain, nonce), nothing else
		base := 100000 + uint64(rc.Shard)*1000000
		for k := uint64(0); k < 400; k++ {
			gs.UsedNoncesList = append(gs.UsedNoncesList, ct.Nonce{SourceDomain: []uint32{4, 3, 0xffffffff, 5}[k%4], Nonce: base + 3*k + k%3})
		}
	})
}

// normaliseMask drops conditions that a falsified earlier condition makes vacuous.
func normaliseMask(mask uint32, module bool) uint32 {
	if !module {
		mask &= A1NotPaused | A2Attestation | A3Header | A4DstDomain | A5Version | A6NonceUnused | A7Caller
	}
	if mask&A3Header != 0 {
		mask &= A1NotPaused | A2Attestation | A3Header
	}
	if mask&B2BodyLen != 0 {
		mask &^= B3BodyVersion | B5Pair
	}
	return mask
}

type c03Case struct {
	mask    uint32
	module  bool
	variant int
	bodyLen int // non-module body length (0 = default)
}

var c03LenPool = []int{116, 117, 247, 248, 249, 616, 1140, 4212, 8116, 8117, 16500, 65652}

// build realises a case on engine e; returns the transaction (with fault plan for B6).
func (cs c03Case) build(e *Engine, fresh *uint64) Tx {
	r := e.Rc.Rand
	v := cs.variant
	from := Acct(UserIx)
	m := &InMsg{Version: 0, Src: uint32(v % 2), Dst: 4, Caller: make([]byte, 32)}
	*fresh++
	m.Nonce = *fresh
	if cs.module {
		m.Sender = Messenger(m.Src, 0)
		m.Recipient = modulePadded
		mintTo := ref.Pad32(AcctBytes((v + 1) % NAccounts))
		if v%8 == 5 { // the module's own account named as mint recipient
			mintTo = modulePadded
		}
		m.Body = BurnBody(0, Token(v%2), mintTo, big.NewInt(int64(100+v)), Structured32(0x21))
	} else {
		m.Sender = Structured32(byte(0x30 + v))
		m.Recipient = Structured32(byte(0x60 + v))
		if v%4 == 3 {
			m.Recipient = NearModuleRecipient(byte(1 + v))
			if v%8 == 7 {
				m.Sender = Messenger(m.Src, 0)
			}
		}
		if v%8 == 2 { // addressed to an address that is registered as a token messenger (of the local or the source domain): still not the module
			m.Recipient = Messenger([]uint32{4, m.Src, 4, 0}[(v/8)%4], 0)
			if (v/8)%2 == 1 {
				m.Sender = Messenger(m.Src, 0)
			}
		}
		if v%8 == 6 {
			m.Recipient = append([]byte(nil), m.Sender...)
		}
		n := cs.bodyLen
		if n == 0 {
			n = []int{0, 5, 132, 300}[v%4]
		}
		m.Body = structured(n, byte(v))
	}
	if v%3 == 1 { // a valid destination caller naming the submitter
		m.Caller = ref.Pad32(addrBytes(from))
	}
	mask := cs.mask
	if mask&A4DstDomain != 0 {
		m.Dst = []uint32{0, 3, 5, 0xffffffff}[v%4]
	}
	if mask&A5Version != 0 {
		m.Version = []uint32{1, 2, 0xffffffff, 0x01000000}[v%4]
	}
	if mask&A6NonceUnused != 0 {
		m.Nonce = c03UsedBase + uint64((v*7+int(mask))%c03UsedN)
	}
	if mask&A7Caller != 0 {
		switch v % 4 {
		case 0:
			m.Caller = ref.Pad32(AcctBytes(OtherIx))
		case 1:
			m.Caller = Structured32(0x5a)
		case 2: // non-zero only in the 12 padding bytes: names the zero address, not the submitter
			m.Caller = make([]byte, 32)
			m.Caller[v%12] = 0x80 | byte(v)
		case 3: // the submitter's address shifted by one byte
			m.Caller = make([]byte, 32)
			copy(m.Caller[11:31], addrBytes(from))
		}
	}
	if cs.module {
		if mask&B3BodyVersion != 0 {
			m.Body[[]int{3, 0, 2, 1}[v%4]] = byte(1 + v%200)
		}
		if mask&B4Messenger != 0 {
			switch v % 5 {
			case 0:
				m.Sender = Messenger(m.Src^1, 0)
			case 1:
				m.Sender = Structured32(0x44)
			case 2: // the registered messenger with the ASCII case bit of one byte flipped
				m.Sender = append([]byte(nil), Messenger(m.Src, 0)...)
				m.Sender[8+v%20] ^= 0x20
			case 3: // ... with a high byte replaced by another high byte
				m.Sender = append([]byte(nil), Messenger(m.Src, 0)...)
				m.Sender[0], m.Sender[1] = 0xff, 0xfe
			case 4: // ... shifted by one byte
				m.Sender = append([]byte{0}, Messenger(m.Src, 0)[:31]...)
			}
		}
		if mask&B5Pair != 0 {
			if v%2 == 0 {
				copy(m.Body[4:36], Token(3))
			} else {
				m.Src = 2 // messenger registered, no pair linked on domain 2
				if mask&B4Messenger == 0 {
					m.Sender = Messenger(2, 0)
				}
			}
		}
		if mask&B2BodyLen != 0 {
			switch v % 4 {
			case 0:
				m.Body = m.Body[:131-(v/4)%3*8]
			case 1: // a zero tail of 1, 7, 8, 9, 24, 40, 72 or 104 bytes (8, 40, 72, 104: the message length is a multiple of 32)
				m.Body = append(m.Body, make([]byte, []int{1, 8, 7, 40, 9, 72, 24, 104}[(v/4)%8])...)
			case 2:
				m.Body = nil
			case 3:
				m.Body = append(m.Body, make([]byte, 8000-132)...)
			}
		}
	}
	raw := m.Bytes()
	if mask&A3Header != 0 {
		raw = raw[:[]int{0, 1, 20, 115}[v%4]]
	}
	att := e.Attest(raw, v%3)
	if mask&A2Attestation != 0 {
		keys := ref.SortByAddr(e.EnabledPoolKeys())[:e.M.Threshold]
		for try := 0; try < 20; try++ {
			op := []string{"sign-other-bytes", "missing-sig", "swap-non-enabled-key", "high-s-twin-appended", "twin-replaces-neighbour", "dup-sig", "truncate", "zero-s"}[(v+try)%8]
			att = MutateAt(r, op, v, raw, keys, AttesterPool[9])
			if ok, _ := e.M.AttOK(raw, att); !ok {
				break
			}
		}
	}
	tx := Tx{Msgs: msgs1(&ct.MsgReceiveMessage{From: from, Message: raw, Attestation: att}), Note: fmt.Sprintf("C03 mask=%013b module=%v variant=%d", cs.mask, cs.module, v)}
	if cs.module && mask&B6Mint != 0 {
		tx.Fault = map[int]chain.FaultKind{0: []chain.FaultKind{chain.FaultCleanErr, chain.FaultErrAfterEffect}[v%2]}
	}
	return tx
}

func maskName(mask uint32) string {
	if mask == 0 {
		return "none"
	}
	s := ""
	for i, n := range CondNames {
		if mask&(1<<uint(i)) != 0 {
			if s != "" {
				s += "+"
			}
			s += n
		}
	}
	return s
}

func runC03(rc *RunCtx) {
	variants := rc.Pick(4, 16)
	var engines [4]*Engine
	var fresh uint64 = 100000 + uint64(rc.Shard)*1000000
	eng := func(mask uint32) *Engine {
		i := 0
		if mask&A1NotPaused != 0 {
			i |= 1
		}
		if mask&B1MintNotPaused != 0 {
			i |= 2
		}
		if engines[i] == nil {
			e, err := c03Engine(rc, i&1 != 0, i&2 != 0)
			if err != nil {
				rc.Cov.Inconclusive("c03 engine: " + err.Error())
				return nil
			}
			e.LightQueries = false
			engines[i] = e
		}
		return engines[i]
	}
	run := func(cs c03Case) {
		e := eng(cs.mask)
		if e == nil {
			return
		}
		tx := cs.build(e, &fresh)
		rep := e.Exec(tx)
		// was the subset really realised? (the model's false-condition vector must equal the intended mask)
		got := uint32(0)
		if len(rep.Exp) == 1 {
			got = rep.Exp[0].Conds
			if tx.Fault != nil {
				got |= B6Mint
			}
		}
		want := cs.mask
		rc.Cov.Assert("C03.acceptance-oracle")
		kind := map[bool]string{true: "module", false: "other"}[cs.module]
		if got&^B6Mint != want&^B6Mint {
			rc.Cov.Cell("C03_unrealised", kind+":"+maskName(want)+"->"+maskName(got))
		}
		rc.Cov.Cell("C03_subsets_"+kind, fmt.Sprintf("%s/%v", maskName(want), map[bool]string{true: "ok", false: "fail"}[rep.OK]))
		rc.Cov.Distinct(fmt.Sprintf("c03|%s|%d|%d|%d|%v", kind, want, cs.variant, cs.bodyLen, rep.OK))
		if rc.Cov.Evaluations%1500 == 7 {
			rc.Cov.Sample(map[string]interface{}{"false_conditions": maskName(want), "recipient": kind, "tx": describeTx(&tx), "succeeded": rep.OK, "model": rep.TxExp.String()})
		}
		if want != 0 && rep.OK {
			// also reported by the engine's outcome oracle; this keeps a C03-specific signature
			e.viol([]string{"C03"}, "acceptance-oracle", "C03:accepted-with-false:"+maskName(want), "receive succeeded with false conditions "+maskName(want), e.caseOf(&tx, ""))
		}
	}
	// exhaustive over (normalised) subsets
	seen := map[string]bool{}
	idx := 0
	for _, module := range []bool{false, true} {
		max := uint32(1) << 13
		if !module {
			max = 1 << 7
		}
		for mask := uint32(0); mask < max; mask++ {
			nm := normaliseMask(mask, module)
			key := fmt.Sprintf("%v/%d", module, nm)
			if seen[key] {
				continue
			}
			seen[key] = true
			idx++
			if idx%rc.NShards != rc.Shard {
				continue
			}
			nv := variants
			if bits.OnesCount32(nm) > 4 && !rc.Thorough() {
				nv = 1
			}
			if bits.OnesCount32(nm) <= 1 {
				nv = rc.Pick(12, 24) // singletons get every field-value variant
			}
			for v := 0; v < nv; v++ {
				run(c03Case{mask: nm, module: module, variant: v + int(mask)})
			}
		}
	}
	rc.Cov.Extra["exhaustive"] = true
	// the converse direction: many all-true receives of both kinds must succeed
	for v := 0; v < rc.Pick(30, 150); v++ {
		run(c03Case{mask: 0, module: v%2 == 0, variant: v*5 + rc.Shard})
	}
	// singletons (and the empty set) at every message length of the pool — non-module recipients
	for li, l := range c03LenPool {
		if li%rc.NShards != rc.Shard {
			continue
		}
		for _, mask := range []uint32{0, A1NotPaused, A2Attestation, A4DstDomain, A5Version, A6NonceUnused, A7Caller} {
			for v := 0; v < rc.Pick(1, 4); v++ {
				run(c03Case{mask: mask, module: false, variant: v, bodyLen: l - 116})
			}
			rc.Cov.Cell("C03_singleton_lengths", fmt.Sprintf("%s@%d", maskName(mask), l))
		}
	}
	c03NearMisses(rc)
	c03DomainSweep(rc)
	c03CallerShapes(rc)
	ProbeHistory(rc, rc.Pick(200, 800), false)
	// hostile history on top
	for h := 0; h < rc.Pick(1, 3); h++ {
		e, err := NewHistoryEngine(rc, GenOpts{}, false, false)
		if err == nil {
			RunHistory(e, NewGen(e), rc.Pick(300, 1500), 0)
		}
	}
}

// sweepDomains: every small domain id and the values around the powers of two.
func sweepDomains() []uint32 {
	var ds []uint32
	for d := uint32(0); d <= 72; d++ {
		ds = append(ds, d)
	}
	for sh := uint(7); sh < 32; sh++ {
		ds = append(ds, 1<<sh-1, 1<<sh, 1<<sh+1)
	}
	return append(ds, 0xfffffffe, 0xffffffff)
}

// c03DomainSweep: all-true receives from every source domain of sweepDomains: a message not addressed to the module
// (needs no registry entry), and for the domains 6..24 - which get a messenger and a token pair in genesis - a
// module-addressed burn message. Acceptance does not depend on which number the source domain is.
func c03DomainSweep(rc *RunCtx) {
	e, err := StdEngine(rc, false, false, func(gs *ct.GenesisState, cfg *chain.Config) {
		for d := uint32(6); d <= 24; d++ {
			gs.TokenMessengerList = append(gs.TokenMessengerList, ct.RemoteTokenMessenger{DomainId: d, Address: Messenger(d, 0)})
			gs.TokenPairList = append(gs.TokenPairList, ct.TokenPair{RemoteDomain: d, RemoteToken: Token(0), LocalToken: "uusdc"})
		}
	})
	if err != nil {
		rc.Cov.Inconclusive("c03 domain sweep engine: " + err.Error())
		return
	}
	nonce := uint64(6_600_000)
	for i, d := range sweepDomains() {
		if i%rc.NShards != rc.Shard {
			continue
		}
		nonce++
		in := &InMsg{Version: 0, Src: d, Dst: 4, Nonce: nonce, Sender: Structured32(byte(d)), Recipient: Structured32(0x70), Caller: make([]byte, 32), Body: []byte("from anywhere")}
		raw := in.Bytes()
		r := e.Exec(Tx{Msgs: msgs1(&ct.MsgReceiveMessage{From: Acct(UserIx), Message: raw, Attestation: e.Attest(raw, i%3)}), Note: fmt.Sprintf("C03 domain sweep: plain message from source domain %d", d)})
		rc.Cov.Cell("C03_domain_sweep", "plain/"+okWord(r.OK))
		if d >= 6 && d <= 24 {
			nonce++
			m := StdInbound(nonce, 1, big.NewInt(int64(10+d)))
			m.Src, m.Sender = d, Messenger(d, 0)
			raw := m.Bytes()
			r := e.Exec(Tx{Msgs: msgs1(&ct.MsgReceiveMessage{From: Acct(UserIx), Message: raw, Attestation: e.Attest(raw, i%3)}), Note: fmt.Sprintf("C03 domain sweep: burn message from source domain %d", d)})
			rc.Cov.Cell("C03_domain_sweep", "module/"+okWord(r.OK))
		}
	}
}

// c03NearMisses: a valid module-addressed message naming the submitter as destination caller, with one 32-byte word
// (destination caller, sender = token messenger, burn token, recipient) replaced by a word that differs from the right
// one in two bytes changed alike (xor 0x01 / 0xff), in a compensating +1/-1 pair, or in two bytes exchanged, at byte
// distances 1, 2, 4, 8, 12, 16, 20, 24. Equality of words is equality of every byte; the model judges each case, the
// unmodified message must be received before and after.
func c03NearMisses(rc *RunCtx) {
	e, err := c03Engine(rc, false, false)
	if err != nil {
		rc.Cov.Inconclusive("c03 near-miss engine: " + err.Error())
		return
	}
	from := Acct(UserIx)
	nonce := uint64(7_700_000 + rc.Shard*100000)
	mk := func() *InMsg {
		nonce++
		in := StdInbound(nonce, 1, big.NewInt(11))
		in.Caller = ref.Pad32(addrBytes(from))
		return in
	}
	control := func(phase string) {
		raw := mk().Bytes()
		r := e.Exec(Tx{Msgs: msgs1(&ct.MsgReceiveMessage{From: from, Message: raw, Attestation: e.Attest(raw, 0)}), Note: "C03 near misses: the unmodified message (" + phase + ")"})
		rc.Cov.Cell("C03_near_misses", "control/"+phase+"/"+okWord(r.OK))
	}
	control("before")
	idx := 0
	for _, site := range []string{"caller", "messenger", "burn-token", "recipient"} {
		for _, d := range []int{1, 2, 4, 8, 12, 16, 20, 24} {
			for i := 0; i+d < 32; i++ {
				j := i + d
				for kind := 0; kind < 4; kind++ {
					idx++
					if idx%rc.NShards != rc.Shard {
						continue
					}
					in := mk()
					var w []byte
					switch site {
					case "caller":
						w = in.Caller
					case "messenger":
						w = in.Sender
					case "burn-token":
						w = in.Body[4:36]
					default:
						w = in.Recipient
					}
					w2 := append([]byte(nil), w...)
					name := ""
					switch kind {
					case 0:
						w2[i], w2[j], name = w2[i]^0x01, w2[j]^0x01, "xor-01-pair"
					case 1:
						w2[i], w2[j], name = w2[i]^0xff, w2[j]^0xff, "xor-ff-pair"
					case 2:
						w2[i], w2[j], name = w2[i]+1, w2[j]-1, "plus-minus-pair"
					default:
						w2[i], w2[j], name = w2[j], w2[i], "exchanged-pair"
					}
					if string(w2) == string(w) {
						continue
					}
					switch site {
					case "caller":
						in.Caller = w2
					case "messenger":
						in.Sender = w2
					case "burn-token":
						in.Body = append([]byte(nil), in.Body...)
						copy(in.Body[4:36], w2)
					default:
						in.Recipient = w2
					}
					raw := in.Bytes()
					r := e.Exec(Tx{Msgs: msgs1(&ct.MsgReceiveMessage{From: from, Message: raw, Attestation: e.Attest(raw, idx%3)}),
						Note: fmt.Sprintf("C03 near misses: %s differs from the right word in bytes %d and %d (%s)", site, i, j, name)})
					rc.Cov.Cell("C03_near_misses", fmt.Sprintf("%s/%s/distance-%d/%s", site, name, d, okWord(r.OK)))
				}
			}
		}
	}
	control("after")
}

func init() {
	Register(&Check{
		ID: "C03", Level: "exploration",
		Rule:   "every realisable subset of the 13 acceptance conditions (7 for non-module recipients) made false, each realised with several field values, executed as receive transactions on the real chain (4 chains: flag combinations; mint failure by fault injection) and judged by the reference acceptance oracle (success iff the subset is empty) and by failed=>(no mint, no nonce, no state change, no events); every singleton additionally at every message length of a pool up to 65 652 bytes; plus hostile random histories. distinct = (recipient class, subset, variant, length, outcome).",
		Shards: func(t string) int { return map[string]int{"quick": 4, "thorough": 16}[t] },
		Prefix: func(string, int) string { return "noble" },
		Run:    runC03,
		Floors: func(c *Cov, tier string) []string {
			var miss []string
			if len(c.Matrix["C03_subsets_module"]) < 500 || len(c.Matrix["C03_subsets_other"]) < 30 {
				miss = append(miss, fmt.Sprintf("subsets executed: module %d, other %d", len(c.Matrix["C03_subsets_module"]), len(c.Matrix["C03_subsets_other"])))
			}
			if c.Matrix["C03_near_misses"]["control/after/succeeded"] == 0 || len(c.Matrix["C03_near_misses"]) < 100 {
				miss = append(miss, fmt.Sprintf("near-miss words: %d cells, control %d", len(c.Matrix["C03_near_misses"]), c.Matrix["C03_near_misses"]["control/after/succeeded"]))
			}
			if c.Matrix["C03_caller_shapes"]["burn/named/succeeded"] < 20 || c.Matrix["C03_caller_shapes"]["plain/named/succeeded"] < 20 || c.Matrix["C03_caller_shapes"]["plain/other/failed"] < 20 {
				miss = append(miss, fmt.Sprintf("caller shapes: %v", c.Matrix["C03_caller_shapes"]))
			}
			if c.Matrix["C03_subsets_module"]["none/ok"] == 0 || c.Matrix["C03_subsets_other"]["none/ok"] == 0 {
				miss = append(miss, "the empty subset (everything true) never succeeded")
			}
			if len(c.Matrix["C03_singleton_lengths"]) < 7*len(c03LenPool) {
				miss = append(miss, "singleton x length pool incomplete")
			}
			if n := len(c.Matrix["C03_unrealised"]); n > 0 {
				miss = append(miss, fmt.Sprintf("%d subsets were not realised as intended: %v", n, firstKeys(c.Matrix["C03_unrealised"], 5)))
			}
			return miss
		},
		Assumptions: []string{"destination caller with non-zero high 12 bytes naming the submitter, and non-canonically spelled submitters, are outside the statement (don't care)"},
	})
}

func firstKeys(m map[string]int, n int) []string {
	var out []string
	for k := range m {
		out = append(out, k)
		if len(out) >= n {
			break
		}
	}
	return out
}

// ShapedAddrs: 20-byte account addresses with remarkable byte patterns - leading zero bytes (about one account in 256 has
// one), trailing zero bytes, a single non-zero byte at either end, bytes that are separators or text markers elsewhere
// ('/', '0', 'x', ',', ' '), all 0xff. An address is 20 opaque bytes; a 32-byte word names it iff its low 20 bytes equal it
// and its high 12 bytes are zero.
func ShapedAddrs() [][]byte {
	st := func(n int, tail ...byte) []byte { // n leading zero bytes, then structured non-zero bytes, then tail
		b := make([]byte, 20)
		for j := n; j < 20; j++ {
			b[j] = byte(0x41 + j)
		}
		copy(b[20-len(tail):], tail)
		return b
	}
	one := func(i int, v byte) []byte { b := make([]byte, 20); b[i] = v; return b }
	txt := func(lead string) []byte { b := st(0); copy(b, lead); return b }
	return [][]byte{st(1), st(2), st(3), st(8), st(11), st(12), st(19), st(0, 0), st(0, 0, 0), st(1, 0), st(0, 0, 0, 0, 0, 0, 0, 0, 0),
		one(0, 1), one(19, 1), one(0, 0x80), one(10, 0xff), bytesOf(0xff, 20), txt("0x"), txt("0X"), txt("/"), txt("//"), txt(" "), txt(","), txt("\x00/")}
}

// c03CallerShapes: for every shaped address A, a plain message and a burn message (minting to A) that name A as destination
// caller are received when A submits them and refused when somebody else does; the model judges every case.
func c03CallerShapes(rc *RunCtx) {
	e, err := c03Engine(rc, false, false)
	if err != nil {
		rc.Cov.Inconclusive("c03 caller shapes engine: " + err.Error())
		return
	}
	nonce := uint64(8_800_000 + rc.Shard*100000)
	for i, a := range ShapedAddrs() {
		if i%rc.NShards != rc.Shard {
			continue
		}
		who := Bech(a)
		for _, module := range []bool{false, true} {
			for _, by := range []string{Acct(OtherIx), who} {
				nonce++
				in := &InMsg{Version: 0, Src: 0, Dst: 4, Nonce: nonce, Sender: Structured32(0x31), Recipient: Structured32(0x61), Caller: ref.Pad32(a), Body: []byte("for a designated relayer")}
				if module {
					in = StdInbound(nonce, 1, big.NewInt(int64(20+i)))
					in.Caller = ref.Pad32(a)
					in.Body = BurnBody(0, Token(0), ref.Pad32(a), big.NewInt(int64(20+i)), Structured32(0x33))
				}
				raw := in.Bytes()
				r := e.Exec(Tx{Msgs: msgs1(&ct.MsgReceiveMessage{From: by, Message: raw, Attestation: e.Attest(raw, i%3)}),
					Note: fmt.Sprintf("C03 caller shapes: destination caller %x, module=%v, submitted by %s", a, module, map[bool]string{true: "that account", false: "somebody else"}[by == who])})
				rc.Cov.Cell("C03_caller_shapes", fmt.Sprintf("%s/%s/%s", map[bool]string{true: "burn", false: "plain"}[module], map[bool]string{true: "named", false: "other"}[by == who], okWord(r.OK)))
			}
		}
	}
}
