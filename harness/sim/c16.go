package sim

import (
	"bytes"
	_ "embed"
	"encoding/base64"
	"encoding/hex"
	"encoding/json"
	"fmt"
	"math/big"
	"strings"

	sdkmath "cosmossdk.io/math"

	ct "github.com/circlefin/noble-cctp/x/cctp/types"

	"verif/harness/ref"
)

//go:embed golden_vectors.json
var goldenJSON []byte

type golden struct {
	Kind      string `json:"kind"`
	Version   uint32 `json:"version"`
	Src       uint32 `json:"src"`
	Dst       uint32 `json:"dst"`
	Nonce     uint64 `json:"nonce"`
	Sender    string `json:"sender"`
	Recipient string `json:"recipient"`
	Caller    string `json:"caller"`
	Body      string `json:"body"`
	Token     string `json:"token"`
	Amount    string `json:"amount"`
	Bytes     string `json:"bytes"`
}

func unhex(s string) []byte {
	b, err := hex.DecodeString(s)
	if err != nil {
		panic(err)
	}
	return b
}

func c16Viol(rc *RunCtx, sig, detail string, cs interface{}) {
	rc.Report(Violation{Props: []string{"C16"}, Monitor: "codec-differential", Sig: "C16:" + sig, Detail: detail, Case: cs})
}

// guard runs f under recover; a panic is a C20 (and C16) violation.
func guard(rc *RunCtx, what string, input []byte, f func()) {
	defer func() {
		if p := recover(); p != nil {
			rc.Report(Violation{Props: []string{"C20", "C16"}, Monitor: "crash-tap/recover", Sig: "panic:" + what,
				Detail: fmt.Sprintf("%s panicked: %v", what, p), Case: map[string]string{"input": hex.EncodeToString(input)}})
		}
	}()
	f()
}

// c16Message: differential check of Message.Parse / Bytes on one byte string.
func c16Message(rc *RunCtx, bz []byte, class string) {
	rc.Cov.Evaluations++
	in := append([]byte(nil), bz...)
	var got *ct.Message
	var err error
	guard(rc, "Message.Parse", bz, func() { got, err = new(ct.Message).Parse(in) })
	want, werr := ref.DecodeMessage(bz)
	rc.Cov.Assert("C16.message.parse-agreement")
	rc.Cov.Distinct(fmt.Sprintf("M|%d|%s|%v", len(bz), class, werr == nil))
	rc.Cov.Cell("C16_msg_len", lenClass(len(bz)))
	if (err == nil) != (werr == nil) {
		c16Viol(rc, "message-parse-accept:"+lenClass(len(bz)), fmt.Sprintf("Parse of %d bytes: module err=%v, reference err=%v", len(bz), err, werr), hex.EncodeToString(bz))
		return
	}
	if werr != nil {
		return
	}
	f := ""
	switch {
	case got.Version != want.Version:
		f = "version"
	case got.SourceDomain != want.SrcDomain:
		f = "source-domain"
	case got.DestinationDomain != want.DstDomain:
		f = "destination-domain"
	case got.Nonce != want.Nonce:
		f = "nonce"
	case !bytes.Equal(got.Sender, want.Sender):
		f = "sender"
	case !bytes.Equal(got.Recipient, want.Recipient):
		f = "recipient"
	case !bytes.Equal(got.DestinationCaller, want.Caller):
		f = "destination-caller"
	case !bytes.Equal(got.MessageBody, want.Body):
		f = "body"
	}
	if f != "" {
		c16Viol(rc, "message-parse-field:"+f, fmt.Sprintf("Parse disagrees with the CCTP layout in field %s: module %+v", f, got), hex.EncodeToString(bz))
		return
	}
	var back []byte
	guard(rc, "Message.Bytes", bz, func() { back, err = got.Bytes() })
	rc.Cov.Assert("C16.message.roundtrip")
	if err != nil || !bytes.Equal(back, bz) {
		c16Viol(rc, "message-roundtrip", fmt.Sprintf("decode then encode is not the identity (err=%v): %x", err, back), hex.EncodeToString(bz))
	}
	// decoding into a value that already holds another message must overwrite every field
	dirty := &ct.Message{Version: 7, SourceDomain: 8, DestinationDomain: 9, Nonce: 10, Sender: structured(32, 0xe1), Recipient: structured(32, 0xe2),
		DestinationCaller: structured(32, 0xe3), MessageBody: structured(40, 0xe4)}
	var got2 *ct.Message
	guard(rc, "Message.Parse", bz, func() { got2, err = dirty.Parse(append([]byte(nil), bz...)) })
	rc.Cov.Assert("C16.message.reused-receiver")
	if err == nil && got2 != nil {
		var back2 []byte
		guard(rc, "Message.Bytes", bz, func() { back2, err = got2.Bytes() })
		if err != nil || !bytes.Equal(back2, bz) {
			c16Viol(rc, "message-roundtrip-reused-receiver", fmt.Sprintf("decoding into a value that held another message, then encoding, is not the identity (err=%v): %x", err, back2), hex.EncodeToString(bz))
		}
	} else if err == nil {
		c16Viol(rc, "message-roundtrip-reused-receiver", "Parse returned nil, nil", hex.EncodeToString(bz))
	}
}

func lenClass(n int) string {
	switch {
	case n <= 400:
		return fmt.Sprint(n)
	default:
		return fmt.Sprintf("%d", n)
	}
}

func c16Burn(rc *RunCtx, bz []byte, class string) {
	rc.Cov.Evaluations++
	in := append([]byte(nil), bz...)
	var got *ct.BurnMessage
	var err error
	guard(rc, "BurnMessage.Parse", bz, func() { got, err = new(ct.BurnMessage).Parse(in) })
	want, werr := ref.DecodeBurn(bz)
	rc.Cov.Assert("C16.burn.parse-agreement")
	rc.Cov.Distinct(fmt.Sprintf("B|%d|%s|%v", len(bz), class, werr == nil))
	rc.Cov.Cell("C16_burn_len", lenClass(len(bz)))
	if (err == nil) != (werr == nil) {
		c16Viol(rc, "burn-parse-accept:"+map[bool]string{true: "short", false: "long"}[len(bz) < 132], fmt.Sprintf("BurnMessage.Parse of %d bytes: module err=%v, reference err=%v", len(bz), err, werr), hex.EncodeToString(bz))
		return
	}
	if werr != nil {
		return
	}
	f := ""
	switch {
	case got.Version != want.Version:
		f = "version"
	case !bytes.Equal(got.BurnToken, want.BurnToken):
		f = "burn-token"
	case !bytes.Equal(got.MintRecipient, want.MintRecipient):
		f = "mint-recipient"
	case got.Amount.IsNil() || got.Amount.BigInt().Cmp(want.Amount) != 0:
		f = "amount"
	case !bytes.Equal(got.MessageSender, want.Sender):
		f = "message-sender"
	}
	if f != "" {
		c16Viol(rc, "burn-parse-field:"+f, fmt.Sprintf("BurnMessage.Parse disagrees with the CCTP layout in field %s", f), hex.EncodeToString(bz))
		return
	}
	var back []byte
	guard(rc, "BurnMessage.Bytes", bz, func() { back, err = got.Bytes() })
	rc.Cov.Assert("C16.burn.roundtrip")
	if err != nil || !bytes.Equal(back, bz) {
		c16Viol(rc, "burn-roundtrip", fmt.Sprintf("decode then encode is not the identity (err=%v): %x", err, back), hex.EncodeToString(bz))
	}
	dirty := &ct.BurnMessage{Version: 9, BurnToken: structured(32, 0xd1), MintRecipient: structured(32, 0xd2), Amount: sdkmath.NewInt(77), MessageSender: structured(32, 0xd3)}
	var got2 *ct.BurnMessage
	guard(rc, "BurnMessage.Parse", bz, func() { got2, err = dirty.Parse(append([]byte(nil), bz...)) })
	rc.Cov.Assert("C16.burn.reused-receiver")
	if err == nil && got2 != nil {
		var back2 []byte
		guard(rc, "BurnMessage.Bytes", bz, func() { back2, err = got2.Bytes() })
		if err != nil || !bytes.Equal(back2, bz) {
			c16Viol(rc, "burn-roundtrip-reused-receiver", fmt.Sprintf("decoding into a value that held another burn message, then encoding, is not the identity (err=%v): %x", err, back2), hex.EncodeToString(bz))
		}
	}
}

// c16EncodeMessage: encode a value with both codecs; then decode.
func c16EncodeMessage(rc *RunCtx, m *ref.Message, class string) {
	rc.Cov.Evaluations++
	mm := &ct.Message{Version: m.Version, SourceDomain: m.SrcDomain, DestinationDomain: m.DstDomain, Nonce: m.Nonce,
		Sender: m.Sender, Recipient: m.Recipient, DestinationCaller: m.Caller, MessageBody: m.Body}
	var got []byte
	var err error
	guard(rc, "Message.Bytes", nil, func() { got, err = mm.Bytes() })
	want, werr := ref.EncodeMessage(m)
	rc.Cov.Assert("C16.message.encode-agreement")
	rc.Cov.Distinct(fmt.Sprintf("ME|%s|%d|%d|%d|%d", class, len(m.Sender), len(m.Recipient), len(m.Caller), len(m.Body)))
	cs := fmt.Sprintf("%+v", *m)
	if (err == nil) != (werr == nil) {
		c16Viol(rc, "message-encode-accept:"+class, fmt.Sprintf("Bytes(): module err=%v, reference err=%v", err, werr), cs)
		return
	}
	if werr != nil {
		return
	}
	if !bytes.Equal(got, want) {
		c16Viol(rc, "message-encode-bytes", fmt.Sprintf("encoding differs from the CCTP layout: module %x, reference %x", got, want), cs)
		return
	}
	c16Message(rc, got, "reencoded")
}

func c16EncodeBurn(rc *RunCtx, m *ref.BurnMessage, class string) {
	rc.Cov.Evaluations++
	bm := &ct.BurnMessage{Version: m.Version, BurnToken: m.BurnToken, MintRecipient: m.MintRecipient, Amount: sdkmath.NewIntFromBigInt(m.Amount), MessageSender: m.Sender}
	var got []byte
	var err error
	guard(rc, "BurnMessage.Bytes", nil, func() { got, err = bm.Bytes() })
	want, werr := ref.EncodeBurn(m)
	rc.Cov.Assert("C16.burn.encode-agreement")
	rc.Cov.Distinct(fmt.Sprintf("BE|%s|%d|%d|%d|%s", class, len(m.BurnToken), len(m.MintRecipient), len(m.Sender), amountClass(m.Amount)))
	cs := fmt.Sprintf("%+v", *m)
	if (err == nil) != (werr == nil) {
		c16Viol(rc, "burn-encode-accept:"+class, fmt.Sprintf("BurnMessage.Bytes(): module err=%v, reference err=%v", err, werr), cs)
		return
	}
	if werr != nil {
		return
	}
	if !bytes.Equal(got, want) {
		c16Viol(rc, "burn-encode-bytes", fmt.Sprintf("burn encoding differs from the CCTP layout: module %x, reference %x", got, want), cs)
		return
	}
	c16Burn(rc, got, "reencoded")
}

// refRemoteTokenPadded: optional single "0x" prefix, hex digits, at most 32 bytes, left-padded.
func refRemoteTokenPadded(s string) ([]byte, bool) {
	s = strings.TrimPrefix(s, "0x")
	b, err := hex.DecodeString(s)
	if err != nil || len(b) > 32 {
		return nil, false
	}
	return ref.Pad32(b), true
}

func c16Token(rc *RunCtx, s string) {
	rc.Cov.Evaluations++
	var got []byte
	var err error
	guard(rc, "RemoteTokenPadded", []byte(s), func() { got, err = ct.RemoteTokenPadded(s) })
	want, ok := refRemoteTokenPadded(s)
	rc.Cov.Assert("C16.remote-token-padded")
	rc.Cov.Distinct("T|" + fmt.Sprint(len(s), ok, strings.HasPrefix(s, "0x")))
	if (err == nil) != ok || (ok && !bytes.Equal(got, want)) {
		c16Viol(rc, "remote-token-padded", fmt.Sprintf("RemoteTokenPadded(%q) = %x, %v; reference %x, %v", s, got, err, want, ok), s)
	}
}

func structured(n int, seed byte) []byte {
	b := make([]byte, n)
	for i := range b {
		b[i] = byte(i)*7 + seed + byte(i>>8)
	}
	return b
}

func runC16(rc *RunCtx) {
	r := rc.Rand
	// golden vectors
	var gv []golden
	if err := json.Unmarshal(goldenJSON, &gv); err != nil {
		rc.Cov.Inconclusive("golden vectors: " + err.Error())
		return
	}
	for _, g := range gv {
		raw := unhex(g.Bytes)
		rc.Cov.Assert("C16.golden")
		if g.Kind == "message" {
			m := &ref.Message{Version: g.Version, SrcDomain: g.Src, DstDomain: g.Dst, Nonce: g.Nonce, Sender: unhex(g.Sender), Recipient: unhex(g.Recipient), Caller: unhex(g.Caller), Body: unhex(g.Body)}
			mm := &ct.Message{Version: m.Version, SourceDomain: m.SrcDomain, DestinationDomain: m.DstDomain, Nonce: m.Nonce, Sender: m.Sender, Recipient: m.Recipient, DestinationCaller: m.Caller, MessageBody: m.Body}
			got, err := mm.Bytes()
			if err != nil || !bytes.Equal(got, raw) {
				c16Viol(rc, "golden-message-encode", fmt.Sprintf("golden vector: Bytes()=%x err=%v, want %x", got, err, raw), g)
			}
			c16Message(rc, raw, "golden")
		} else {
			amt, _ := new(big.Int).SetString(g.Amount, 10)
			bm := &ct.BurnMessage{Version: g.Version, BurnToken: unhex(g.Token), MintRecipient: unhex(g.Recipient), Amount: sdkmath.NewIntFromBigInt(amt), MessageSender: unhex(g.Sender)}
			got, err := bm.Bytes()
			if err != nil || !bytes.Equal(got, raw) {
				c16Viol(rc, "golden-burn-encode", fmt.Sprintf("golden vector: Bytes()=%x err=%v, want %x", got, err, raw), g)
			}
			c16Burn(rc, raw, "golden")
			p, err := new(ct.BurnMessage).Parse(raw)
			if err != nil || p.Amount.BigInt().Cmp(amt) != 0 || p.Version != g.Version {
				c16Viol(rc, "golden-burn-parse", "golden vector parse mismatch", g)
			}
		}
	}
	rc.Cov.Extra["golden_vectors"] = float64(len(gv))
	// every length 0..400 and around 8000, structured + random contents
	lens := []int{}
	for l := 0; l <= 400; l++ {
		lens = append(lens, l)
	}
	lens = append(lens, 7998, 7999, 8000, 8001, 8002, 8116, 8117, 65652)
	reps := rc.Pick(30, 200)
	for _, l := range lens {
		if (l+rc.Shard)%rc.NShards != 0 && l > 200 && l <= 400 {
			continue
		}
		for k := 0; k < reps; k++ {
			var bz []byte
			class := "structured"
			if k%2 == 0 {
				bz = structured(l, byte(k*13+1))
			} else {
				class = "random"
				bz = make([]byte, l)
				r.Read(bz)
			}
			c16Message(rc, bz, class)
			if l <= 400 {
				c16Burn(rc, bz, class)
			}
			// the same bytes behind a small version word (formats that switch on the version must still be exact)
			if l >= 4 && k%3 == 0 {
				vb := append([]byte(nil), bz...)
				copy(vb[0:4], [][]byte{{0, 0, 0, 0}, {0, 0, 0, 1}, {0, 0, 0, 2}, {1, 0, 0, 0}, {0, 0, 0, 3}, {0xff, 0xff, 0xff, 0xff}}[(k/3)%6])
				c16Message(rc, vb, "version-prefixed")
				c16Burn(rc, vb, "version-prefixed")
			}
		}
	}
	// inputs over restricted alphabets: a message is an opaque byte string, so bytes that happen to read as text - hex digits
	// with or without "0x", base64, decimal digits, JSON, blanks - are wire bytes like any others, at every length (a decoder
	// that sniffs the content and re-interprets a textual form would misparse or refuse them)
	alphabets := []struct{ name, lead, set string }{
		{"hex-lower", "", "0123456789abcdef"}, {"hex-upper", "", "0123456789ABCDEF"}, {"0x-hex", "0x", "0123456789abcdef"}, {"0X-HEX", "0X", "0123456789ABCDEF"},
		{"0x-hex-mixed", "0x", "0123456789abcdefABCDEF"}, {"base64", "", "ABCDEFGHIJKLMNOPQRSTUVWXYZabcdefghijklmnopqrstuvwxyz0123456789+/"}, {"base64url-padded", "", "ABCDwxyz0189-_="},
		{"decimal", "", "0123456789"}, {"json-string", "\"0x", "0123456789abcdef"}, {"json-object", "{\"message\":\"", "0123456789abcdef\""}, {"blank", "", " \t\n"}, {"zeros-text", "", "0"},
	}
	for _, l := range []int{0, 1, 2, 3, 4, 64, 115, 116, 117, 118, 130, 131, 132, 133, 134, 200, 232, 233, 234, 235, 248, 249, 250, 258, 264, 266, 300, 400, 498, 8002} {
		for ai, al := range alphabets {
			for k := 0; k < 2; k++ {
				bz := make([]byte, l)
				for j := range bz {
					bz[j] = al.set[(j*7+k*3+ai+int(bz[max(j-1, 0)]))%len(al.set)]
				}
				copy(bz, al.lead)
				c16Message(rc, bz, "text-"+al.name)
				c16Burn(rc, bz, "text-"+al.name)
				rc.Cov.Cell("C16_text_like_inputs", al.name)
			}
		}
	}
	// ... and the textual renderings of a valid message / burn body (what an API hands out) are not that message
	for k := 0; k < 6; k++ {
		m := &ref.Message{Version: 0, SrcDomain: uint32(k), DstDomain: 4, Nonce: uint64(100 + k), Sender: Structured32(0x11), Recipient: Structured32(0x22), Caller: make([]byte, 32), Body: structured(k*33, byte(k))}
		wire, _ := ref.EncodeMessage(m)
		burn := BurnBody(0, Token(k), Structured32(0x55), big.NewInt(int64(1000+k)), Structured32(0x66))
		for _, raw := range [][]byte{wire, burn} {
			h := hex.EncodeToString(raw)
			for _, txt := range []string{"0x" + h, h, "0X" + strings.ToUpper(h), "0x" + h + "\n", "\"0x" + h + "\"", base64.StdEncoding.EncodeToString(raw), "0x" + h + h} {
				c16Message(rc, []byte(txt), "text-rendering")
				c16Burn(rc, []byte(txt), "text-rendering")
				rc.Cov.Cell("C16_text_like_inputs", "rendering-of-a-valid-value")
			}
		}
	}
	// zero tails: any input followed by 1..40 zero bytes is another input (in particular at lengths that are multiples of 32)
	for _, l := range []int{100, 116, 120, 132, 148, 216, 248} {
		for k := 1; k <= 40; k++ {
			bz := append(structured(l, byte(l+k)), make([]byte, k)...)
			c16Message(rc, bz, "zero-tail")
			c16Burn(rc, bz, "zero-tail")
			bz2 := append(make([]byte, k), structured(l, byte(l+k))...)
			c16Message(rc, bz2, "zero-head")
			c16Burn(rc, bz2, "zero-head")
		}
	}
	// well-formed headers whose address words are the module's own padded address (as recipient, as sender, as caller, as
	// all three), for either direction of travel and every body length: parsing does not look at what the words mean
	for l := 116; l <= 420; l++ {
		if (l+rc.Shard)%rc.NShards != 0 && l > 140 && (l < 240 || l > 260) {
			continue
		}
		for w := 1; w < 8; w++ {
			for _, dir := range [][2]uint32{{0, 4}, {4, 0}, {4, 4}, {7, 9}} {
				m := &ref.Message{Version: 0, SrcDomain: dir[0], DstDomain: dir[1], Nonce: uint64(l), Sender: structured(32, 0x11), Recipient: structured(32, 0x55), Caller: structured(32, 0x99), Body: structured(l-116, 0xc1)}
				if w&1 != 0 {
					m.Recipient = append([]byte(nil), ct.PaddedModuleAddress...)
				}
				if w&2 != 0 {
					m.Sender = append([]byte(nil), ct.PaddedModuleAddress...)
				}
				if w&4 != 0 {
					m.Caller = append([]byte(nil), ct.PaddedModuleAddress...)
				}
				if bz, err := ref.EncodeMessage(m); err == nil {
					c16Message(rc, bz, "module-address-words")
				}
				c16EncodeMessage(rc, m, "module-address-words")
				// ... and with all-zero words in the same positions (a zero word is a word like any other)
				if l <= 140 || l == 248 {
					z := &ref.Message{Version: 0, SrcDomain: dir[0], DstDomain: dir[1], Nonce: uint64(l), Sender: structured(32, 0x11), Recipient: structured(32, 0x55), Caller: structured(32, 0x99), Body: structured(l-116, 0xc1)}
					if w&1 != 0 {
						z.Recipient = make([]byte, 32)
					}
					if w&2 != 0 {
						z.Sender = make([]byte, 32)
					}
					if w&4 != 0 {
						z.Caller = make([]byte, 32)
					}
					if bz, err := ref.EncodeMessage(z); err == nil {
						c16Message(rc, bz, "zero-words")
					}
					c16EncodeMessage(rc, z, "zero-words")
					zb := &ref.BurnMessage{Version: 0, BurnToken: structured(32, 0x21), MintRecipient: structured(32, 0x61), Amount: big.NewInt(int64(l)), Sender: structured(32, 0xa1)}
					if w&1 != 0 {
						zb.BurnToken = make([]byte, 32)
					}
					if w&2 != 0 {
						zb.MintRecipient = make([]byte, 32)
					}
					if w&4 != 0 {
						zb.Sender = make([]byte, 32)
					}
					if w == 7 {
						zb.Amount = big.NewInt(0)
					}
					c16EncodeBurn(rc, zb, "zero-words")
				}
			}
		}
	}
	for k := 0; k < rc.Pick(30000, 400000); k++ {
		bz := make([]byte, 132)
		r.Read(bz)
		switch k % 5 {
		case 0:
			for i := 68; i < 100; i++ {
				bz[i] = 0xff
			}
		case 1:
			for i := 68; i < 100; i++ {
				bz[i] = 0
			}
		case 2:
			for i := 68; i < 99; i++ {
				bz[i] = 0
			}
			bz[99] = 1
		}
		c16Burn(rc, bz, "132-random")
		full := append(structured(116, byte(k)), bz...)
		c16Message(rc, full, "header+burn")
	}
	// encoder: field sizes 0,31,32,33 for every slice field; extremes of every integer field
	sizes := []int{0, 31, 32, 33}
	u32s := []uint32{0, 1, 4, 0x01020304, 0x7fffffff, 0xffffffff}
	u64s := []uint64{0, 1, 0xffffffff, 0x100000000, 0x0102030405060708, 1 << 63, ^uint64(0)}
	for _, ls := range sizes {
		for _, lr := range sizes {
			for _, lc := range sizes {
				for bi, lb := range []int{0, 1, 132, 300} {
					m := &ref.Message{Version: u32s[(ls+bi)%len(u32s)], SrcDomain: u32s[(lr+1)%len(u32s)], DstDomain: u32s[(lc+2)%len(u32s)], Nonce: u64s[(ls+lr+lc+bi)%len(u64s)],
						Sender: structured(ls, 0x11), Recipient: structured(lr, 0x55), Caller: structured(lc, 0x99), Body: structured(lb, 0xc1)}
					class := "sizes"
					if ls == 32 && lr == 32 && lc == 32 {
						class = "wellformed"
					}
					c16EncodeMessage(rc, m, class)
				}
			}
		}
	}
	// one field at a time at many more sizes (lengths that equal 32 modulo 2^8 or 2^16, powers of two, off by one)
	oneSizes := []int{0, 1, 8, 12, 20, 31, 33, 63, 64, 65, 96, 255, 256, 257, 287, 288, 289, 320, 544, 1056, 4128, 65535, 65536, 65568, 65600, 131104}
	for _, l := range oneSizes {
		for f := 0; f < 3; f++ {
			m := &ref.Message{Version: 0, SrcDomain: 4, DstDomain: 1, Nonce: 7, Sender: structured(32, 0x11), Recipient: structured(32, 0x55), Caller: structured(32, 0x99), Body: structured(5, 0xc1)}
			bm := &ref.BurnMessage{Version: 0, BurnToken: structured(32, 0x21), MintRecipient: structured(32, 0x61), Amount: big.NewInt(5), Sender: structured(32, 0xa1)}
			switch f {
			case 0:
				m.Sender, bm.BurnToken = structured(l, 0x11), structured(l, 0x21)
			case 1:
				m.Recipient, bm.MintRecipient = structured(l, 0x55), structured(l, 0x61)
			default:
				m.Caller, bm.Sender = structured(l, 0x99), structured(l, 0xa1)
			}
			c16EncodeMessage(rc, m, "one-field-size")
			c16EncodeBurn(rc, bm, "one-field-size")
		}
	}
	// unset (nil) slice fields, one at a time and all together: an unset field is a field of length 0
	for f := 0; f < 8; f++ {
		m := &ref.Message{Version: 0, SrcDomain: 4, DstDomain: 1, Nonce: 7, Sender: structured(32, 0x11), Recipient: structured(32, 0x55), Caller: structured(32, 0x99), Body: structured(5, 0xc1)}
		bm := &ref.BurnMessage{Version: 0, BurnToken: structured(32, 0x21), MintRecipient: structured(32, 0x61), Amount: big.NewInt(5), Sender: structured(32, 0xa1)}
		if f&1 != 0 {
			m.Sender, bm.BurnToken = nil, nil
		}
		if f&2 != 0 {
			m.Recipient, bm.MintRecipient = nil, nil
		}
		if f&4 != 0 {
			m.Caller, bm.Sender = nil, nil
		}
		if f == 0 {
			m.Body = nil
		}
		c16EncodeMessage(rc, m, fmt.Sprintf("unset-fields-%d", f))
		c16EncodeBurn(rc, bm, fmt.Sprintf("unset-fields-%d", f))
	}
	for _, v := range u32s {
		for _, n := range u64s {
			c16EncodeMessage(rc, &ref.Message{Version: v, SrcDomain: v ^ 0xa5a5a5a5, DstDomain: ^v, Nonce: n, Sender: structured(32, 1), Recipient: structured(32, 2), Caller: structured(32, 3), Body: structured(int(n%97), 4)}, "extremes")
		}
	}
	amts := []*big.Int{big.NewInt(0), big.NewInt(1), big.NewInt(255), big.NewInt(256), Two64, Two128, Two255, Max256, new(big.Int).Sub(Two64, big.NewInt(1))}
	for _, lt := range sizes {
		for _, lr := range sizes {
			for _, ls := range sizes {
				for ai, a := range amts {
					class := "sizes"
					if lt == 32 && lr == 32 && ls == 32 {
						class = "wellformed"
					}
					c16EncodeBurn(rc, &ref.BurnMessage{Version: u32s[ai%len(u32s)], BurnToken: structured(lt, 0x21), MintRecipient: structured(lr, 0x61), Amount: a, Sender: structured(ls, 0xa1)}, class)
				}
			}
		}
	}
	for k := 0; k < rc.Pick(20000, 300000); k++ {
		a := new(big.Int).Rand(r, new(big.Int).Add(Max256, big.NewInt(1)))
		if k%7 == 0 {
			a.Rsh(a, uint(r.Intn(256)))
		}
		tok, rec, snd := make([]byte, 32), make([]byte, 32), make([]byte, 32)
		r.Read(tok)
		r.Read(rec)
		r.Read(snd)
		c16EncodeBurn(rc, &ref.BurnMessage{Version: r.Uint32(), BurnToken: tok, MintRecipient: rec, Amount: a, Sender: snd}, "random")
		body := make([]byte, r.Intn(64))
		r.Read(body)
		c16EncodeMessage(rc, &ref.Message{Version: r.Uint32(), SrcDomain: r.Uint32(), DstDomain: r.Uint32(), Nonce: r.Uint64(), Sender: tok, Recipient: rec, Caller: snd, Body: body}, "random")
	}
	// RemoteTokenPadded
	toks := []string{"", "0x", "0", "0x0", "00", "0x00", "zz", "0xzz", "0X00", "0x0x00", " 00", "00 ", "abc", "0xabc", strings.Repeat("ab", 32), "0x" + strings.Repeat("ab", 32),
		strings.Repeat("ab", 33), "0x" + strings.Repeat("ab", 33), strings.Repeat("AB", 20), "0x" + strings.Repeat("Cd", 20), strings.Repeat("0", 64), strings.Repeat("f", 63), strings.Repeat("f", 65)}
	for _, s := range toks {
		c16Token(rc, s)
	}
	for k := 0; k < rc.Pick(10000, 100000); k++ {
		n := r.Intn(70)
		b := make([]byte, n)
		const alpha = "0123456789abcdefABCDEFxX g"
		for i := range b {
			if r.Intn(12) == 0 {
				b[i] = alpha[r.Intn(len(alpha))]
			} else {
				b[i] = alpha[r.Intn(22)]
			}
		}
		s := string(b)
		if r.Intn(3) == 0 {
			s = "0x" + s
		}
		c16Token(rc, s)
	}
	rc.Cov.Sample(map[string]string{"message_bytes": hex.EncodeToString(structured(150, 9)), "check": "Parse vs reference decode, field by field; Bytes() round trip"})
	rc.Cov.Sample(gv[2])
}

func init() {
	Register(&Check{
		ID: "C16", Level: "exploration",
		Rule:   "differential monitor of Message/BurnMessage Parse and Bytes against an independent codec written from the CCTP layout with literal offsets, plus golden vectors computed with Python struct; inputs: every length 0..400 and around 8000 with structured (distinct byte per offset) and random contents, every slice field at sizes 0/31/32/33, integer fields and amounts at their extremes, random well-formed values. distinct = (direction, length or field sizes, content class, accept/reject).",
		Shards: func(t string) int { return map[string]int{"quick": 2, "thorough": 16}[t] },
		Run:    runC16,
		Prefix: func(string, int) string { return "noble" },
		Floors: func(c *Cov, tier string) []string {
			var miss []string
			if len(c.Matrix["C16_text_like_inputs"]) < 12 {
				miss = append(miss, fmt.Sprintf("text-like input classes: %d", len(c.Matrix["C16_text_like_inputs"])))
			}
			for l := 0; l <= 200; l++ {
				if c.Matrix["C16_msg_len"][fmt.Sprint(l)] == 0 || c.Matrix["C16_burn_len"][fmt.Sprint(l)] == 0 {
					miss = append(miss, fmt.Sprintf("length %d not covered", l))
				}
			}
			if c.Assertions["C16.golden"] < 10 {
				miss = append(miss, "golden vectors not all checked")
			}
			return miss
		},
		Assumptions: []string{"the reference codec transcribes the CCTP message format correctly (cross-checked by the Python-struct golden vectors)", "negative amounts are outside the quantifier (amount in [0, 2^256))"},
	})
}
