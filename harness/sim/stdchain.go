package sim

import (
	"math/big"

	sdkmath "cosmossdk.io/math"

	ct "github.com/circlefin/noble-cctp/x/cctp/types"

	"verif/harness/chain"
	"verif/harness/ref"
)

// Canonical roles of the standard chain.
const (
	OwnerIx  = 0
	AMIx     = 1
	PauserIx = 2
	TCIx     = 3
	UserIx   = 4 // an account holding no role
	RichIx   = 5
	PoorIx   = 6 // zero balance
	OtherIx  = 7
)

// StdGenesis: everything valid and unpaused; attesters pool[0..3] (mixed spellings), threshold 2;
// messengers for every domain; token 0 and 1 linked on domains 0 and 1 to uusdc.
func StdGenesis() *ct.GenesisState {
	gs := ct.DefaultGenesis()
	gs.Owner, gs.AttesterManager, gs.Pauser, gs.TokenController = Acct(OwnerIx), Acct(AMIx), Acct(PauserIx), Acct(TCIx)
	for i := 0; i < 4; i++ {
		gs.AttesterList = append(gs.AttesterList, ct.Attester{Attester: AttesterPool[i].Spell(i)})
	}
	gs.SignatureThreshold = &ct.SignatureThreshold{Amount: 2}
	gs.BurningAndMintingPaused = &ct.BurningAndMintingPaused{Paused: false}
	gs.SendingAndReceivingMessagesPaused = &ct.SendingAndReceivingMessagesPaused{Paused: false}
	gs.MaxMessageBodySize = &ct.MaxMessageBodySize{Amount: 8000}
	gs.NextAvailableNonce = &ct.Nonce{Nonce: 0}
	for _, d := range Domains {
		gs.TokenMessengerList = append(gs.TokenMessengerList, ct.RemoteTokenMessenger{DomainId: d, Address: Messenger(d, 0)})
	}
	for _, d := range []uint32{0, 1} {
		for _, t := range []int{0, 1} {
			gs.TokenPairList = append(gs.TokenPairList, ct.TokenPair{RemoteDomain: d, RemoteToken: Token(t), LocalToken: "uusdc"})
		}
	}
	return gs
}

// StdEngine builds an engine on StdGenesis after applying mut.
func StdEngine(rc *RunCtx, double, fold bool, mut func(gs *ct.GenesisState, cfg *chain.Config)) (*Engine, error) {
	gs := StdGenesis()
	f, allow := DefaultFunding(rc.Rand, double)
	cfg := chain.Config{Genesis: gs, Funded: f, Allowance: allow, Double: double, Fold: fold, FundedOther: LookalikeFunding()}
	if mut != nil {
		mut(gs, &cfg)
	}
	return NewEngine(rc, cfg)
}

// StdInbound returns a receive for the std chain that satisfies every condition:
// module-addressed burn message on (domain 0, token 0) minting amt to account `to`.
func StdInbound(nonce uint64, to int, amt *big.Int) *InMsg {
	return &InMsg{Version: 0, Src: 0, Dst: 4, Nonce: nonce, Sender: Messenger(0, 0), Recipient: modulePadded,
		Caller: make([]byte, 32), Body: BurnBody(0, Token(0), ref.Pad32(AcctBytes(to)), amt, Structured32(0x33))}
}

func sdkInt(v int64) sdkmath.Int { return sdkmath.NewInt(v) }

// NearModuleRecipient: the module address in the low 20 bytes but non-zero padding - NOT the module's 32-byte name.
func NearModuleRecipient(tag byte) []byte {
	b := append([]byte(nil), modulePadded...)
	for j := 0; j < 12; j++ {
		b[j] = tag + byte(j)
	}
	return b
}

// LookalikeFunding: a few accounts also hold coins whose denom differs from the minting denom only in letter case
// (anyone can be sent such coins on a chain where another module mints them); they are never the minting denom.
func LookalikeFunding() map[string]map[string]*big.Int {
	return map[string]map[string]*big.Int{
		"UUSDC": {Acct(RichIx): big.NewInt(1_000_000_000), Acct(UserIx): big.NewInt(5_000), Acct(0): big.NewInt(700)},
		"uUsdc": {Acct(RichIx): big.NewInt(1_000_000), Acct(1): big.NewInt(900)},
		"Uusdc": {Acct(OtherIx): big.NewInt(123_456)},
	}
}
