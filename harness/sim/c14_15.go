package sim

import (
	"fmt"
	"math/big"
	"strings"

	sdk "github.com/cosmos/cosmos-sdk/types"
	"github.com/cosmos/cosmos-sdk/types/query"

	ct "github.com/circlefin/noble-cctp/x/cctp/types"

	"verif/harness/chain"
	"verif/harness/ref"
)

// ---------------------------------------------------------------- C14 fault enumeration

func depCallsOf(m sdk.Msg) int {
	switch x := m.(type) {
	case *ct.MsgDepositForBurn, *ct.MsgDepositForBurnWithCaller:
		return 2
	case *ct.MsgReceiveMessage:
		if len(x.Message) >= 84 && string(x.Message[52:84]) == string(modulePadded) {
			return 1
		}
	}
	return 0
}

// faultEnumerate runs base under every non-empty subset of its dependency calls x 3 fault kinds
// (each must fail and leave everything unchanged), then once unfaulted.
func faultEnumerate(e *Engine, base Tx, label string) {
	rc := e.Rc
	n := 0
	for _, m := range base.Msgs {
		n += depCallsOf(m)
	}
	if n == 0 || n > 6 {
		return
	}
	for sub := 1; sub < 1<<uint(n); sub++ {
		for _, kind := range []chain.FaultKind{chain.FaultCleanErr, chain.FaultErrAfterEffect, chain.FaultPanic} {
			plan := map[int]chain.FaultKind{}
			for i := 0; i < n; i++ {
				if sub&(1<<uint(i)) != 0 {
					plan[i] = kind
				}
			}
			tx := Tx{Msgs: base.Msgs, Fault: plan, Note: fmt.Sprintf("C14 %s fault subset %0*b kind %s", label, n, sub, kind)}
			rep := e.Exec(tx)
			hit := false
			for _, d := range rep.Deps {
				if d.Injected != chain.FaultNone {
					hit = true
				}
			}
			rc.Cov.Assert("C14.fault-run")
			rc.Cov.Cell("C14_faults", fmt.Sprintf("%s/n=%d/%s/hit=%v/%s", label, n, kind, hit, map[bool]string{true: "SUCCEEDED", false: "failed"}[rep.OK]))
			rc.Cov.Distinct(fmt.Sprintf("c14|%s|%d|%d|%s|%s|%v", label, n, sub, kind, e.M.Hash(), rep.OK))
			if hit && rep.OK {
				e.viol([]string{"C14"}, "all-or-nothing", fmt.Sprintf("C14:success-under-fault:%s:%s", label, kind),
					fmt.Sprintf("%s succeeded although dependency call(s) %0*b were failed with %s: %s", label, n, sub, kind, depSummary(rep.Deps)), e.caseOf(&tx, ""))
			}
		}
	}
	rep := e.Exec(Tx{Msgs: base.Msgs, Note: "C14 " + label + " unfaulted"})
	rc.Cov.Cell("C14_base", fmt.Sprintf("%s/n=%d/unfaulted-ok=%v", label, n, rep.OK))
	// "after the rollback ... used nonces are exactly as before": the same transaction, now unfaulted, is judged
	// by the model on the unchanged state; a rejection here although no dependency failed means a trace was left
	depFailed := false
	for _, d := range rep.Deps {
		if d.Seq >= 0 && d.Err != "" {
			depFailed = true
		}
	}
	rc.Cov.Assert("C14.retry-after-rollback")
	if !rep.OK && !depFailed && (rep.TxExp == DepDependent || rep.TxExp == MustSucceed) {
		e.viol([]string{"C14"}, "all-or-nothing", "C14:retry-after-rollback-rejected:"+label,
			fmt.Sprintf("%s was rolled back under injected faults and is now rejected although nothing fails: %s", label, trunc(rep.Res.Log, 300)), e.caseOf(&Tx{Msgs: base.Msgs}, ""))
	}
}

func runC14(rc *RunCtx) {
	defer ProbeHistory(rc, rc.Pick(200, 800), rc.Shard%2 == 1)
	r := rc.Rand
	nonce := uint64(700000 + rc.Shard*100000)
	for h := 0; h < rc.Pick(2, 6); h++ {
		e, err := StdEngine(rc, (h+rc.Shard)%2 == 1, false, nil)
		if err != nil {
			rc.Cov.Inconclusive(err.Error())
			continue
		}
		e.LightQueries = false
		g := NewGen(e)
		pg := &ProdGen{E: e, G: g}
		inbound := func() sdk.Msg {
			nonce++
			raw := StdInbound(nonce, r.Intn(NAccounts), big.NewInt(int64(1+r.Intn(1000)))).Bytes()
			return &ct.MsgReceiveMessage{From: Acct(r.Intn(NAccounts)), Message: raw, Attestation: e.Attest(raw, r.Intn(3))}
		}
		points := rc.Pick(24, 80)
		for p := 0; p < points; p++ {
			// move the history forward between base transactions
			for i := 0; i < 6; i++ {
				tx := g.Next()
				g.Learn(tx, e.Exec(tx))
			}
			// make sure the flows are open again
			if e.M.PausedSR {
				e.Exec(Tx{Msgs: msgs1(&ct.MsgUnpauseSendingAndReceivingMessages{From: e.M.Pauser})})
			}
			if e.M.PausedBM {
				e.Exec(Tx{Msgs: msgs1(&ct.MsgUnpauseBurningAndMinting{From: e.M.Pauser})})
			}
			switch p % 6 {
			case 0:
				faultEnumerate(e, Tx{Msgs: msgs1(pg.ValidDeposit(false, 0))}, "deposit")
			case 1:
				faultEnumerate(e, Tx{Msgs: msgs1(pg.ValidDeposit(true, 0))}, "deposit-with-caller")
			case 2:
				faultEnumerate(e, Tx{Msgs: msgs1(inbound())}, "receive")
			case 3:
				faultEnumerate(e, Tx{Msgs: []sdk.Msg{pg.ValidDeposit(false, 0), inbound()}}, "deposit+receive")
			case 4:
				faultEnumerate(e, Tx{Msgs: []sdk.Msg{inbound(), pg.ValidDeposit(true, 0), inbound()}}, "receive+deposit+receive")
			case 5:
				faultEnumerate(e, Tx{Msgs: []sdk.Msg{pg.ValidSend(false), pg.ValidDeposit(false, 0), pg.ValidDeposit(true, 0)}}, "send+deposit+deposit")
			}
		}
		rc.Cov.Sample(map[string]interface{}{"history_tail": e.history[max(0, len(e.history)-12):]})
	}
	// natural failures of the real keepers and late validation failures after the burn
	for vi, variant := range []string{"ftf-paused", "module-blacklisted", "recipient-blacklisted", "allowance-exhausted", "send-side-paused", "max-body-131", "zero-messenger", "caller-31-bytes", "poor-depositor", "short-messenger", "long-messenger", "zero-amount-burn-message", "mint-to-module-account", "recipient-blocked-by-bank", "caller-over-long"} {
		if vi%rc.NShards != rc.Shard {
			continue
		}
		e, err := StdEngine(rc, false, false, func(gs *ct.GenesisState, cfg *chain.Config) {
			switch variant {
			case "ftf-paused":
				cfg.FTFPaused = true
			case "module-blacklisted":
				cfg.Blacklisted = [][]byte{ct.ModuleAddress}
			case "recipient-blacklisted":
				cfg.Blacklisted = [][]byte{AcctBytes(1)}
			case "allowance-exhausted":
				cfg.Allowance = big.NewInt(5)
			case "recipient-blocked-by-bank": // the bank's blocked-address list (module accounts on a production chain)
				cfg.BankBlocked = []string{Acct(1), moduleBech()}
			case "send-side-paused":
				gs.SendingAndReceivingMessagesPaused.Paused = true
			case "max-body-131":
				gs.MaxMessageBodySize.Amount = 131
			case "zero-messenger":
				for i := range gs.TokenMessengerList {
					gs.TokenMessengerList[i].Address = make([]byte, 32)
				}
			case "short-messenger": // only a genesis file can register a messenger that is not 32 bytes long
				for i := range gs.TokenMessengerList {
					gs.TokenMessengerList[i].Address = Structured32(7)[:20]
				}
			case "long-messenger":
				for i := range gs.TokenMessengerList {
					gs.TokenMessengerList[i].Address = append(Structured32(7), 1)
				}
			}
		})
		if err != nil {
			rc.Cov.Inconclusive(variant + ": " + err.Error())
			continue
		}
		pg := &ProdGen{E: e, G: NewGen(e)}
		for k := 0; k < rc.Pick(6, 30); k++ {
			var m sdk.Msg
			switch variant {
			case "caller-31-bytes":
				d := pg.ValidDeposit(true, 0).(*ct.MsgDepositForBurnWithCaller)
				d.DestinationCaller = Structured32(3)[:31]
				m = d
			case "caller-over-long": // 33, 40, 64, 96, 20 and 1 bytes: refused only when the message is assembled, after the burn
				d := pg.ValidDeposit(true, 0).(*ct.MsgDepositForBurnWithCaller)
				long := append(append(Structured32(3), Structured32(4)...), Structured32(5)...)
				d.DestinationCaller = long[:[]int{33, 40, 64, 96, 20, 1}[k%6]]
				m = d
			case "poor-depositor":
				d := pg.ValidDeposit(false, 0).(*ct.MsgDepositForBurn)
				d.From = Acct(PoorIx)
				m = d
			case "zero-messenger", "max-body-131", "send-side-paused", "module-blacklisted", "short-messenger", "long-messenger":
				d := pg.ValidDeposit(k%2 == 0, 0)
				if dd, ok := d.(*ct.MsgDepositForBurn); ok {
					dd.DestinationDomain = 0
				}
				m = d
			case "zero-amount-burn-message": // the fiat-token-factory refuses to mint nothing: the receive fails as a whole
				nonce++
				raw := StdInbound(nonce, k%NAccounts, big.NewInt(0)).Bytes()
				m = &ct.MsgReceiveMessage{From: Acct(UserIx), Message: raw, Attestation: e.Attest(raw, 0)}
			case "mint-to-module-account":
				nonce++
				in := StdInbound(nonce, 0, big.NewInt(int64(k%3))) // amounts 0, 1, 2
				copy(in.Body[36:68], modulePadded)
				raw := in.Bytes()
				m = &ct.MsgReceiveMessage{From: Acct(UserIx), Message: raw, Attestation: e.Attest(raw, 0)}
			default:
				if k%2 == 0 {
					m = pg.ValidDeposit(false, 0)
				} else {
					nonce++
					raw := StdInbound(nonce, 1, big.NewInt(int64(10+k))).Bytes()
					m = &ct.MsgReceiveMessage{From: Acct(UserIx), Message: raw, Attestation: e.Attest(raw, 0)}
				}
			}
			rep := e.Exec(Tx{Msgs: msgs1(m), Note: "C14 natural/late failure: " + variant})
			rc.Cov.Cell("C14_natural", fmt.Sprintf("%s/%s/%v", variant, rep.Exp[0].Kind, map[bool]string{true: "ok", false: "fail"}[rep.OK]))
		}
	}
}

// ---------------------------------------------------------------- C15 write-set confinement

// readOnlyGuard: after a read-only activity (queries, export, validate) the probe must hold no writes.
func (e *Engine) readOnlyGuard(what string) {
	n := 0
	var key []byte
	for _, op := range e.C.Store.Ops {
		if op.Op == 'S' || op.Op == 'D' {
			n++
			key = op.Key
		}
	}
	e.Rc.Cov.Assert("C15.read-only." + strings.SplitN(what, ":", 2)[0])
	if n > 0 {
		e.viol([]string{"C15"}, "write-set/read-only", "C15:read-only-wrote:"+what, fmt.Sprintf("%s performed %d store writes (e.g. key %q)", what, n, key), nil)
	}
	e.C.Store.Reset()
}

func (e *Engine) allQueriesHostile() {
	c := e.C
	r := e.Rc.Rand
	e.C.Store.Phase = "query"
	e.C.Store.Reset()
	pages := []*query.PageRequest{nil, {Limit: 1}, {Limit: 2, CountTotal: true}, {Offset: 1, Limit: 3}, {Limit: 1000, Reverse: true}, {Key: []byte{0}, Limit: 2}, {Offset: 1 << 40}}
	for _, q := range queryMethods {
		var err error
		switch q.Kind {
		case "none":
			err = c.QueryRaw(q.Name, nil, nil)
		case "page":
			for _, p := range pages {
				switch q.Name {
				case "Attesters":
					err = c.Query(q.Name, &ct.QueryAllAttestersRequest{Pagination: p}, nil)
				case "PerMessageBurnLimits":
					err = c.Query(q.Name, &ct.QueryAllPerMessageBurnLimitsRequest{Pagination: p}, nil)
				case "TokenPairs":
					err = c.Query(q.Name, &ct.QueryAllTokenPairsRequest{Pagination: p}, nil)
				case "UsedNonces":
					err = c.Query(q.Name, &ct.QueryAllUsedNoncesRequest{Pagination: p}, nil)
				case "RemoteTokenMessengers":
					err = c.Query(q.Name, &ct.QueryRemoteTokenMessengersRequest{Pagination: p}, nil)
				}
			}
		case "attester":
			err = c.Query(q.Name, &ct.QueryGetAttesterRequest{Attester: AttesterPool[r.Intn(len(AttesterPool))].Spell(r.Intn(4))}, nil)
		case "denom":
			err = c.Query(q.Name, &ct.QueryGetPerMessageBurnLimitRequest{Denom: Denoms[r.Intn(len(Denoms))]}, nil)
		case "pair":
			err = c.Query(q.Name, &ct.QueryGetTokenPairRequest{RemoteDomain: uint32(r.Intn(3)), RemoteToken: fmt.Sprintf("0x%x", Token(r.Intn(NTokens)))}, nil)
		case "nonce":
			err = c.Query(q.Name, &ct.QueryGetUsedNonceRequest{SourceDomain: uint32(r.Intn(3)), Nonce: HostileNonces[r.Intn(len(HostileNonces))]}, nil)
		case "domain":
			err = c.Query(q.Name, &ct.QueryRemoteTokenMessengerRequest{DomainId: Domains[r.Intn(len(Domains))]}, nil)
		}
		_ = err
		e.Rc.Cov.Cell("C15_queries", q.Name)
		e.readOnlyGuard("query:" + q.Name)
	}
}

// c15ArgumentMismatch: requests whose redundant argument does not match the entry they name (an unlink that states
// another local token than the pair's - one that another pair of the same domain carries, one that no pair carries,
// none) touch the named entry or nothing, never another one. Judged by the pair-interference monitor and the state tap.
func c15ArgumentMismatch(rc *RunCtx) {
	e, err := StdEngine(rc, false, false, func(gs *ct.GenesisState, cfg *chain.Config) {
		gs.TokenPairList = []ct.TokenPair{{RemoteDomain: 0, RemoteToken: Token(0), LocalToken: "uusdc"}, {RemoteDomain: 0, RemoteToken: Token(1), LocalToken: "ueure"},
			{RemoteDomain: 0, RemoteToken: Token(2), LocalToken: "uusdc2"}, {RemoteDomain: 1, RemoteToken: Token(0), LocalToken: "uusdc"}, {RemoteDomain: 0xffffffff, RemoteToken: Token(4), LocalToken: "ueure"}}
	})
	if err != nil {
		rc.Cov.Inconclusive("argument mismatch: " + err.Error())
		return
	}
	e.LightQueries = false
	for i, lt := range []string{"ueure", "uusdc2", "nothing", "", "UEURE", "ueure"} {
		tok := Token(i % 3)
		r := e.Exec(Tx{Msgs: msgs1(&ct.MsgUnlinkTokenPair{From: e.M.TC, RemoteDomain: 0, RemoteToken: tok, LocalToken: lt}), Note: "C15 argument mismatch: unlink stating another local token"})
		rc.Cov.Cell("C15_argument_mismatch", fmt.Sprintf("unlink/%q/%s", lt, okWord(r.OK)))
		e.Exec(Tx{Msgs: msgs1(&ct.MsgLinkTokenPair{From: e.M.TC, RemoteDomain: 0, RemoteToken: tok, LocalToken: []string{"uusdc", "ueure", "uusdc2"}[i%3]}), Note: "C15 argument mismatch: link again"})
		e.FullQueryCheck(nil, []uint64{2, 100})
	}
}

func runC15(rc *RunCtx) {
	if rc.Shard == 0 {
		c15ArgumentMismatch(rc)
	}
	for h := 0; h < rc.Pick(3, 10); h++ {
		e, err := NewHistoryEngine(rc, GenOpts{Unpaused: h%2 == 0, FixedRoles: h%3 == 0, MixedCasePair: true}, h%3 == 1, false)
		if err != nil {
			rc.Cov.Inconclusive(err.Error())
			continue
		}
		g := NewGen(e)
		pg := &ProdGen{E: e, G: g}
		n := rc.Pick(700, 3000)
		for i := 0; i < n; i++ {
			var tx Tx
			switch {
			case i%5 == 0: // holder-submitted admin actions so that every type is seen succeeding
				at := adminTypes[rc.Rand.Intn(len(adminTypes))]
				role := map[string]string{"owner": e.M.Owner, "am": e.M.AM, "pauser": e.M.Pauser, "tc": e.M.TC, "pending": e.M.Pending}[at.Role]
				tx = Tx{Msgs: msgs1(at.Make(e.M, role, i))}
			case i%5 == 1:
				var m sdk.Msg
				switch rc.Rand.Intn(4) {
				case 0:
					m = pg.ValidDeposit(rc.Rand.Intn(2) == 0, 0)
				case 1:
					m = pg.ValidSend(rc.Rand.Intn(2) == 0)
				case 2:
					m = pg.Replacement(ReplacementClasses[rc.Rand.Intn(len(ReplacementClasses))])
				default:
					m = g.Inbound(false)
				}
				if m == nil {
					m = pg.ValidSend(false)
				}
				tx = Tx{Msgs: msgs1(m)}
			default:
				tx = g.Next()
			}
			rep := e.Exec(tx)
			g.Learn(tx, rep)
			if len(rep.Exp) == 1 {
				rc.Cov.Cell("C15_types", rep.Exp[0].Kind+"/"+map[bool]string{true: "ok", false: "fail"}[rep.OK])
			}
			e.readOnlyGuard("state-tap") // the state tap only exported and queried since the transaction
			if i%50 == 17 {
				// single-item queries for every stored pair (genesis may hold pairs whose local token is not lower-case)
				e.C.Store.Reset()
				for k := range e.M.Pairs {
					_ = e.C.Query("TokenPair", &ct.QueryGetTokenPairRequest{RemoteDomain: k.Domain, RemoteToken: fmt.Sprintf("0x%x", k.Token)}, nil)
				}
				e.readOnlyGuard("query:TokenPair(stored pairs)")
				e.allQueriesHostile()
				e.FullQueryCheck(nil, nil)
				e.readOnlyGuard("query:paginated-walks")
			}
			if i%120 == 60 {
				e.C.Store.Phase = "export"
				gs := exportGenesis(e.C.QueryCtx(), e.C)
				e.readOnlyGuard("export")
				_ = gs.Validate()
				e.readOnlyGuard("validate")
				rc.Cov.Cell("C15_queries", "<export>")
			}
		}
		rc.Cov.Sample(map[string]interface{}{"history_tail": e.history[max(0, len(e.history)-8):]})
	}
	c15Confusables(rc)
	// every privileged type with every argument variant, submitted by an account that holds no role: nothing may be
	// written (the state tap compares the complete state after each)
	if rc.Shard == 1%rc.NShards {
		if e, err := StdEngine(rc, false, false, nil); err == nil {
			e.Exec(Tx{Msgs: msgs1(&ct.MsgUpdateOwner{From: e.M.Owner, NewOwner: Acct(OtherIx)}), Note: "C15 outsider table: a pending owner exists"})
			for _, at := range adminTypes {
				for v := 0; v < 10; v++ {
					r := e.Exec(Tx{Msgs: msgs1(at.Make(e.M, Acct(UserIx), v)), Note: "C15 " + at.Name + " by an account without a role"})
					rc.Cov.Cell("C15_types", at.Name+"/outsider/"+okWord(r.OK))
					e.readOnlyGuard("state-tap")
				}
			}
		}
	}
	ProbeHistory(rc, rc.Pick(240, 900), false)
	_ = ref.Pad32
}

// confusableU32: values that differ from d in exactly one byte, or hold d's bytes in another order.
func confusableU32(d uint32) []uint32 {
	out := []uint32{d ^ 1<<8, d ^ 1<<16, d ^ 1<<24, d ^ 0xff, d<<8 | d>>24, d<<16 | d>>16, d>>8 | d<<24,
		(d&0xff)<<24 | (d&0xff00)<<8 | (d&0xff0000)>>8 | d>>24}
	var uniq []uint32
	seen := map[uint32]bool{d: true}
	for _, v := range out {
		if !seen[v] {
			seen[v] = true
			uniq = append(uniq, v)
		}
	}
	return uniq
}

// c15Confusables: every keyed registry is operated under keys that resemble a present key (one byte of the domain /
// nonce / token differs, bytes reordered). Each such request names another entry: it must read and write only that
// one - the engine's state tap compares the complete exported state and every query with the model after each step.
func c15Confusables(rc *RunCtx) {
	for bi, base := range []uint32{5, 1, 0xffffffff, 0x01020304, 0} {
		if bi%rc.NShards != rc.Shard {
			continue
		}
		e, err := StdEngine(rc, false, false, nil)
		if err != nil {
			rc.Cov.Inconclusive(err.Error())
			continue
		}
		e.LightQueries = false
		ex := func(m sdk.Msg, what string) *Report {
			r := e.Exec(Tx{Msgs: msgs1(m), Note: fmt.Sprintf("C15 confusable keys around domain %#x: %s", base, what)})
			rc.Cov.Cell("C15_confusable_keys", what+"/"+okWord(r.OK))
			e.readOnlyGuard("state-tap")
			return r
		}
		own, tc := e.M.Owner, e.M.TC
		if _, ok := e.M.Messengers[base]; !ok {
			ex(&ct.MsgAddRemoteTokenMessenger{From: own, DomainId: base, Address: Messenger(base, 0)}, "messenger:add-base")
		}
		if _, ok := e.M.Pairs[pairKey{base, string(Token(0))}]; !ok {
			ex(&ct.MsgLinkTokenPair{From: tc, RemoteDomain: base, RemoteToken: Token(0), LocalToken: "uusdc"}, "pair:link-base")
		}
		nonce := uint64(0x0102030405060708)
		rx := func(d uint32, n uint64) sdk.Msg {
			in := &InMsg{Version: 0, Src: d, Dst: 4, Nonce: n, Sender: Structured32(0x61), Recipient: Structured32(0x62), Caller: make([]byte, 32), Body: []byte("confusable")}
			raw := in.Bytes()
			return &ct.MsgReceiveMessage{From: Acct(UserIx), Message: raw, Attestation: e.Attest(raw, 0)}
		}
		ex(rx(base, nonce), "used-nonce:base")
		for _, d := range confusableU32(base) {
			if _, ok := e.M.Messengers[d]; ok {
				continue
			}
			ex(&ct.MsgRemoveRemoteTokenMessenger{From: own, DomainId: d}, "messenger:remove-absent-lookalike")
			ex(&ct.MsgAddRemoteTokenMessenger{From: own, DomainId: d, Address: Messenger(d, 1)}, "messenger:add-lookalike")
			ex(&ct.MsgAddRemoteTokenMessenger{From: own, DomainId: d, Address: Messenger(d, 2)}, "messenger:add-lookalike-again")
			ex(&ct.MsgUnlinkTokenPair{From: tc, RemoteDomain: d, RemoteToken: Token(0), LocalToken: "uusdc"}, "pair:unlink-absent-lookalike")
			ex(&ct.MsgLinkTokenPair{From: tc, RemoteDomain: d, RemoteToken: Token(0), LocalToken: "uusdc"}, "pair:link-lookalike")
			ex(rx(d, nonce), "used-nonce:lookalike-domain")
			ex(rx(d, nonce), "used-nonce:lookalike-domain-replayed")
			ex(&ct.MsgRemoveRemoteTokenMessenger{From: own, DomainId: d}, "messenger:remove-lookalike")
			ex(&ct.MsgUnlinkTokenPair{From: tc, RemoteDomain: d, RemoteToken: Token(0), LocalToken: "uusdc"}, "pair:unlink-lookalike")
		}
		for k := uint(0); k < 8; k++ {
			ex(rx(base, nonce^(1<<(8*k))), "used-nonce:lookalike-nonce")
		}
		// attester identifiers one of which is a string prefix / extension of another: removing one leaves the others
		am := e.M.AM
		full := AttesterPool[7].Spell(1)
		ids := []string{full, full[:42], full[:6], full + "ab", full[:130]}
		for _, id := range ids {
			ex(&ct.MsgEnableAttester{From: am, Attester: id}, "attester:enable-prefix-family")
		}
		for _, id := range []string{full[:6], full[:130], full, full + "ab", full[:42]} {
			ex(&ct.MsgDisableAttester{From: am, Attester: id}, "attester:disable-one-of-prefix-family")
			ex(&ct.MsgDisableAttester{From: am, Attester: id}, "attester:disable-again")
		}
		ex(rx(base, nonce<<8|nonce>>56), "used-nonce:rotated-nonce")
		// domain and nonce bytes exchanged across the key's field boundary
		ex(rx(uint32(nonce>>32), uint64(base)<<32|nonce&0xffffffff), "used-nonce:fields-exchanged")
		ex(rx(base, nonce), "used-nonce:base-replayed")
		// the base entries are still there and still removable once
		ex(&ct.MsgRemoveRemoteTokenMessenger{From: own, DomainId: base}, "messenger:remove-base")
		ex(&ct.MsgRemoveRemoteTokenMessenger{From: own, DomainId: base}, "messenger:remove-base-again")
		ex(&ct.MsgUnlinkTokenPair{From: tc, RemoteDomain: base, RemoteToken: Token(0), LocalToken: "uusdc"}, "pair:unlink-base")
		e.FullQueryCheck(nil, nil)
	}
}

func init() {
	Register(&Check{
		ID: "C14", Level: "fault_enumeration",
		Rule:   "at many points of random histories on real-keeper and ledger-double chains, a base transaction (deposit, deposit-with-caller, module receive, and 2-3-message transactions mixing them, n <= 5 dependency calls) is executed under every non-empty subset of its dependency calls failed, in each of three kinds (clean error, error after the real effect took place, panic) = 3*(2^n - 1) runs, then once unfaulted; plus natural failures of the real keepers (fiat-token-factory paused, module / recipient blacklisted, allowance exhausted, penniless depositor) and late validation failures after the burn (send side paused, max body 131, all-zero messenger, 31-byte caller). Oracles: success => every dependency call made returned ok and the documented calls were made; failure => raw dumps of all stores identical and no module events. distinct = (base tx kind, n, subset, fault kind, model state, outcome).",
		Shards: func(t string) int { return map[string]int{"quick": 4, "thorough": 16}[t] },
		Run:    runC14,
		Floors: func(c *Cov, tier string) []string {
			base := 0
			for k, v := range c.Matrix["C14_base"] {
				_ = k
				base += v
			}
			var miss []string
			if base < 20 {
				miss = append(miss, fmt.Sprintf("base transactions enumerated: %d", base))
			}
			for _, kind := range []string{"clean-error", "error-after-effect", "panic"} {
				hit := 0
				for k, v := range c.Matrix["C14_faults"] {
					if strings.Contains(k, "/"+kind+"/hit=true/") {
						hit += v
					}
				}
				if hit < 60 {
					miss = append(miss, fmt.Sprintf("fault kind %s hit %d times", kind, hit))
				}
			}
			if len(c.Matrix["C14_natural"]) < 12 {
				miss = append(miss, "natural / late failure variants missing")
			}
			return miss
		},
		Assumptions: []string{"faults are injected at the keeper's dependency boundary (bank transfer, burn, mint); crash points inside the SDK are not part of this property"},
	})
	Register(&Check{
		ID: "C15", Level: "exploration",
		Rule:   "write-set monitor on the store-service probe over hostile histories in which every transaction type is seen succeeding and failing: (raw) the number of distinct store keys a successful transaction writes is at most the documented count (receive 1, producers 1, replacements 0, admin 1, accept-owner 2) and failed transactions leave the raw dumps of all four stores identical; (semantic) after every transaction the full observable state (export + pending-owner getter + queries) differs from before by exactly the documented change; (read-only) all 19 queries with hostile pagination, paginated walks, genesis export and Validate perform zero Set/Delete calls. Runtime half only: the static for-every-code-path half is out of reach; handler statement coverage is reported. distinct = (model state, tx shape, outcome).",
		Shards: func(t string) int { return map[string]int{"quick": 4, "thorough": 16}[t] },
		Run:    runC15,
		Floors: func(c *Cov, tier string) []string {
			var miss []string
			for _, m := range allMsgTypes {
				n := fmt.Sprintf("%T", m)
				n = strings.TrimPrefix(n, "*types.Msg")
				if c.Matrix["C15_types"][n+"/ok"] == 0 || c.Matrix["C15_types"][n+"/fail"] == 0 {
					miss = append(miss, n+" not seen both succeeding and failing")
				}
			}
			if len(c.Matrix["C15_queries"]) < 20 {
				miss = append(miss, fmt.Sprintf("query types + export guarded: %d of 20", len(c.Matrix["C15_queries"])))
			}
			return miss
		},
	})
}
