package sim

import (
	"bytes"
	"fmt"
	"math/big"
	"strings"

	sdk "github.com/cosmos/cosmos-sdk/types"

	ct "github.com/circlefin/noble-cctp/x/cctp/types"

	"verif/harness/chain"
	"verif/harness/ref"
)

var c07Starts = []*uint64{nil, u64p(0), u64p(1), u64p(0xffffffff), u64p(0x100000000), u64p(1 << 63), u64p(^uint64(0) - 200000), u64p(^uint64(0) - 2), u64p(^uint64(0))}

// prodCampaign runs producer histories over several chains (starts, back-ends, late-failure configurations).
func prodCampaign(rc *RunCtx, chains, steps int) {
	for ci := 0; ci < chains; ci++ {
		k := ci*rc.NShards + rc.Shard
		start := c07Starts[k%len(c07Starts)]
		double := k%3 == 1
		variant := k % 8
		if variant == 7 {
			double = true // a ledger that matches denoms without regard to letter case, so that such deposits go through
		}
		e, err := NewProdEngine(rc, double, start, func(gs *ct.GenesisState, cfg *chain.Config) {
			switch variant {
			case 1: // body size below a burn message: every deposit fails after the burn
				gs.MaxMessageBodySize.Amount = 131
			case 2: // an all-zero messenger on domain 3: deposits there fail after the burn
				for i := range gs.TokenMessengerList {
					if gs.TokenMessengerList[i].DomainId == 3 {
						gs.TokenMessengerList[i].Address = make([]byte, 32)
					}

				}
			case 3:
				gs.MaxMessageBodySize.Amount = 132
			case 4: // a fiat-token-factory whose minting denom is spelled with upper-case letters
				cfg.MintDenom = "uUSDC"
			case 5: // minting denoms whose keccak-256 starts with a zero nibble / a zero byte
				cfg.MintDenom = "uusdc45"
			case 6:
				cfg.MintDenom = "uusdc496"
			case 7: // every letter of the alphabet (deposits also spell it in upper case and in alternating case)
				cfg.MintDenom = "abcdefghijklmnopqrstuvwxyz0"
				cfg.Fold = true
			}
			for i := range gs.TokenMessengerList { // only a genesis file can hold a messenger that is not 32 bytes long
				if gs.TokenMessengerList[i].DomainId == 2 && k%3 == 0 {
					gs.TokenMessengerList[i].Address = Structured32(0x2c)[:20]
				}
				if gs.TokenMessengerList[i].DomainId == 5 && k%3 == 1 {
					gs.TokenMessengerList[i].Address = append(Structured32(0x2d), 0xee)
				}
			}
			if k%2 == 1 { // initialised the way a node does it: through the JSON entry point, integers spelled as bare numbers
				if bz, err := GenesisJSON(gs, 3); err == nil {
					cfg.GenesisJSON = bz
				}
			}
			if k%4 == 2 { // stray funds sit in the module account (anyone can send coins to its address)
				cfg.Funded[moduleBech()] = big.NewInt(1000)
			}
		})
		if err != nil {
			rc.Cov.Inconclusive("prod engine: " + err.Error())
			continue
		}
		sname := "absent"
		if start != nil {
			sname = fmt.Sprint(*start)
		}
		rc.Cov.Cell("C07_starts", sname)
		g := NewGen(e)
		g.BigAmts = double
		p := &ProdGen{E: e, G: g}
		p.Run(steps, 40)
		c04Conservation(e)
	}
	prodDomainSweep(rc)
	prodFieldCoincidences(rc)
	ProbeHistory(rc, rc.Pick(240, 900), rc.Shard%2 == 1)
}

// prodFieldCoincidences: messages in which two 32-byte fields hold the same bytes (the destination caller equals the
// sender's own word, the recipient, the module's word, the mint recipient), replaced with new values that again
// coincide with other fields. Every field of what is emitted is judged separately by the message-sent monitor.
func prodFieldCoincidences(rc *RunCtx) {
	e, err := NewProdEngine(rc, false, nil, nil)
	if err != nil {
		rc.Cov.Inconclusive("field coincidences engine: " + err.Error())
		return
	}
	user := Acct(UserIx)
	own := ref.Pad32(addrBytes(user))
	p := &ProdGen{E: e, G: NewGen(e)}
	ci := 0
	word := func(name string, rec []byte) []byte {
		switch name {
		case "own":
			return own
		case "recipient":
			return rec
		case "module":
			return modulePadded
		case "zero":
			return make([]byte, 32)
		}
		return Structured32(0x77)
	}
	for _, oc := range []string{"own", "recipient", "module", "zero"} {
		for _, rcp := range []string{"plain", "messenger", "own"} {
			for _, nc := range []string{"module", "own", "recipient", "zero", "plain"} {
				for bi := 0; bi < 2; bi++ {
					ci++
					if ci%rc.NShards != rc.Shard {
						continue
					}
					rec := Structured32(0x31)
					if rcp == "messenger" {
						rec = e.M.Messengers[1]
					} else if rcp == "own" {
						rec = own
					}
					var m sdk.Msg = &ct.MsgSendMessageWithCaller{From: user, DestinationDomain: 1, Recipient: rec, MessageBody: []byte("coincidence"), DestinationCaller: word(oc, rec)}
					if oc == "zero" {
						m = &ct.MsgSendMessage{From: user, DestinationDomain: 1, Recipient: rec, MessageBody: []byte("coincidence")}
					}
					r := e.Exec(Tx{Msgs: msgs1(m), Note: fmt.Sprintf("field coincidences: send with caller=%s recipient=%s", oc, rcp)})
					rc.Cov.Cell("prod_field_coincidences", "send/"+okWord(r.OK))
					if !r.OK || len(r.Sent) != 1 {
						continue
					}
					body := []byte("replaced")
					if bi == 1 {
						body = BurnBody(0, ref.Keccak256([]byte("uusdc")), Structured32(5), big.NewInt(1_000_000), own)
					}
					r2 := e.Exec(Tx{Msgs: msgs1(&ct.MsgReplaceMessage{From: user, OriginalMessage: r.Sent[0], OriginalAttestation: e.Attest(r.Sent[0], ci%3), NewMessageBody: body, NewDestinationCaller: word(nc, rec)}),
						Note: fmt.Sprintf("field coincidences: replace (caller %s -> %s, recipient=%s, burn-shaped body=%v)", oc, nc, rcp, bi == 1)})
					rc.Cov.Cell("prod_field_coincidences", "replace/"+okWord(r2.OK))
				}
			}
		}
	}
	// accounts that a message names in another field (as destination caller, as recipient, as mint recipient) do not own it:
	// their replacements are refused, the owner's goes through
	from, _ := p.funded()
	{
		other, third := Acct(OtherIx), Acct(PoorIx)
		ow, tw := ref.Pad32(addrBytes(other)), ref.Pad32(addrBytes(third))
		from := Acct(RichIx) // funded, and none of the accounts named in the messages
		if rc.Shard == 2%rc.NShards {
			r := e.Exec(Tx{Msgs: msgs1(&ct.MsgDepositForBurnWithCaller{From: from, Amount: mkInt(big.NewInt(4)), DestinationDomain: 0, MintRecipient: tw, BurnToken: e.MintDenom(), DestinationCaller: ow}), Note: "named elsewhere: deposit naming two other accounts"})
			if r.OK && len(r.Sent) == 1 {
				for i, who := range []string{other, third, user, from} {
					r2 := e.Exec(Tx{Msgs: msgs1(&ct.MsgReplaceDepositForBurn{From: who, OriginalMessage: r.Sent[0], OriginalAttestation: e.Attest(r.Sent[0], i%3), NewDestinationCaller: Structured32(7), NewMintRecipient: Structured32(8)}),
						Note: "named elsewhere: replace-deposit by " + []string{"the destination caller", "the mint recipient", "a stranger", "the depositor"}[i]})
					rc.Cov.Cell("prod_named_elsewhere", fmt.Sprintf("deposit/%d/%s", i, okWord(r2.OK)))
					r3 := e.Exec(Tx{Msgs: msgs1(&ct.MsgReplaceMessage{From: who, OriginalMessage: r.Sent[0], OriginalAttestation: e.Attest(r.Sent[0], i%3), NewMessageBody: []byte("x"), NewDestinationCaller: Structured32(7)}),
						Note: "named elsewhere: replace-message of a deposit by " + []string{"the destination caller", "the mint recipient", "a stranger", "the depositor"}[i]})
					rc.Cov.Cell("prod_named_elsewhere", fmt.Sprintf("deposit-via-replace-message/%d/%s", i, okWord(r3.OK)))
				}
			}
			r = e.Exec(Tx{Msgs: msgs1(&ct.MsgSendMessageWithCaller{From: user, DestinationDomain: 2, Recipient: tw, MessageBody: BurnBody(0, ref.Keccak256([]byte("uusdc")), ow, big.NewInt(9), ow), DestinationCaller: ow}), Note: "named elsewhere: message naming two other accounts"})
			if r.OK && len(r.Sent) == 1 {
				for i, who := range []string{other, third, from, user} {
					r2 := e.Exec(Tx{Msgs: msgs1(&ct.MsgReplaceMessage{From: who, OriginalMessage: r.Sent[0], OriginalAttestation: e.Attest(r.Sent[0], i%3), NewMessageBody: []byte("y"), NewDestinationCaller: Structured32(7)}),
						Note: "named elsewhere: replace-message by " + []string{"the destination caller (also named in the body)", "the recipient", "a stranger", "the sender"}[i]})
					rc.Cov.Cell("prod_named_elsewhere", fmt.Sprintf("message/%d/%s", i, okWord(r2.OK)))
					r3 := e.Exec(Tx{Msgs: msgs1(&ct.MsgReplaceDepositForBurn{From: who, OriginalMessage: r.Sent[0], OriginalAttestation: e.Attest(r.Sent[0], i%3), NewDestinationCaller: Structured32(7), NewMintRecipient: Structured32(8)}),
						Note: "named elsewhere: replace-deposit of a user message by " + []string{"the account its body names as depositor", "the recipient", "a stranger", "the sender"}[i]})
					rc.Cov.Cell("prod_named_elsewhere", fmt.Sprintf("message-via-replace-deposit/%d/%s", i, okWord(r3.OK)))
				}
			}
		}
	}
	// deposits: the caller / mint recipient coincide with the module's word, the depositor's word, the messenger
	dw := ref.Pad32(addrBytes(from))
	for _, oc := range []string{"module", "depositor", "messenger", "mint-recipient"} {
		for _, nc := range []string{"module", "depositor", "messenger", "zero", "new-mint-recipient"} {
			for _, nm := range []string{"depositor", "module", "old-caller", "plain"} {
				ci++
				if ci%rc.NShards != rc.Shard {
					continue
				}
				mr := Structured32(0x41)
				dword := func(name string) []byte {
					switch name {
					case "module":
						return modulePadded
					case "depositor":
						return dw
					case "messenger":
						return e.M.Messengers[0]
					case "mint-recipient":
						return mr
					case "zero":
						return make([]byte, 32)
					}
					return Structured32(0x52)
				}
				r := e.Exec(Tx{Msgs: msgs1(&ct.MsgDepositForBurnWithCaller{From: from, Amount: mkInt(big.NewInt(3)), DestinationDomain: 0, MintRecipient: mr, BurnToken: e.MintDenom(), DestinationCaller: dword(oc)}),
					Note: "field coincidences: deposit with caller=" + oc})
				rc.Cov.Cell("prod_field_coincidences", "deposit/"+okWord(r.OK))
				if !r.OK || len(r.Sent) != 1 {
					continue
				}
				newMr := Structured32(0x52)
				switch nm {
				case "depositor":
					newMr = dw
				case "module":
					newMr = modulePadded
				case "old-caller":
					newMr = dword(oc)
				}
				r2 := e.Exec(Tx{Msgs: msgs1(&ct.MsgReplaceDepositForBurn{From: from, OriginalMessage: r.Sent[0], OriginalAttestation: e.Attest(r.Sent[0], ci%3), NewDestinationCaller: dword(nc), NewMintRecipient: newMr}),
					Note: fmt.Sprintf("field coincidences: replace deposit (caller %s -> %s, new mint recipient %s)", oc, nc, nm)})
				rc.Cov.Cell("prod_field_coincidences", "replace-deposit/"+okWord(r2.OK))
			}
		}
	}
}

// prodDomainSweep: a send (alternating both variants) to every destination domain of sweepDomains, and - after the
// owner registered a messenger for the domains 6..24 - a deposit to each of them, every second one replaced by its
// depositor afterwards. What is emitted does not depend on which number the destination domain is.
func prodDomainSweep(rc *RunCtx) {
	e, err := NewProdEngine(rc, false, nil, nil)
	if err != nil {
		rc.Cov.Inconclusive("domain sweep engine: " + err.Error())
		return
	}
	for i, d := range sweepDomains() {
		if i%rc.NShards != rc.Shard {
			continue
		}
		var m sdk.Msg = &ct.MsgSendMessage{From: Acct(UserIx), DestinationDomain: d, Recipient: Structured32(byte(d)), MessageBody: []byte("to anywhere")}
		if i%2 == 1 {
			m = &ct.MsgSendMessageWithCaller{From: Acct(UserIx), DestinationDomain: d, Recipient: Structured32(byte(d)), MessageBody: []byte("to anywhere"), DestinationCaller: Structured32(byte(d + 1))}
		}
		r := e.Exec(Tx{Msgs: msgs1(m), Note: fmt.Sprintf("domain sweep: send to destination domain %d", d)})
		rc.Cov.Cell("prod_domain_sweep", "send/"+okWord(r.OK))
		if d >= 6 && d <= 24 {
			e.Exec(Tx{Msgs: msgs1(&ct.MsgAddRemoteTokenMessenger{From: e.M.Owner, DomainId: d, Address: Messenger(d, 0)}), Note: "domain sweep: register a messenger"})
			from, _ := (&ProdGen{E: e, G: NewGen(e)}).funded()
			var dep sdk.Msg = &ct.MsgDepositForBurn{From: from, Amount: mkInt(big.NewInt(int64(1 + d))), DestinationDomain: d, MintRecipient: Structured32(byte(d + 2)), BurnToken: e.MintDenom()}
			if i%2 == 0 {
				dep = &ct.MsgDepositForBurnWithCaller{From: from, Amount: mkInt(big.NewInt(int64(1 + d))), DestinationDomain: d, MintRecipient: Structured32(byte(d + 2)), BurnToken: e.MintDenom(), DestinationCaller: Structured32(byte(d + 3))}
			}
			r := e.Exec(Tx{Msgs: msgs1(dep), Note: fmt.Sprintf("domain sweep: deposit to destination domain %d", d)})
			rc.Cov.Cell("prod_domain_sweep", "deposit/"+okWord(r.OK))
			if r.OK && len(r.Sent) == 1 && d%2 == 0 {
				r2 := e.Exec(Tx{Msgs: msgs1(&ct.MsgReplaceDepositForBurn{From: from, OriginalMessage: r.Sent[0], OriginalAttestation: e.Attest(r.Sent[0], 0), NewDestinationCaller: Structured32(9), NewMintRecipient: Structured32(8)}),
					Note: fmt.Sprintf("domain sweep: replace the deposit to destination domain %d", d)})
				rc.Cov.Cell("prod_domain_sweep", "replace-deposit/"+okWord(r2.OK))
			}
		}
	}
}

// thresholdAboveSet: configurations in which the signature threshold exceeds the number of enabled attesters
// (a genesis file may say so; it also happens while attesters are enabled one by one under a genesis threshold
// above 1). Nothing can be validly attested then: receives and both replacements must fail even when every enabled
// attester signed.
func thresholdAboveSet(rc *RunCtx) {
	ci := 0
	for n := 0; n <= 3; n++ {
		for over := 1; over <= 2; over++ {
			ci++
			if ci%rc.NShards != rc.Shard {
				continue
			}
			e, err := NewProdEngine(rc, false, nil, func(gs *ct.GenesisState, cfg *chain.Config) {
				gs.AttesterList = nil
				for i := 0; i < n; i++ {
					gs.AttesterList = append(gs.AttesterList, ct.Attester{Attester: AttesterPool[i].Spell(i)})
				}
				gs.SignatureThreshold = &ct.SignatureThreshold{Amount: uint32(n + over)}
			})
			if err != nil {
				rc.Cov.Inconclusive("threshold-above-set chain: " + err.Error())
				continue
			}
			g := NewGen(e)
			p := &ProdGen{E: e, G: g}
			nonce := uint64(9_000_000 + ci*1000)
			try := func(phase string) {
				e.Exec(Tx{Msgs: msgs1(p.ValidSend(false)), Note: "threshold above set: original send"})
				e.Exec(Tx{Msgs: msgs1(p.ValidDeposit(false, 0)), Note: "threshold above set: original deposit"})
				for _, cls := range []string{"own-message", "own-deposit"} {
					if m := p.Replacement(cls); m != nil {
						r := e.Exec(Tx{Msgs: msgs1(m), Note: "threshold above set: " + cls + " attested by every enabled attester"})
						rc.Cov.Cell("threshold_above_set", fmt.Sprintf("%s/n=%d/t=%d/%s/%s", phase, len(e.M.Attesters), e.M.Threshold, cls, okWord(r.OK)))
					}
				}
				nonce++
				raw := StdInbound(nonce, 1, big.NewInt(5)).Bytes()
				r := e.Exec(Tx{Msgs: msgs1(&ct.MsgReceiveMessage{From: Acct(UserIx), Message: raw, Attestation: e.Attest(raw, 0)}), Note: "threshold above set: receive attested by every enabled attester"})
				rc.Cov.Cell("threshold_above_set", fmt.Sprintf("%s/n=%d/t=%d/receive/%s", phase, len(e.M.Attesters), e.M.Threshold, okWord(r.OK)))
			}
			try("genesis")
			// attesters arrive one by one; the threshold is reached (and the flows start working) only at the end
			for i := n; i < n+over+1 && i < len(AttesterPool); i++ {
				e.Exec(Tx{Msgs: msgs1(&ct.MsgEnableAttester{From: e.M.AM, Attester: AttesterPool[i].Spell(i % 4)}), Note: "threshold above set: enable one more attester"})
				try(fmt.Sprintf("after-enable-%d", i-n+1))
			}
		}
	}
}

// c09NearSubmitters: one message and one deposit by the same account, then replacements of both submitted by every
// address that differs from the owner's in two bytes changed alike (xor 0x01 / 0xff), in a compensating +1/-1 pair,
// or in two bytes exchanged. None of them is the owner; a replacement by the owner before and after must work.
func c09NearSubmitters(rc *RunCtx) {
	e, err := NewProdEngine(rc, false, nil, nil)
	if err != nil {
		rc.Cov.Inconclusive("near-submitters chain: " + err.Error())
		return
	}
	g := NewGen(e)
	g.OddAccounts = false
	p := &ProdGen{E: e, G: g}
	e.Exec(Tx{Msgs: msgs1(p.ValidSend(false)), Note: "near submitters: original send"})
	dep := p.ValidDeposit(false, 0).(*ct.MsgDepositForBurn)
	dep.From, _ = p.funded()
	dep.Amount = mkInt(big.NewInt(3))
	e.Exec(Tx{Msgs: msgs1(dep), Note: "near submitters: original deposit"})
	var msgEm, depEm *Emitted
	for _, n := range sortedNonces(e.M.Emitted) {
		em := e.M.Emitted[n]
		if em.ByModule && depEm == nil && em.Depositor != "" {
			depEm = em
		}
		if !em.ByModule && msgEm == nil {
			msgEm = em
		}
	}
	if msgEm == nil || depEm == nil {
		rc.Cov.Inconclusive("near-submitters: no originals")
		return
	}
	control := func(phase string) {
		r1 := e.Exec(Tx{Msgs: msgs1(&ct.MsgReplaceMessage{From: Bech(msgEm.Sender[12:32]), OriginalMessage: msgEm.Original, OriginalAttestation: e.Attest(msgEm.Original, 0),
			NewMessageBody: []byte("by the owner"), NewDestinationCaller: Structured32(3)}), Note: "near submitters: replacement by the real sender (" + phase + ")"})
		r2 := e.Exec(Tx{Msgs: msgs1(&ct.MsgReplaceDepositForBurn{From: depEm.Depositor, OriginalMessage: depEm.Original, OriginalAttestation: e.Attest(depEm.Original, 0),
			NewDestinationCaller: Structured32(3), NewMintRecipient: Structured32(8)}), Note: "near submitters: replacement by the real depositor (" + phase + ")"})
		rc.Cov.Cell("near_submitters", "control/"+phase+"/message/"+okWord(r1.OK))
		rc.Cov.Cell("near_submitters", "control/"+phase+"/deposit/"+okWord(r2.OK))
	}
	control("before")
	idx := 0
	for _, which := range []string{"message", "deposit"} {
		own := msgEm.Sender[12:32]
		if which == "deposit" {
			own = addrBytes(depEm.Depositor)
		}
		n := len(own)
		for i := 0; i < n; i++ {
			for j := i + 1; j < n; j++ {
				for kind := 0; kind < 4; kind++ {
					idx++
					if idx%rc.NShards != rc.Shard {
						continue
					}
					b := append([]byte(nil), own...)
					name := ""
					switch kind {
					case 0:
						b[i], b[j], name = b[i]^0x01, b[j]^0x01, "xor-01-pair"
					case 1:
						b[i], b[j], name = b[i]^0xff, b[j]^0xff, "xor-ff-pair"
					case 2:
						b[i], b[j], name = b[i]+1, b[j]-1, "plus-minus-pair"
					default:
						b[i], b[j], name = b[j], b[i], "exchanged-pair"
					}
					if bytes.Equal(b, own) {
						continue
					}
					var m sdk.Msg
					if which == "message" {
						m = &ct.MsgReplaceMessage{From: Bech(b), OriginalMessage: msgEm.Original, OriginalAttestation: e.Attest(msgEm.Original, idx%3),
							NewMessageBody: []byte("not mine"), NewDestinationCaller: Structured32(5)}
					} else {
						m = &ct.MsgReplaceDepositForBurn{From: Bech(b), OriginalMessage: depEm.Original, OriginalAttestation: e.Attest(depEm.Original, idx%3),
							NewDestinationCaller: Structured32(5), NewMintRecipient: Structured32(6)}
					}
					r := e.Exec(Tx{Msgs: msgs1(m), Note: fmt.Sprintf("near submitters: %s replaced by an address differing from the owner's in bytes %d and %d (%s)", which, i, j, name)})
					rc.Cov.Cell("near_submitters", fmt.Sprintf("%s/%s/distance-%d/%s", which, name, j-i, okWord(r.OK)))
				}
			}
		}
	}
	control("after")
}

func prodShards(t string) int { return map[string]int{"quick": 4, "thorough": 16}[t] }

func cellSum(m map[string]int, pred func(string) bool) int {
	n := 0
	for k, v := range m {
		if pred(k) {
			n += v
		}
	}
	return n
}

func init() {
	Register(&Check{
		ID: "C05", Level: "exploration",
		Rule:   "producer histories (deposits in both variants at balance/limit boundaries, sends, replacements of every class, every failure kind incl. failures after the burn) on real-keeper and ledger-double chains; oracles: per successful tx the Transfer/Burn requests equal (depositor -> module, amount, minting denom), ledger deltas of every universe account, the module account and supply equal the documented ones, module account is empty after every tx, MessageSent sender = module for deposits / padded submitter for sends, replacements match an earlier emitted message; conservation: supply destroyed = sum of burn-message amounts. distinct = (model state, tx shape, outcome).",
		Shards: prodShards,
		Run:    func(rc *RunCtx) { prodCampaign(rc, rc.Pick(4, 10), rc.Pick(1200, 3000)) },
		Floors: func(c *Cov, tier string) []string {
			var miss []string
			dep := cellSum(c.Matrix["producer_steps"], func(k string) bool { return strings.HasPrefix(k, "deposit/ok") })
			rep := cellSum(c.Matrix["producer_steps"], func(k string) bool { return strings.HasPrefix(k, "replace:") && strings.HasSuffix(k, "/ok") })
			late := c.Matrix["late_failures"]["deposit-failed-after-burn"]
			if dep < 300 || rep < 100 || late < 30 {
				miss = append(miss, fmt.Sprintf("successful deposits %d (>=300), successful replacements %d (>=100), failed deposits after the burn %d (>=30)", dep, rep, late))
			}
			return miss
		},
	})
	Register(&Check{
		ID: "C06", Level: "exploration",
		Rule:   "producer histories as C05; oracles: every MessageSent is decoded by the independent reference codec and compared field by field with the request (version, domains, response nonce, padded sender, recipient / registered messenger, destination caller, body; burn body: version, keccak(lower denom), mint recipient, amount, padded depositor); the DepositForBurn event is compared with the request and, for replacements, its burn token with the original deposit's event. distinct = (model state, tx shape, outcome).",
		Shards: prodShards,
		Run:    func(rc *RunCtx) { prodCampaign(rc, rc.Pick(4, 10), rc.Pick(1200, 3000)) },
		Floors: func(c *Cov, tier string) []string {
			var miss []string
			for _, f := range []string{"version", "source-domain", "destination-domain", "nonce", "sender", "recipient", "destination-caller", "body.amount", "body.burn-token", "body.mint-recipient", "body.message-sender"} {
				if c.Assertions["C06.field."+f] < 500 {
					miss = append(miss, fmt.Sprintf("field %s compared %d times", f, c.Assertions["C06.field."+f]))
				}
			}
			if c.Matrix["C06_case_variant_deposits"]["accepted"] < 5 {
				miss = append(miss, fmt.Sprintf("accepted deposits that spell the burn token in another letter case: %d", c.Matrix["C06_case_variant_deposits"]["accepted"]))
			}
			if c.Assertions["C06.depev.replacement-burn-token"] < 50 {
				miss = append(miss, fmt.Sprintf("deposit/replacement event pairs: %d", c.Assertions["C06.depev.replacement-burn-token"]))
			}
			return miss
		},
	})
	Register(&Check{
		ID: "C07", Level: "exploration",
		Rule:   "producer histories from seven starting counters (absent, 0, 1, 2^32-1, 2^32, 2^63, 2^64-200001) interleaving the four producers, both replacements and every failure kind (incl. failures after the nonce was reserved and multi-message transactions rolled back by a later message), restarts; oracles: emitted nonce = response nonce = next consecutive value, NextAvailableNonce query = start + successes after every tx, replacements reuse the original nonce, the counter key is written once per producer message and by nothing else. distinct = (model state incl. counter, tx shape, outcome).",
		Shards: prodShards,
		Run:    func(rc *RunCtx) { prodCampaign(rc, rc.Pick(4, 10), rc.Pick(1200, 3000)) },
		Floors: func(c *Cov, tier string) []string {
			var miss []string
			if len(c.Matrix["C07_starts"]) < 5 {
				miss = append(miss, fmt.Sprintf("starts used: %d", len(c.Matrix["C07_starts"])))
			}
			for _, k := range []string{"SendMessage", "SendMessageWithCaller", "DepositForBurn", "DepositForBurnWithCaller", "ReplaceMessage", "ReplaceDepositForBurn"} {
				if c.Matrix["tx_outcome"][k+"/ok"] == 0 || c.Matrix["tx_outcome"][k+"/fail"] == 0 {
					miss = append(miss, k+" not seen both succeeding and failing")
				}
			}
			return miss
		},
	})
	Register(&Check{
		ID: "C09", Level: "exploration",
		Rule:   "producer histories with replacements of 13 original classes (own / someone else's / unattested / attested by a since-rotated set / foreign-domain / forged module message / module message through replace-message / user 132-byte message through replace-deposit / odd new caller and recipient shapes) under all flag states and attester rotations; oracles: outcome per the reference model, decoded replacement vs decoded original restricted to the allowed fields, raw dump of all four stores unchanged, zero ledger requests, counter untouched. distinct = (model state, tx shape, outcome).",
		Shards: prodShards,
		Run: func(rc *RunCtx) {
			prodCampaign(rc, rc.Pick(4, 10), rc.Pick(1200, 3000))
			thresholdAboveSet(rc)
			c09NearSubmitters(rc)
		},
		Floors: func(c *Cov, tier string) []string {
			var miss []string
			ok := 0
			if c.Matrix["near_submitters"]["control/after/message/succeeded"] == 0 || c.Matrix["near_submitters"]["control/after/deposit/succeeded"] == 0 || len(c.Matrix["near_submitters"]) < 100 {
				miss = append(miss, fmt.Sprintf("near-submitter replacements: %d cells, owner controls %d/%d", len(c.Matrix["near_submitters"]),
					c.Matrix["near_submitters"]["control/after/message/succeeded"], c.Matrix["near_submitters"]["control/after/deposit/succeeded"]))
			}
			for _, cls := range ReplacementClasses {
				n := c.Matrix["producer_steps"]["replace:"+cls+"/ok"] + c.Matrix["producer_steps"]["replace:"+cls+"/fail"]
				ok += c.Matrix["producer_steps"]["replace:"+cls+"/ok"]
				if n < 20 {
					miss = append(miss, fmt.Sprintf("original class %s tried %d times", cls, n))
				}
			}
			if ok < 200 {
				miss = append(miss, fmt.Sprintf("successful replacements diffed: %d", ok))
			}
			return miss
		},
	})
}
