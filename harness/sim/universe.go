package sim

import (
	"encoding/binary"
	"math/big"
	"strings"

	"github.com/cosmos/cosmos-sdk/types/address"
	"github.com/cosmos/cosmos-sdk/types/bech32"

	"verif/harness/chain"
	"verif/harness/ref"
)

// Small fixed universes so that collisions and interference actually happen.

const NAccounts = 8

// AcctBytes returns the 20 raw bytes of universe account i: all bytes distinct, so that
// a one-byte shift or a [0:20]/[12:32] confusion is visible.
func AcctBytes(i int) []byte {
	b := make([]byte, 20)
	for j := range b {
		b[j] = byte(0x10*(i+1) + j + 1)
	}
	return b
}

func Bech(b []byte) string {
	s, err := bech32.ConvertAndEncode(chain.Prefix(), b)
	if err != nil {
		panic(err)
	}
	return s
}

func Acct(i int) string { return Bech(AcctBytes(i)) }

// LongAcctBytes: a 32-byte account address (interchain / module-derived accounts have such addresses).
// Its first 20 bytes equal universe account 5's address, its bytes [12:32] equal nobody's.
func LongAcctBytes() []byte {
	b := make([]byte, 32)
	copy(b, AcctBytes(RichIx))
	for j := 20; j < 32; j++ {
		b[j] = byte(0xc0 + j)
	}
	return b
}

func LongAcct() string { return Bech(LongAcctBytes()) }

// VeryLongAcctBytes: a 40-byte account address (the SDK accepts up to 255 bytes).
func VeryLongAcctBytes() []byte {
	b := make([]byte, 40)
	for j := range b {
		b[j] = byte(0x30 + j)
	}
	return b
}

func VeryLongAcct() string { return Bech(VeryLongAcctBytes()) }

// WrapThresholds: values v for which 65*v wraps around 2^32 to something small (65 = signature length).
var WrapThresholds = []uint32{66076420, 66076421, 132152840, 3237744577, 1 << 31, 1<<31 + 1, 0xfffffffe}

// AcctIndex returns the universe index of a bech32 address, or -1.
func AcctIndex(a string) int {
	for i := 0; i < NAccounts; i++ {
		if Acct(i) == a {
			return i
		}
	}
	return -1
}

// validAddr: the SDK accepts a as an account address of this chain's prefix.
func validAddr(a string) bool {
	if len(strings.TrimSpace(a)) == 0 {
		return false
	}
	hrp, bz, err := bech32.DecodeAndConvert(a)
	if err != nil || hrp != chain.Prefix() {
		return false
	}
	return len(bz) > 0 && len(bz) <= 255
}

// addrBytes decodes a valid account address.
func addrBytes(a string) []byte {
	_, bz, err := bech32.DecodeAndConvert(a)
	if err != nil {
		return nil
	}
	return bz
}

var Domains = []uint32{0, 1, 2, 3, 4, 5, 0xffffffff}

// RemoteDomains excludes the local domain 4 (messages from 4 to 4 are still generated as hostile inputs).
var RemoteDomains = []uint32{0, 1, 2, 3, 5, 0xffffffff}

// Tokens: six 32-byte remote tokens; 0/1 differ in one byte (last), 2 is byte-reversed 0,
// 3 differs from 0 only in the first byte, 4 is all 0xff, 5 is a left-padded 20-byte address.
func Token(i int) []byte {
	b := make([]byte, 32)
	for j := range b {
		b[j] = byte(0xa0 + j)
	}
	switch i % 6 {
	case 0:
	case 1:
		b[31] ^= 1
	case 2:
		for l, r := 0, 31; l < r; l, r = l+1, r-1 {
			b[l], b[r] = b[r], b[l]
		}
	case 3:
		b[0] ^= 0x80
	case 4:
		for j := range b {
			b[j] = 0xff
		}
	case 5:
		for j := 0; j < 12; j++ {
			b[j] = 0
		}
	}
	return b
}

const NTokens = 6

var Denoms = []string{"uusdc", "UUSDC", "uUsdc", "uuſdc", "ueure", "uusdc2", "factory/noble1xyz/usdx", "factory%2fnoble1xyz%2fusdx", "u%75sdc", "ibc/AB", "uusdc%20", "uusdc+"}

var HostileNonces = []uint64{0, 1, 2, 255, 256, 0xffffffff, 0x100000000, 0x100000001, 0x2f2f2f2f2f2f2f2f, 1 << 63, ^uint64(0)}

// Messenger returns a structured 32-byte messenger address for a domain.
func Messenger(domain uint32, variant int) []byte {
	b := make([]byte, 32)
	for j := range b {
		b[j] = byte(0x40 + j + variant)
	}
	binary.BigEndian.PutUint32(b[0:4], domain^0x5a5a5a5a)
	return b
}

// Structured32 returns a 32-byte value with a distinct byte at every offset.
func Structured32(tag byte) []byte {
	b := make([]byte, 32)
	for j := range b {
		b[j] = tag + byte(j)*3 + 1
	}
	return b
}

var AttesterPool = ref.KeyPool(10)

func pow2(n uint) *big.Int { return new(big.Int).Lsh(big.NewInt(1), n) }

var (
	Two64  = pow2(64)
	Two128 = pow2(128)
	Two255 = pow2(255)
	Max256 = new(big.Int).Sub(pow2(256), big.NewInt(1))
)

// AmountClasses used by C04/C05/C06.
var AmountClasses = []struct {
	Name string
	V    *big.Int
}{
	{"1", big.NewInt(1)},
	{"small", big.NewInt(9876)},
	{"2^64-1", new(big.Int).Sub(Two64, big.NewInt(1))},
	{"2^64", Two64},
	{"2^64+1", new(big.Int).Add(Two64, big.NewInt(1))},
	{"2^128", Two128},
	{"2^255", Two255},
	{"2^256-1", Max256},
}

func amountClass(v *big.Int) string {
	for _, c := range AmountClasses {
		if c.V.Cmp(v) == 0 {
			return c.Name
		}
	}
	switch {
	case v.Sign() == 0:
		return "0"
	case v.Sign() < 0:
		return "neg"
	case v.BitLen() <= 64:
		return "<2^64"
	case v.BitLen() <= 128:
		return "<2^128"
	default:
		return "<2^256"
	}
}

// Nobody: a well-formed account address that holds no role and no funds (used to build messages that decode
// fine but are refused when executed).
func Nobody() string { return Bech(Structured32(0x99)[:20]) }

// SpecialAccountNames: module names whose (keyless) module accounts exist on Cosmos chains and on Noble; none of
// them holds a CCTP role, so each is just another unauthorised submitter.
var SpecialAccountNames = []string{"authority", "gov", "cctp", "fiat-tokenfactory", "tokenfactory", "bank", "mint", "distribution", "fee_collector",
	"bonded_tokens_pool", "not_bonded_tokens_pool", "transfer", "interchainaccounts", "icahost", "upgrade", "params", "paramauthority", "globalfee",
	"tariff", "consensus", "crisis", "evidence", "feegrant", "group", "slashing", "staking", "authz", "circuit", "forwarding", "aura", "halo", "florin",
	"dollar", "swap", "wormhole", "hyperlane", "ibc", "capability", "packetfowardmiddleware", "router", "admin", "owner", "root", "noble"}

// SpecialAccounts: bech32 addresses of the accounts above plus a few remarkable byte patterns.
func SpecialAccounts() []string {
	var out []string
	for _, n := range SpecialAccountNames {
		out = append(out, Bech(address.Module(n)))
	}
	out = append(out, Bech(make([]byte, 20)), Bech(bytesOf(0xff, 20)), Bech(bytesOf(0, 32)), Bech(address.Module("cctp", []byte("owner"))), Bech(address.Module("authority", []byte{0})))
	return out
}

func bytesOf(b byte, n int) []byte {
	o := make([]byte, n)
	for i := range o {
		o[i] = b
	}
	return o
}

// TinyAcct / HugeAcct: valid account addresses of the shortest and the longest length the SDK accepts.
func TinyAcct() string { return Bech([]byte{0x5a}) }
func HugeAcct() string {
	b := make([]byte, 255)
	for j := range b {
		b[j] = byte(j + 1)
	}
	return Bech(b)
}
