package sim

import (
	"bytes"
	"fmt"
	"math/big"

	ct "github.com/circlefin/noble-cctp/x/cctp/types"

	"verif/harness/chain"
	"verif/harness/ref"
)

// Restart re-opens the chain on the same database (node restart) and checks that nothing moved.
func (e *Engine) Restart() {
	before := e.C.DumpAll()
	hash := append([]byte(nil), e.C.AppHash...)
	n, err := e.C.Restart()
	if err != nil {
		e.Rc.Cov.Inconclusive("restart: " + err.Error())
		return
	}
	e.C = n
	after := e.C.DumpAll()
	e.Rc.Cov.Assert("restart.state-preserved")
	if chain.HashDump(before) != chain.HashDump(after) || !bytes.Equal(hash, e.C.AppHash) {
		e.viol([]string{"C18", "C02"}, "restart", "restart-changed-state", fmt.Sprintf("state differs after restart: %v", chain.DiffDump(before, after)), nil)
	}
	e.prev = after
	e.history = append(e.history, "<restart>")
	e.Rc.Cov.Cell("env_actions", "restart")
}

// ExportImport exports the module genesis and continues on a fresh chain initialised from it.
// Returns the raw cctp store dumps (source, re-imported) for C17's raw round-trip monitor.
func (e *Engine) ExportImport() (src, dst []chain.KV, gs *ct.GenesisState, err error) {
	ctx := e.C.QueryCtx()
	e.C.Store.Phase = "export"
	e.C.Store.Reset()
	gs = exportGenesis(ctx, e.C)
	nw := 0
	for _, op := range e.C.Store.Ops {
		if op.Op == 'S' || op.Op == 'D' {
			nw++
		}
	}
	e.Rc.Cov.Assert("C15.export-writes-nothing")
	if nw > 0 {
		e.viol([]string{"C15"}, "write-set/read-only", "export-wrote", fmt.Sprintf("genesis export performed %d store writes", nw), nil)
	}
	src = e.C.Dump(ct.StoreKey)
	cfg := e.Cfg
	cfg.DB = nil
	cfg.Genesis = gs
	cfg.GenesisJSON = nil
	cfg.Funded = map[string]*big.Int{}
	for a, v := range e.ledgerSnapshot(nil) {
		if a != "<supply>" && v.Sign() > 0 && validAddr(a) {
			cfg.Funded[a] = v
		}
	}
	if e.Cfg.Double {
		cfg.Allowance = e.C.Ledger.Allowance(ctx)
	} else if mn, ok := e.C.FTF.GetMinters(ctx, moduleBech()); ok {
		cfg.Allowance = mn.Allowance.Amount.BigInt()
	}
	n, err := chain.New(cfg)
	if err != nil {
		return src, nil, gs, err
	}
	e.C = n
	e.Cfg = cfg
	e.SumMintReq, e.SumAccepted, e.SumBurnReq, e.SumDeposits = nil, nil, nil, nil // a new ledger baseline starts here
	e.ModuleHeld = nil
	dst = e.C.Dump(ct.StoreKey)
	em, mi, bu, ac := e.M.Emitted, e.M.Minted, e.M.Burned, e.M.AcceptedBurnMsg
	hadPending, pend := e.M.HasPending, e.M.Pending
	before := e.M
	e.M = e.Observe()
	e.M.Emitted, e.M.Minted, e.M.Burned, e.M.AcceptedBurnMsg = em, mi, bu, ac
	e.Rc.Cov.Assert("export-import.semantic-state-preserved")
	for _, df := range compareStates(before, e.M) {
		props := append([]string{"C17"}, compProps[df.Comp]...)
		sig := "export-import-diff:" + df.Comp
		if df.Comp == "pending-owner" {
			sig = "C17:raw-roundtrip:lost-key:pending-owner" // the recorded known finding (same defect seen semantically)
		}
		e.viol(props, "export-import/semantic", sig, fmt.Sprintf("after export -> import into an empty chain the observable %s differs: %s", df.Comp, df.Detail), nil)
	}
	_ = hadPending
	_ = pend
	e.Start, e.Producers = e.M.NextNonce, 0
	e.prev = e.C.DumpAll()
	e.C.Store.Reset()
	e.C.Deps.Reset()
	e.history = append(e.history, "<export-import>")
	e.Rc.Cov.Cell("env_actions", "export-import")
	return src, dst, gs, nil
}

// checkSound: C01 on the transaction path — an accepted receive/replace implies threshold-many
// distinct enabled signers verify (recovery-free oracle).
func (e *Engine) checkSound(tx *Tx, pre *State) {
	keys, junk := pre.EnabledKeys()
	if junk || pre.Threshold < 1 || int(pre.Threshold) > len(pre.Attesters) {
		return
	}
	for _, m := range tx.Msgs {
		var msg, att []byte
		switch x := m.(type) {
		case *ct.MsgReceiveMessage:
			msg, att = x.Message, x.Attestation
		case *ct.MsgReplaceMessage:
			msg, att = x.OriginalMessage, x.OriginalAttestation
		case *ct.MsgReplaceDepositForBurn:
			msg, att = x.OriginalMessage, x.OriginalAttestation
		default:
			continue
		}
		e.Rc.Cov.Assert("C01.tx-accepted-implies-sound")
		if s := ref.SoundSigners(msg, att, keys); s < int(pre.Threshold) {
			e.viol([]string{"C01"}, "attest.sound", "C01:unsound-tx", fmt.Sprintf("transaction accepted with %d distinct enabled signers verifying, threshold %d", s, pre.Threshold), e.caseOf(tx, ""))
		}
	}
}

// Simulate runs a transaction in baseapp's simulation mode (executed on a branch that is discarded).
// It must leave no trace: committed state identical, and - through the model - no effect on later outcomes.
func (e *Engine) Simulate(tx Tx) {
	bz, err := e.C.BuildTx(tx.Msgs...)
	if err != nil {
		return
	}
	before := chain.HashDump(e.C.DumpAll())
	e.C.Store.Phase = "simulate"
	e.Rc.LogCall("SIMULATE %s", trunc(describeTx(&tx), 2000))
	_, _, _ = e.C.App.Simulate(bz)
	e.Rc.LogCall("DONE")
	e.C.Store.Phase = "query"
	e.C.Store.Reset()
	e.C.Deps.Reset()
	e.Rc.Cov.Assert("simulate.leaves-no-trace")
	e.Rc.Cov.Cell("env_actions", "simulate")
	if chain.HashDump(e.C.DumpAll()) != before {
		e.viol([]string{"C15", "C18"}, "simulate", "simulate-changed-state", "a simulated transaction changed committed state", e.caseOf(&tx, ""))
	}
	e.history = append(e.history, "<simulate "+shapeOf(tx.Msgs)+">")
}
