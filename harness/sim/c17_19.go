package sim

import (
	"bytes"
	"encoding/json"
	"fmt"
	"hash/adler32"
	"hash/crc32"
	"hash/fnv"
	"math/big"
	"math/rand"
	"sort"
	"strings"

	sdkmath "cosmossdk.io/math"
	sdk "github.com/cosmos/cosmos-sdk/types"

	"github.com/circlefin/noble-cctp/x/cctp"
	ct "github.com/circlefin/noble-cctp/x/cctp/types"

	"verif/harness/chain"
)

// ---------------------------------------------------------------- C17

// hostileGenesis generates list contents over the small universes so that collisions are frequent.
// collide: which list (0..4) gets a deliberate collision of kind ck (0 exact duplicate, 1 same key other value, 2 near-duplicate that must NOT collide); -1 none.
func hostileGenesis(r *rand.Rand, collide, ck int) *ct.GenesisState {
	gs := ct.DefaultGenesis()
	gs.Owner, gs.AttesterManager, gs.Pauser, gs.TokenController = Acct(r.Intn(NAccounts)), Acct(r.Intn(NAccounts)), Acct(r.Intn(NAccounts)), Acct(r.Intn(NAccounts))
	// attesters (unique strings)
	seenA := map[string]bool{}
	for i := r.Intn(12); i > 0; i-- {
		a := AttesterPool[r.Intn(len(AttesterPool))].Spell(r.Intn(4))
		if !seenA[a] {
			seenA[a] = true
			gs.AttesterList = append(gs.AttesterList, ct.Attester{Attester: a})
		}
	}
	if len(gs.AttesterList) == 0 {
		gs.AttesterList = append(gs.AttesterList, ct.Attester{Attester: AttesterPool[0].Spell(0)})
	}
	seenL := map[string]bool{}
	for i := r.Intn(5); i > 0; i-- {
		d := []string{"uusdc", "UUSDC", "uUsdc", "ueure", "uusdc2"}[r.Intn(5)]
		if !seenL[d] {
			seenL[d] = true
			gs.PerMessageBurnLimitList = append(gs.PerMessageBurnLimitList, ct.PerMessageBurnLimit{Denom: d, Amount: sdkmath.NewInt(int64(r.Intn(1000)))})
		}
	}
	seenP := map[pairKey]bool{}
	for i := r.Intn(40); i > 0; i-- {
		k := pairKey{Domains[r.Intn(len(Domains))], string(Token(r.Intn(NTokens)))}
		if !seenP[k] {
			seenP[k] = true
			gs.TokenPairList = append(gs.TokenPairList, ct.TokenPair{RemoteDomain: k.Domain, RemoteToken: []byte(k.Token), LocalToken: []string{"uusdc", "uUSDC", "ueure"}[r.Intn(3)]})
		}
	}
	seenU := map[nonceKey]bool{}
	for i := r.Intn(40); i > 0; i-- {
		k := nonceKey{Domains[r.Intn(len(Domains))], HostileNonces[r.Intn(len(HostileNonces))]}
		if !seenU[k] {
			seenU[k] = true
			gs.UsedNoncesList = append(gs.UsedNoncesList, ct.Nonce{SourceDomain: k.Domain, Nonce: k.Nonce})
		}
	}
	seenM := map[uint32]bool{}
	for i := r.Intn(8); i > 0; i-- {
		d := Domains[r.Intn(len(Domains))]
		if !seenM[d] {
			seenM[d] = true
			addr := Messenger(d, r.Intn(2))
			// only a genesis file can hold a messenger address that is not 32 bytes wide; it is an entry like any other
			switch w := []int{32, 32, 20, 32, 33, 32, 64, 1, 31, 32, 0}[(len(gs.TokenMessengerList)+len(gs.UsedNoncesList))%11]; {
			case w < 32:
				addr = addr[32-w:]
			case w > 32:
				addr = append(addr, Structured32(byte(d))[:w-32]...)
			}
			gs.TokenMessengerList = append(gs.TokenMessengerList, ct.RemoteTokenMessenger{DomainId: d, Address: addr})
		}
	}
	// optional fields present / absent
	gs.BurningAndMintingPaused = &ct.BurningAndMintingPaused{Paused: r.Intn(2) == 0}
	gs.SendingAndReceivingMessagesPaused = &ct.SendingAndReceivingMessagesPaused{Paused: r.Intn(2) == 0}
	nilSel := r.Intn(8)
	if collide >= 0 {
		nilSel = 7 // the collision cases are judged by their keys alone
	}
	switch nilSel { // sections left out of the file altogether
	case 0:
		gs.BurningAndMintingPaused = nil
	case 1:
		gs.SendingAndReceivingMessagesPaused = nil
	case 2:
		gs.BurningAndMintingPaused, gs.SendingAndReceivingMessagesPaused = nil, nil
	}
	if r.Intn(2) == 0 {
		gs.MaxMessageBodySize = &ct.MaxMessageBodySize{Amount: []uint64{0, 1, 132, 8000, 1 << 40}[r.Intn(5)]}
	}
	if r.Intn(2) == 0 {
		gs.NextAvailableNonce = &ct.Nonce{Nonce: HostileNonces[r.Intn(len(HostileNonces))]}
	}
	if r.Intn(2) == 0 {
		gs.SignatureThreshold = &ct.SignatureThreshold{Amount: uint32(1 + r.Intn(len(gs.AttesterList)))}
	}
	// deliberate collision
	switch collide {
	case 0:
		a := gs.AttesterList[r.Intn(len(gs.AttesterList))]
		switch ck {
		case 0, 1:
			gs.AttesterList = append(gs.AttesterList, a)
		case 2: // another spelling of the same key is a different entry
			for st := 0; st < 4; st++ {
				sp := ""
				for _, k := range AttesterPool {
					for s2 := 0; s2 < 4; s2++ {
						if k.Spell(s2) == a.Attester {
							sp = k.Spell((s2 + 1 + st) % 4)
						}
					}
				}
				if sp != "" && !seenA[sp] {
					gs.AttesterList = append(gs.AttesterList, ct.Attester{Attester: sp})
					break
				}
			}
		}
	case 1:
		if len(gs.PerMessageBurnLimitList) == 0 {
			gs.PerMessageBurnLimitList = append(gs.PerMessageBurnLimitList, ct.PerMessageBurnLimit{Denom: "uusdc", Amount: sdkmath.NewInt(5)})
			seenL["uusdc"] = true
		}
		l := gs.PerMessageBurnLimitList[r.Intn(len(gs.PerMessageBurnLimitList))]
		switch ck {
		case 0:
			gs.PerMessageBurnLimitList = append(gs.PerMessageBurnLimitList, l)
		case 1:
			gs.PerMessageBurnLimitList = append(gs.PerMessageBurnLimitList, ct.PerMessageBurnLimit{Denom: l.Denom, Amount: l.Amount.AddRaw(1)})
		case 2:
			alt := strings.ToUpper(l.Denom)
			if alt == l.Denom {
				alt = strings.ToLower(l.Denom)
			}
			if !seenL[alt] {
				gs.PerMessageBurnLimitList = append(gs.PerMessageBurnLimitList, ct.PerMessageBurnLimit{Denom: alt, Amount: l.Amount})
			}
		}
	case 2:
		if len(gs.TokenPairList) == 0 {
			gs.TokenPairList = append(gs.TokenPairList, ct.TokenPair{RemoteDomain: 0, RemoteToken: Token(0), LocalToken: "uusdc"})
			seenP[pairKey{0, string(Token(0))}] = true
		}
		p := gs.TokenPairList[r.Intn(len(gs.TokenPairList))]
		switch ck {
		case 0:
			gs.TokenPairList = append(gs.TokenPairList, p)
		case 1:
			gs.TokenPairList = append(gs.TokenPairList, ct.TokenPair{RemoteDomain: p.RemoteDomain, RemoteToken: p.RemoteToken, LocalToken: "ueure2"})
		case 2: // same token in another domain
			for _, d := range Domains {
				if !seenP[pairKey{d, string(p.RemoteToken)}] {
					gs.TokenPairList = append(gs.TokenPairList, ct.TokenPair{RemoteDomain: d, RemoteToken: p.RemoteToken, LocalToken: p.LocalToken})
					break
				}
			}
		}
	case 3:
		if r.Intn(2) == 0 {
			// dense: one source domain holding nonces spread over the whole 64-bit range (order-sensitive duplicate
			// detection - sorting, neighbour comparison, subtraction-based comparators - meets its hard cases here)
			d := Domains[r.Intn(len(Domains))]
			gs.UsedNoncesList = nil
			seenU = map[nonceKey]bool{}
			add := func(n uint64) {
				if k := (nonceKey{d, n}); !seenU[k] {
					seenU[k] = true
					gs.UsedNoncesList = append(gs.UsedNoncesList, ct.Nonce{SourceDomain: d, Nonce: n})
				}
			}
			if r.Intn(2) == 0 {
				for _, n := range HostileNonces {
					if r.Intn(4) != 0 {
						add(n)
					}
				}
				for i := 2 + r.Intn(10); i > 0; i-- {
					add(r.Uint64())
					add(uint64(5) + uint64(r.Intn(8))<<61)
				}
			} else { // a handful of values an eighth of the range apart
				base := uint64(r.Intn(9))
				for i := 3 + r.Intn(4); i > 0; i-- {
					add(base + uint64(r.Intn(8))<<61)
				}
			}
		}
		if len(gs.UsedNoncesList) == 0 {
			gs.UsedNoncesList = append(gs.UsedNoncesList, ct.Nonce{SourceDomain: 0, Nonce: 0})
			seenU[nonceKey{0, 0}] = true
		}
		u := gs.UsedNoncesList[r.Intn(len(gs.UsedNoncesList))]
		switch ck {
		case 0, 1:
			gs.UsedNoncesList = append(gs.UsedNoncesList, u)
		case 2: // swapped pair
			k := nonceKey{uint32(u.Nonce), uint64(u.SourceDomain)}
			if !seenU[k] {
				gs.UsedNoncesList = append(gs.UsedNoncesList, ct.Nonce{SourceDomain: k.Domain, Nonce: k.Nonce})
			}
		}
	case 4:
		if len(gs.TokenMessengerList) == 0 {
			gs.TokenMessengerList = append(gs.TokenMessengerList, ct.RemoteTokenMessenger{DomainId: 0, Address: Messenger(0, 0)})
			seenM[0] = true
		}
		m := gs.TokenMessengerList[r.Intn(len(gs.TokenMessengerList))]
		switch ck {
		case 0:
			gs.TokenMessengerList = append(gs.TokenMessengerList, m)
		case 1:
			gs.TokenMessengerList = append(gs.TokenMessengerList, ct.RemoteTokenMessenger{DomainId: m.DomainId, Address: Messenger(m.DomainId, 1)})
		case 2:
			for _, d := range []uint32{6, 7, 8, 256, 1 << 24} {
				if !seenM[d] {
					gs.TokenMessengerList = append(gs.TokenMessengerList, ct.RemoteTokenMessenger{DomainId: d, Address: m.Address})
					break
				}
			}
		}
	}
	r.Shuffle(len(gs.TokenPairList), func(i, j int) { gs.TokenPairList[i], gs.TokenPairList[j] = gs.TokenPairList[j], gs.TokenPairList[i] })
	r.Shuffle(len(gs.UsedNoncesList), func(i, j int) {
		gs.UsedNoncesList[i], gs.UsedNoncesList[j] = gs.UsedNoncesList[j], gs.UsedNoncesList[i]
	})
	return gs
}

var c17Lists = []string{"attesters", "limits", "pairs", "used-nonces", "messengers"}

// collisions reports, per list, whether two entries occupy the same key (the harness's own notion of key).
func collisions(gs *ct.GenesisState) []string {
	var out []string
	a := map[string]int{}
	for _, x := range gs.AttesterList {
		a[x.Attester]++
	}
	l := map[string]int{}
	for _, x := range gs.PerMessageBurnLimitList {
		l[x.Denom]++
	}
	p := map[pairKey]int{}
	for _, x := range gs.TokenPairList {
		p[pairKey{x.RemoteDomain, string(x.RemoteToken)}]++
	}
	u := map[nonceKey]int{}
	for _, x := range gs.UsedNoncesList {
		u[nonceKey{x.SourceDomain, x.Nonce}]++
	}
	m := map[uint32]int{}
	for _, x := range gs.TokenMessengerList {
		m[x.DomainId]++
	}
	chk := func(name string, dup bool) {
		if dup {
			out = append(out, name)
		}
	}
	d := false
	for _, n := range a {
		d = d || n > 1
	}
	chk("attesters", d)
	d = false
	for _, n := range l {
		d = d || n > 1
	}
	chk("limits", d)
	d = false
	for _, n := range p {
		d = d || n > 1
	}
	chk("pairs", d)
	d = false
	for _, n := range u {
		d = d || n > 1
	}
	chk("used-nonces", d)
	d = false
	for _, n := range m {
		d = d || n > 1
	}
	chk("messengers", d)
	return out
}

func multiset(items []string) string {
	s := append([]string(nil), items...)
	sort.Strings(s)
	return strings.Join(s, "\n")
}

func intStr(i sdkmath.Int) string {
	if i.IsNil() {
		return "0"
	}
	return i.String()
}

// genesisLists renders the five keyed lists as multisets of strings.
func genesisLists(gs *ct.GenesisState) map[string]string {
	var a, l, p, u, m []string
	for _, x := range gs.AttesterList {
		a = append(a, x.Attester)
	}
	for _, x := range gs.PerMessageBurnLimitList {
		l = append(l, x.Denom+"="+intStr(x.Amount))
	}
	for _, x := range gs.TokenPairList {
		p = append(p, fmt.Sprintf("%d/%x=%s", x.RemoteDomain, x.RemoteToken, x.LocalToken))
	}
	for _, x := range gs.UsedNoncesList {
		u = append(u, fmt.Sprintf("%d/%d", x.SourceDomain, x.Nonce))
	}
	for _, x := range gs.TokenMessengerList {
		m = append(m, fmt.Sprintf("%d=%x", x.DomainId, x.Address))
	}
	return map[string]string{"attesters": multiset(a), "limits": multiset(l), "pairs": multiset(p), "used-nonces": multiset(u), "messengers": multiset(m)}
}

func genesisScalars(gs *ct.GenesisState) map[string]string {
	out := map[string]string{"owner": gs.Owner, "attester-manager": gs.AttesterManager, "pauser": gs.Pauser, "token-controller": gs.TokenController}
	out["flag-bm"], out["flag-sr"] = "true", "true" // documented default when absent at initialisation
	if gs.BurningAndMintingPaused != nil {
		out["flag-bm"] = fmt.Sprint(gs.BurningAndMintingPaused.Paused)
	}
	if gs.SendingAndReceivingMessagesPaused != nil {
		out["flag-sr"] = fmt.Sprint(gs.SendingAndReceivingMessagesPaused.Paused)
	}
	out["max-body"] = "8000"
	if gs.MaxMessageBodySize != nil {
		out["max-body"] = fmt.Sprint(gs.MaxMessageBodySize.Amount)
	}
	out["next-nonce"] = "0"
	if gs.NextAvailableNonce != nil {
		out["next-nonce"] = fmt.Sprint(gs.NextAvailableNonce.Nonce)
	}
	out["threshold"] = "1"
	if gs.SignatureThreshold != nil {
		out["threshold"] = fmt.Sprint(gs.SignatureThreshold.Amount)
	}
	return out
}

func c17Case(gs *ct.GenesisState) interface{} {
	bz, _ := json.Marshal(gs)
	if len(bz) > 6000 {
		bz = append(bz[:6000], []byte("…")...)
	}
	return string(bz)
}

func runC17(rc *RunCtx) {
	r := rc.Rand
	n := rc.Pick(400, 4000)
	for i := 0; i < n; i++ {
		collide, ck := -1, 0
		if i%2 == 0 {
			collide, ck = (i/2)%5, (i/10)%3
		}
		gs := hostileGenesis(r, collide, ck)
		col := collisions(gs)
		rc.Cov.Evaluations++
		var verr error
		func() {
			defer func() {
				if p := recover(); p != nil {
					verr = fmt.Errorf("panic: %v", p)
					rc.Report(Violation{Props: []string{"C20", "C17"}, Monitor: "crash-tap/recover", Sig: "panic:GenesisState.Validate", Detail: fmt.Sprint(p), Case: c17Case(gs)})
				}
			}()
			verr = gs.Validate()
		}()
		kindName := "none"
		if collide >= 0 {
			kindName = c17Lists[collide] + "/" + []string{"exact-duplicate", "same-key-other-value", "near-duplicate"}[ck]
		}
		rc.Cov.Cell("C17_validate", fmt.Sprintf("%s/collisions=%v/accepted=%v", kindName, len(col) > 0, verr == nil))
		rc.Cov.Distinct(fmt.Sprintf("c17|%s|%v|%v|%d|%d|%d|%d|%d", kindName, len(col) > 0, verr == nil, len(gs.AttesterList), len(gs.PerMessageBurnLimitList), len(gs.TokenPairList), len(gs.UsedNoncesList), len(gs.TokenMessengerList)))
		rc.Cov.Assert("C17.collision-implies-reject")
		if len(col) > 0 && verr == nil {
			rc.Report(Violation{Props: []string{"C17"}, Monitor: "validate/collision", Sig: "C17:validate-accepts-duplicate:" + strings.Join(col, "+"),
				Detail: "Validate accepted a genesis in which two entries of " + strings.Join(col, ", ") + " occupy the same key", Case: c17Case(gs)})
		}
		if len(col) == 0 && verr != nil && collide >= 0 && ck == 2 {
			// near-duplicates must not be treated as collisions (they are distinct keys)
			rc.Report(Violation{Props: []string{"C17"}, Monitor: "validate/collision", Sig: "C17:validate-rejects-distinct-keys:" + c17Lists[collide],
				Detail: "Validate rejected a genesis whose entries all have distinct keys: " + verr.Error(), Case: c17Case(gs)})
		}
		// the node's JSON entry point must judge every legitimate spelling of the file like the struct
		for v := 0; v < 4; v++ {
			if bz, err := GenesisJSON(gs, v); err == nil && jsonCdc() != nil {
				jerr := cctp.AppModuleBasic{}.ValidateGenesis(jsonCdc(), nil, bz)
				rc.Cov.Assert("C17.validate-json-route-agrees")
				rc.Cov.Cell("C17_json_route", fmt.Sprintf("validate/spelling%d/agrees=%v", v, (jerr == nil) == (verr == nil)))
				if (jerr == nil) != (verr == nil) {
					rc.Report(Violation{Props: []string{"C17"}, Monitor: "validate/json-route", Sig: "C17:validate-json-disagrees",
						Detail: fmt.Sprintf("ValidateGenesis(JSON, spelling %d) err=%v but Validate() of the same genesis err=%v: %s", v, jerr, verr, trunc(string(bz), 500)), Case: c17Case(gs)})
				}
			}
		}
		// JSON route used by the node (module.go)
		if i%10 == 0 {
			c0, err := chain.New(chain.Config{Genesis: StdGenesis()})
			if err == nil {
				bz, err := c0.Cdc.MarshalJSON(gs)
				if err == nil {
					jerr := cctp.AppModuleBasic{}.ValidateGenesis(c0.Cdc, nil, bz)
					rc.Cov.Assert("C17.validate-json-route-agrees")
					if (jerr == nil) != (verr == nil) {
						rc.Report(Violation{Props: []string{"C17"}, Monitor: "validate/json-route", Sig: "C17:validate-json-disagrees", Detail: fmt.Sprintf("ValidateGenesis(JSON) err=%v but Validate() err=%v", jerr, verr), Case: c17Case(gs)})
					}
				}
			}
		}
		if verr != nil {
			continue
		}
		// initialise + export
		c, err := chain.New(chain.Config{Genesis: gs})
		if err != nil {
			rc.Cov.Cell("C17_init", "rejected-by-init")
			continue
		}
		rc.Cov.Cell("C17_init", "initialised")
		c.Store.Phase = "export"
		out := exportGenesis(c.QueryCtx(), c)
		wantL, gotL := genesisLists(gs), genesisLists(out)
		rc.Cov.Assert("C17.export-init-multiset")
		for _, name := range c17Lists {
			if wantL[name] != gotL[name] {
				rc.Report(Violation{Props: []string{"C17"}, Monitor: "export-init/multiset", Sig: "C17:export-differs:" + name,
					Detail: fmt.Sprintf("export(init(g)) differs from g in list %s:\n got: %s\nwant: %s", name, trunc(gotL[name], 400), trunc(wantL[name], 400)), Case: c17Case(gs)})
			}
		}
		wantS, gotS := genesisScalars(gs), genesisScalars(out)
		for k, v := range wantS {
			if gotS[k] != v {
				rc.Report(Violation{Props: []string{"C17"}, Monitor: "export-init/scalars", Sig: "C17:export-differs:" + k,
					Detail: fmt.Sprintf("export(init(g)).%s = %q, expected %q (defaults filled in)", k, gotS[k], v), Case: c17Case(gs)})
			}
		}
		rc.Cov.Cell("C17_roundtrips", "generated")
		if i%6 == 3 {
			jsonRouteCheck(rc, gs, out, func() interface{} { return c17Case(gs) })
		}
		// and the re-import reproduces the raw store
		c2, err := chain.New(chain.Config{Genesis: out})
		if err == nil {
			c17Raw(rc, c.Dump(ct.StoreKey), c2.Dump(ct.StoreKey), "generated", gs)
		}
		if i%100 == 1 {
			rc.Cov.Sample(map[string]interface{}{"genesis": c17Case(gs), "collision": kindName, "validate_error": fmt.Sprint(verr)})
		}
	}
	c17SmallOrderings(rc)
	c17DuplicateAtEveryValue(rc)
	c17DuplicateWhateverTheValues(rc)
	if rc.Shard == 0 {
		c17ChecksumCollisions(rc)
	}
	// large states: more entries than any default page size, exported and re-imported
	for big := 0; big < rc.Pick(1, 3); big++ {
		if rc.Shard != big%rc.NShards {
			continue
		}
		e, err := StdEngine(rc, false, false, func(gs *ct.GenesisState, cfg *chain.Config) {
			for i := 0; i < 260; i++ {
				gs.UsedNoncesList = append(gs.UsedNoncesList, ct.Nonce{SourceDomain: uint32(i % 5), Nonce: uint64(i) * 104729})
			}
			for d := uint32(300); d < 420; d++ {
				gs.TokenPairList = append(gs.TokenPairList, ct.TokenPair{RemoteDomain: d, RemoteToken: Token(int(d) % NTokens), LocalToken: "uusdc"})
				gs.TokenMessengerList = append(gs.TokenMessengerList, ct.RemoteTokenMessenger{DomainId: d, Address: Messenger(d, 0)})
			}
		})
		if err != nil {
			rc.Cov.Inconclusive("big state: " + err.Error())
			continue
		}
		for i := 0; i < 40; i++ {
			e.Exec(Tx{Msgs: msgs1(&ct.MsgEnableAttester{From: e.M.AM, Attester: AttesterPool[i%len(AttesterPool)].Spell(i / len(AttesterPool))}), Note: "C17 big state"})
		}
		src, dst, gs, err := e.ExportImport()
		if err == nil {
			c17Raw(rc, src, dst, "large", gs)
			rc.Cov.Cell("C17_roundtrips", "large")
		}
	}
	// reachable states: histories exported every k-th block and imported into an empty chain
	for h := 0; h < rc.Pick(3, 12); h++ {
		e, err := NewHistoryEngine(rc, GenOpts{Unpaused: h%2 == 0}, false, false)
		if err != nil {
			continue
		}
		e.LightQueries = false
		g := NewGen(e)
		for i := 0; i < rc.Pick(400, 1500); i++ {
			tx := g.Next()
			g.Learn(tx, e.Exec(tx))
			if i%20 == 19 {
				src, dst, gs, err := e.ExportImport()
				if err != nil {
					rc.Cov.Inconclusive("export/import of a reachable state: " + err.Error())
					break
				}
				if verr := gs.Validate(); verr != nil {
					rc.Report(Violation{Props: []string{"C17"}, Monitor: "export/validate", Sig: "C17:exported-state-invalid", Detail: "export of a reachable state fails Validate: " + verr.Error(), Case: c17Case(gs)})
				}
				c17Raw(rc, src, dst, "reachable", gs)
				rc.Cov.Cell("C17_roundtrips", "reachable")
			}
		}
	}
}

// c17DuplicateAtEveryValue: for every domain id of sweepDomains (and the same numbers as nonces) a genesis whose
// list holds that key twice (adjacent, and separated by another entry) must be rejected, and the same list without
// the repetition accepted. Duplicate detection does not depend on which number the key is.
func c17DuplicateAtEveryValue(rc *RunCtx) {
	for i, d := range sweepDomains() {
		if i%rc.NShards != rc.Shard {
			continue
		}
		for kind := 0; kind < 4; kind++ {
			for shape := 0; shape < 3; shape++ { // 0 no duplicate, 1 adjacent, 2 separated by a neighbour key
				gs := StdGenesis()
				gs.UsedNoncesList, gs.TokenMessengerList, gs.TokenPairList = nil, nil, nil
				keys := []uint32{d, d ^ 1}
				switch shape {
				case 1:
					keys = []uint32{d, d, d ^ 1}
				case 2:
					keys = []uint32{d, d ^ 1, d}
				}
				for vi, k := range keys {
					switch kind {
					case 0:
						gs.UsedNoncesList = append(gs.UsedNoncesList, ct.Nonce{SourceDomain: 3, Nonce: uint64(k)})
					case 1:
						gs.UsedNoncesList = append(gs.UsedNoncesList, ct.Nonce{SourceDomain: k, Nonce: 77})
					case 2:
						gs.TokenMessengerList = append(gs.TokenMessengerList, ct.RemoteTokenMessenger{DomainId: k, Address: Messenger(k, vi)})
					case 3:
						gs.TokenPairList = append(gs.TokenPairList, ct.TokenPair{RemoteDomain: k, RemoteToken: Token(4), LocalToken: []string{"uusdc", "ueure", "uusdc"}[vi]})
					}
				}
				var verr error
				func() {
					defer func() {
						if p := recover(); p != nil {
							verr = fmt.Errorf("panic: %v", p)
							rc.Report(Violation{Props: []string{"C20", "C17"}, Monitor: "crash-tap/recover", Sig: "panic:GenesisState.Validate", Detail: fmt.Sprint(p), Case: c17Case(gs)})
						}
					}()
					verr = gs.Validate()
				}()
				rc.Cov.Evaluations++
				name := []string{"used-nonces(nonce)", "used-nonces(domain)", "messengers", "pairs"}[kind]
				rc.Cov.Cell("C17_duplicate_at_every_value", fmt.Sprintf("%s/shape=%d/accepted=%v", name, shape, verr == nil))
				rc.Cov.Assert("C17.collision-implies-reject")
				if shape > 0 && verr == nil {
					rc.Report(Violation{Props: []string{"C17"}, Monitor: "validate/collision", Sig: "C17:validate-accepts-duplicate:" + strings.Split(name, "(")[0],
						Detail: fmt.Sprintf("Validate accepted a genesis in which two entries of %s occupy the key %d", name, d), Case: c17Case(gs)})
				}
				if shape == 0 && verr != nil {
					rc.Report(Violation{Props: []string{"C17"}, Monitor: "validate/collision", Sig: "C17:validate-rejects-distinct-keys:" + strings.Split(name, "(")[0],
						Detail: "Validate rejected a genesis whose entries all have distinct keys: " + verr.Error(), Case: c17Case(gs)})
				}
			}
		}
	}
}

// c17DuplicateWhateverTheValues: two entries under one key are a duplicate whatever else they carry - an absent (nil) /
// zero / negative / huge amount, an empty local token, an empty or short address, equal or different values - in either
// order, adjacent or with another entry in between, at the head, in the middle or at the tail of the list; the same
// entries under distinct keys are accepted. Through the struct and through the JSON entry point.
func c17DuplicateWhateverTheValues(rc *RunCtx) {
	if rc.Shard != 1%rc.NShards {
		return
	}
	huge, _ := sdkmath.NewIntFromString("115792089237316195423570985008687907853269984665640564039457584007913129639935")
	amounts := []sdkmath.Int{{}, sdkmath.ZeroInt(), sdkmath.NewInt(100), sdkmath.NewInt(-5), huge}
	texts := []string{"", "uusdc", "UUSDC"}
	addrs := [][]byte{nil, {}, make([]byte, 32), Messenger(0, 0), Messenger(0, 0)[:20]}
	type variant struct {
		name string
		n    int
		put  func(gs *ct.GenesisState, key, val int)
	}
	variants := []variant{
		{"burn-limits", len(amounts), func(gs *ct.GenesisState, key, val int) {
			gs.PerMessageBurnLimitList = append(gs.PerMessageBurnLimitList, ct.PerMessageBurnLimit{Denom: []string{"uusdc", "ueure", "uother"}[key], Amount: amounts[val]})
		}},
		{"pairs", len(texts), func(gs *ct.GenesisState, key, val int) {
			gs.TokenPairList = append(gs.TokenPairList, ct.TokenPair{RemoteDomain: uint32(30 + key), RemoteToken: Token(1), LocalToken: texts[val]})
		}},
		{"messengers", len(addrs), func(gs *ct.GenesisState, key, val int) {
			gs.TokenMessengerList = append(gs.TokenMessengerList, ct.RemoteTokenMessenger{DomainId: uint32(30 + key), Address: addrs[val]})
		}},
	}
	for _, v := range variants {
		for a := 0; a < v.n; a++ {
			for b := 0; b < v.n; b++ {
				for shape := 0; shape < 6; shape++ {
					gs := StdGenesis()
					gs.PerMessageBurnLimitList, gs.TokenPairList, gs.TokenMessengerList = nil, nil, nil
					dup := shape > 0
					switch shape {
					case 0: // distinct keys
						v.put(gs, 0, a)
						v.put(gs, 1, b)
					case 1:
						v.put(gs, 0, a)
						v.put(gs, 0, b)
					case 2:
						v.put(gs, 0, a)
						v.put(gs, 1, (a+1)%v.n)
						v.put(gs, 0, b)
					case 3:
						v.put(gs, 1, 1%v.n)
						v.put(gs, 0, a)
						v.put(gs, 0, b)
					case 4:
						v.put(gs, 1, 1%v.n)
						v.put(gs, 0, a)
						v.put(gs, 2, 2%v.n)
						v.put(gs, 0, b)
					case 5:
						v.put(gs, 0, a)
						v.put(gs, 0, b)
						v.put(gs, 1, 1%v.n)
						v.put(gs, 2, 2%v.n)
					}
					for _, route := range []string{"struct", "json", "json-amount-absent"} {
						var verr error
						var bz []byte
						if route != "struct" {
							func() {
								defer func() { _ = recover() }()
								if jsonCdc() != nil {
									bz, _ = jsonCdc().MarshalJSON(gs)
								}
							}()
							if route == "json-amount-absent" {
								if !strings.Contains(string(bz), `,"amount":"0"`) {
									continue
								}
								bz = []byte(strings.ReplaceAll(string(bz), `,"amount":"0"`, ""))
							}
							if len(bz) == 0 {
								route = "json-unavailable"
							}
						}
						func() {
							defer func() {
								if p := recover(); p != nil {
									verr = fmt.Errorf("panic: %v", p)
									rc.Report(Violation{Props: []string{"C20", "C17"}, Monitor: "crash-tap/recover", Sig: "panic:GenesisState.Validate", Detail: fmt.Sprint(p), Case: c17Case(gs)})
								}
							}()
							switch route {
							case "struct":
								verr = gs.Validate()
							case "json", "json-amount-absent":
								verr = cctp.AppModuleBasic{}.ValidateGenesis(jsonCdc(), nil, bz)
							}
						}()
						if route == "json-unavailable" {
							rc.Cov.Cell("C17_duplicate_whatever_values", v.name+"/json-unavailable")
							continue
						}
						rc.Cov.Evaluations++
						rc.Cov.Assert("C17.collision-implies-reject")
						rc.Cov.Cell("C17_duplicate_whatever_values", fmt.Sprintf("%s/%s/dup=%v/accepted=%v", v.name, route, dup, verr == nil))
						if dup && verr == nil {
							rc.Report(Violation{Props: []string{"C17"}, Monitor: "validate/collision", Sig: "C17:validate-accepts-duplicate:" + v.name,
								Detail: fmt.Sprintf("Validate (%s route) accepted a genesis in which two entries of %s occupy one key (value classes %d and %d, shape %d)", route, v.name, a, b, shape), Case: c17Case(gs)})
						}
						if !dup && verr != nil {
							rc.Report(Violation{Props: []string{"C17"}, Monitor: "validate/collision", Sig: "C17:validate-rejects-distinct-keys:" + v.name,
								Detail: "Validate rejected a genesis whose entries all have distinct keys: " + verr.Error(), Case: c17Case(gs)})
						}
					}
				}
			}
		}
	}
}

// c17SmallOrderings: exhaustive over small lists - every choice of three keys out of eight spread over the whole
// value range, with and without one of them repeated, in every order. Duplicate detection must not depend on the
// order of the list or on how far apart the key values are.
func c17SmallOrderings(rc *RunCtx) {
	v64 := []uint64{0, 5, 5 + 1<<61, 5 + 1<<62, 5 + 1<<63, 5 + 1<<63 + 1<<61, 1 << 63, ^uint64(0)}
	v32 := []uint32{0, 1, 1 << 29, 1 << 30, 1 << 31, 1<<31 + 1<<29, 0xfffffffe, 0xffffffff}
	perms := func(n int) [][]int {
		var out [][]int
		var rec func(cur []int, used []bool)
		rec = func(cur []int, used []bool) {
			if len(cur) == n {
				out = append(out, append([]int(nil), cur...))
				return
			}
			for i := 0; i < n; i++ {
				if !used[i] {
					used[i] = true
					rec(append(cur, i), used)
					used[i] = false
				}
			}
		}
		rec(nil, make([]bool, n))
		return out
	}
	p3, p4 := perms(3), perms(4)
	idx := 0
	for kind := 0; kind < 4; kind++ {
		for a := 0; a < 8; a++ {
			for b := a + 1; b < 8; b++ {
				for c := b + 1; c < 8; c++ {
					idx++
					if idx%rc.NShards != rc.Shard {
						continue
					}
					for dup := -1; dup < 3; dup++ {
						ks := []int{a, b, c}
						ps := p3
						if dup >= 0 {
							ks = append(ks, ks[dup])
							ps = p4
						}
						for _, pm := range ps {
							gs := StdGenesis()
							gs.UsedNoncesList, gs.TokenMessengerList, gs.TokenPairList = nil, nil, nil
							for _, pi := range pm {
								k := ks[pi]
								switch kind {
								case 0:
									gs.UsedNoncesList = append(gs.UsedNoncesList, ct.Nonce{SourceDomain: 3, Nonce: v64[k]})
								case 1:
									gs.UsedNoncesList = append(gs.UsedNoncesList, ct.Nonce{SourceDomain: v32[k], Nonce: 1 << 63})
								case 2:
									gs.TokenMessengerList = append(gs.TokenMessengerList, ct.RemoteTokenMessenger{DomainId: v32[k], Address: Messenger(v32[k], 0)})
								case 3:
									gs.TokenPairList = append(gs.TokenPairList, ct.TokenPair{RemoteDomain: v32[k], RemoteToken: Token(4), LocalToken: "uusdc"})
								}
							}
							var verr error
							func() {
								defer func() {
									if p := recover(); p != nil {
										verr = fmt.Errorf("panic: %v", p)
										rc.Report(Violation{Props: []string{"C20", "C17"}, Monitor: "crash-tap/recover", Sig: "panic:GenesisState.Validate", Detail: fmt.Sprint(p), Case: c17Case(gs)})
									}
								}()
								verr = gs.Validate()
							}()
							rc.Cov.Evaluations++
							name := []string{"used-nonces(nonce)", "used-nonces(domain)", "messengers", "pairs"}[kind]
							rc.Cov.Cell("C17_small_orderings", fmt.Sprintf("%s/duplicate=%v/accepted=%v", name, dup >= 0, verr == nil))
							rc.Cov.Assert("C17.collision-implies-reject")
							if dup >= 0 && verr == nil {
								rc.Report(Violation{Props: []string{"C17"}, Monitor: "validate/collision", Sig: "C17:validate-accepts-duplicate:" + strings.Split(name, "(")[0],
									Detail: "Validate accepted a genesis in which two entries of " + name + " occupy the same key (small list, specific order)", Case: c17Case(gs)})
							}
							if dup < 0 && verr != nil {
								rc.Report(Violation{Props: []string{"C17"}, Monitor: "validate/collision", Sig: "C17:validate-rejects-distinct-keys:" + strings.Split(name, "(")[0],
									Detail: "Validate rejected a genesis whose entries all have distinct keys: " + verr.Error(), Case: c17Case(gs)})
							}
						}
					}
				}
			}
		}
	}
}

// c17ChecksumCollisions: lists of the shape [A, B, A'] where A and A' occupy the same key and B occupies another key
// whose 32-bit checksum (under the usual non-cryptographic hashes) equals A's. Duplicate detection that indexes
// entries by a short checksum of the key instead of the key must still see the duplicate.
func c17ChecksumCollisions(rc *RunCtx) {
	hashes := map[string]func([]byte) uint32{
		"crc32-ieee":       crc32.ChecksumIEEE,
		"crc32-castagnoli": func(b []byte) uint32 { return crc32.Checksum(b, crc32.MakeTable(crc32.Castagnoli)) },
		"crc32-koopman":    func(b []byte) uint32 { return crc32.Checksum(b, crc32.MakeTable(crc32.Koopman)) },
		"fnv32":            func(b []byte) uint32 { h := fnv.New32(); h.Write(b); return h.Sum32() },
		"fnv32a":           func(b []byte) uint32 { h := fnv.New32a(); h.Write(b); return h.Sum32() },
		"adler32":          adler32.Checksum,
	}
	names := make([]string, 0, len(hashes))
	for n := range hashes {
		names = append(names, n)
	}
	sort.Strings(names)
	for _, hn := range names {
		h := hashes[hn]
		for _, withSep := range []bool{true, false} {
			// used nonces: keys (domain 7, nonce i)
			seen := map[uint32]uint64{}
			var a, b uint64
			found := false
			for i := uint64(1); i < 400000 && !found; i++ {
				k := ct.UsedNonceKey(i*2654435761%1000003+i<<20, 7)
				if !withSep {
					k = k[:len(k)-1]
				}
				s := h(k)
				if j, ok := seen[s]; ok {
					a, b, found = j, i, true
				}
				seen[s] = i
			}
			if !found {
				continue
			}
			na, nb := a*2654435761%1000003+a<<20, b*2654435761%1000003+b<<20
			for _, shape := range [][]uint64{{na, nb, na}, {nb, na, nb}, {na, nb, nb, na}} {
				gs := StdGenesis()
				gs.UsedNoncesList = nil
				for _, n := range shape {
					gs.UsedNoncesList = append(gs.UsedNoncesList, ct.Nonce{SourceDomain: 7, Nonce: n})
				}
				verr := gs.Validate()
				rc.Cov.Evaluations++
				rc.Cov.Assert("C17.collision-implies-reject")
				rc.Cov.Cell("C17_checksum_collisions", fmt.Sprintf("used-nonces/%s/sep=%v/accepted=%v", hn, withSep, verr == nil))
				if verr == nil {
					rc.Report(Violation{Props: []string{"C17"}, Monitor: "validate/collision", Sig: "C17:validate-accepts-duplicate:used-nonces",
						Detail: fmt.Sprintf("Validate accepted a used-nonce list with a duplicated entry separated by an entry whose key has the same %s checksum", hn), Case: c17Case(gs)})
				}
			}
			// attesters: keys are the identifier strings
			seenA := map[uint32]int{}
			ai, bi, foundA := 0, 0, false
			mk := func(i int) string { return fmt.Sprintf("0x04%0128x", uint64(i)*0x9e3779b97f4a7c15) }
			for i := 1; i < 400000 && !foundA; i++ {
				k := ct.AttesterKey([]byte(mk(i)))
				if !withSep {
					k = k[:len(k)-1]
				}
				s := h(k)
				if j, ok := seenA[s]; ok {
					ai, bi, foundA = j, i, true
				}
				seenA[s] = i
			}
			if foundA {
				gs := StdGenesis()
				gs.AttesterList = []ct.Attester{{Attester: mk(ai)}, {Attester: mk(bi)}, {Attester: mk(ai)}}
				gs.SignatureThreshold = &ct.SignatureThreshold{Amount: 1}
				verr := gs.Validate()
				rc.Cov.Evaluations++
				rc.Cov.Cell("C17_checksum_collisions", fmt.Sprintf("attesters/%s/sep=%v/accepted=%v", hn, withSep, verr == nil))
				if verr == nil {
					rc.Report(Violation{Props: []string{"C17"}, Monitor: "validate/collision", Sig: "C17:validate-accepts-duplicate:attesters",
						Detail: fmt.Sprintf("Validate accepted an attester list with a duplicated entry separated by an entry whose key has the same %s checksum", hn), Case: c17Case(gs)})
				}
			}
		}
	}
}

// c17Raw: raw key/value equality of the module store between source and re-imported chain.
func c17Raw(rc *RunCtx, src, dst []chain.KV, origin string, gs *ct.GenesisState) {
	rc.Cov.Assert("C17.raw-roundtrip")
	ms, md := map[string][]byte{}, map[string][]byte{}
	for _, kv := range src {
		ms[string(kv.K)] = kv.V
	}
	for _, kv := range dst {
		md[string(kv.K)] = kv.V
	}
	for k, v := range ms {
		w, ok := md[k]
		if !ok {
			rc.Report(Violation{Props: []string{"C17"}, Monitor: "raw-roundtrip", Sig: "C17:raw-roundtrip:lost-key:" + keyClass(k),
				Detail: fmt.Sprintf("init(export(state)) lost the stored entry %q (%s state)", k, origin), Case: c17Case(gs)})
		} else if !bytes.Equal(v, w) {
			rc.Report(Violation{Props: []string{"C17"}, Monitor: "raw-roundtrip", Sig: "C17:raw-roundtrip:changed-key:" + keyClass(k),
				Detail: fmt.Sprintf("init(export(state)) changed the stored entry %q: %x -> %x", k, v, w), Case: c17Case(gs)})
		}
	}
	for k := range md {
		if _, ok := ms[k]; !ok {
			rc.Report(Violation{Props: []string{"C17"}, Monitor: "raw-roundtrip", Sig: "C17:raw-roundtrip:extra-key:" + keyClass(k),
				Detail: fmt.Sprintf("init(export(state)) created an entry %q that the source state did not have", k), Case: c17Case(gs)})
		}
	}
}

// keyClass: the collection part of a raw key (up to the first '/'), or the whole key for the role slots.
func keyClass(k string) string {
	if i := strings.Index(k, "/"); i > 0 {
		return k[:i]
	}
	return k
}

// ---------------------------------------------------------------- C19

// c19KeyValueSweep: for every domain id of sweepDomains the same life cycle on the two registries keyed by it: add a
// messenger (ok), add it again (refused), link a token pair (ok), again (refused), unlink (ok), again (refused), remove
// the messenger (ok), again (refused) - with the single-item queries after each step and the full comparison at the
// end. Registries behave alike at every key value.
func c19KeyValueSweep(rc *RunCtx) {
	e, err := StdEngine(rc, false, false, func(gs *ct.GenesisState, cfg *chain.Config) {
		gs.TokenPairList, gs.TokenMessengerList = nil, nil
	})
	if err != nil {
		rc.Cov.Inconclusive("key value sweep: " + err.Error())
		return
	}
	e.LightQueries = true
	step := func(m sdk.Msg, kind string) {
		r := e.Exec(Tx{Msgs: msgs1(m), Note: "C19 key value sweep: " + kind})
		rc.Cov.Cell("C19_key_value_sweep", kind+"/"+okWord(r.OK))
	}
	for i, d := range sweepDomains() {
		if i%rc.NShards != rc.Shard {
			continue
		}
		step(&ct.MsgAddRemoteTokenMessenger{From: e.M.Owner, DomainId: d, Address: Messenger(d, 0)}, "messenger-add")
		step(&ct.MsgAddRemoteTokenMessenger{From: e.M.Owner, DomainId: d, Address: Messenger(d, 1)}, "messenger-add-again")
		step(&ct.MsgLinkTokenPair{From: e.M.TC, RemoteDomain: d, RemoteToken: Token(int(d) % NTokens), LocalToken: "uusdc"}, "pair-link")
		step(&ct.MsgLinkTokenPair{From: e.M.TC, RemoteDomain: d, RemoteToken: Token(int(d) % NTokens), LocalToken: "ueure"}, "pair-link-again")
		if i%5 == 0 {
			e.FullQueryCheck(nil, []uint64{2, 7})
		}
		if i%3 != 0 { // two thirds are taken out again, one third stays (so the registries grow past a page)
			step(&ct.MsgUnlinkTokenPair{From: e.M.TC, RemoteDomain: d, RemoteToken: Token(int(d) % NTokens), LocalToken: "uusdc"}, "pair-unlink")
			step(&ct.MsgUnlinkTokenPair{From: e.M.TC, RemoteDomain: d, RemoteToken: Token(int(d) % NTokens), LocalToken: "uusdc"}, "pair-unlink-again")
			step(&ct.MsgRemoveRemoteTokenMessenger{From: e.M.Owner, DomainId: d}, "messenger-remove")
			step(&ct.MsgRemoveRemoteTokenMessenger{From: e.M.Owner, DomainId: d}, "messenger-remove-again")
		}
	}
	e.FullQueryCheck(nil, []uint64{1, 3, 10, 100})
}

// c19ScalarSweep: the two owner / manager controlled scalars walked through their value classes by transactions - the
// maximum message body size through 0, 1, the burn-message size and its neighbours, the default, 2^32, 2^63, 2^64-1 and
// back, the signature threshold through 1..n and back - with the state tap (queries, export, raw store against the model)
// after every step and a send whose body is one byte long in between. A stored zero is a stored value.
func c19ScalarSweep(rc *RunCtx) {
	if rc.Shard != 2%rc.NShards {
		return
	}
	e, err := StdEngine(rc, false, false, nil)
	if err != nil {
		rc.Cov.Inconclusive("c19 scalar sweep engine: " + err.Error())
		return
	}
	s := e.M
	for i, v := range []uint64{0, 1, 0, 131, 132, 133, 8000, 0, 1 << 32, 1 << 63, ^uint64(0), 0, 5} {
		r := e.Exec(Tx{Msgs: msgs1(&ct.MsgUpdateMaxMessageBodySize{From: s.Owner, MessageSize: v}), Note: fmt.Sprintf("C19 scalar sweep: max message body size %d", v)})
		rc.Cov.Cell("C19_scalar_sweep", "max-body/"+okWord(r.OK))
		r2 := e.Exec(Tx{Msgs: msgs1(&ct.MsgSendMessage{From: Acct(UserIx), DestinationDomain: 2, Recipient: Structured32(3), MessageBody: []byte{byte(i + 1)}}), Note: fmt.Sprintf("C19 scalar sweep: a one-byte body under max size %d", v)})
		rc.Cov.Cell("C19_scalar_sweep", fmt.Sprintf("send-one-byte/max=%d/%s", v, okWord(r2.OK)))
	}
	n := uint32(len(s.Attesters))
	for _, t := range []uint32{1, n, 1, 2, n - 1, n, 1} {
		if t == 0 || t > n {
			continue
		}
		r := e.Exec(Tx{Msgs: msgs1(&ct.MsgUpdateSignatureThreshold{From: s.AM, Amount: t}), Note: fmt.Sprintf("C19 scalar sweep: signature threshold %d", t)})
		rc.Cov.Cell("C19_scalar_sweep", "threshold/"+okWord(r.OK))
	}
}

func runC19(rc *RunCtx) {
	r := rc.Rand
	c19KeyValueSweep(rc)
	c19ScalarSweep(rc)
	if rc.Shard == 1%rc.NShards {
		attesterIdentifierStructure(rc, "C19_identifier_structure")
	}
	// (1) registry-heavy histories with a full query comparison after every transaction
	for h := 0; h < rc.Pick(2, 8); h++ {
		e, err := StdEngine(rc, false, false, func(gs *ct.GenesisState, cfg *chain.Config) {
			if h%2 == 1 {
				gs.TokenPairList, gs.TokenMessengerList, gs.UsedNoncesList = nil, nil, nil
			}
		})
		if err != nil {
			rc.Cov.Inconclusive(err.Error())
			continue
		}
		op := func(m sdk.Msg, kind string) {
			rep := e.Exec(Tx{Msgs: msgs1(m), Note: "C19 " + kind})
			rc.Cov.Cell("C19_ops", kind+"/"+map[bool]string{true: "ok", false: "fail"}[rep.OK])
		}
		nonce := uint64(r.Intn(5))
		steps := rc.Pick(260, 900)
		// entries are keyed by domain only: one and the same messenger address (and one and the same remote token, local
		// token, nonce) registered under several domains are several independent entries
		for pass := 0; pass < 2; pass++ {
			for _, d := range Domains {
				if _, ex := e.M.Messengers[d]; ex {
					op(&ct.MsgRemoveRemoteTokenMessenger{From: e.M.Owner, DomainId: d}, "messenger-remove")
				}
				op(&ct.MsgAddRemoteTokenMessenger{From: e.M.Owner, DomainId: d, Address: Messenger(0x77, pass)}, "messenger-add-shared-address")
				if _, ex := e.M.Pairs[pairKey{d, string(Token(4))}]; !ex {
					op(&ct.MsgLinkTokenPair{From: e.M.TC, RemoteDomain: d, RemoteToken: Token(4), LocalToken: "uusdc"}, "pair-add-shared-token")
				}
			}
			e.FullQueryCheck(nil, []uint64{1, 2, 3})
		}
		// another byte spelling of a registered remote token (the bare 20-byte address of a padded word, the word padded
		// further, cut, or with its padding on the right) is another key: requests naming it leave the registered pair alone
		for _, d := range []uint32{0, 1} {
			if _, ex := e.M.Pairs[pairKey{d, string(Token(5))}]; !ex {
				op(&ct.MsgLinkTokenPair{From: e.M.TC, RemoteDomain: d, RemoteToken: Token(5), LocalToken: "uusdc"}, "pair-add")
			}
			w := Token(5)
			for _, alt := range [][]byte{w[12:], append(make([]byte, 12), w...), w[1:], append(append([]byte(nil), w[12:]...), make([]byte, 12)...), append(append([]byte(nil), w...), 0)} {
				op(&ct.MsgLinkTokenPair{From: e.M.TC, RemoteDomain: d, RemoteToken: alt, LocalToken: "ueure"}, "pair-add-other-spelling-of-a-registered-token")
				op(&ct.MsgUnlinkTokenPair{From: e.M.TC, RemoteDomain: d, RemoteToken: alt, LocalToken: "uusdc"}, "pair-remove-other-spelling-of-a-registered-token")
			}
			e.FullQueryCheck(nil, []uint64{1, 2, 3})
		}
		for i := 0; i < steps; i++ {
			switch r.Intn(11) {
			case 0, 1:
				d, t := Domains[r.Intn(len(Domains))], Token(r.Intn(NTokens))
				_, ex := e.M.Pairs[pairKey{d, string(t)}]
				op(&ct.MsgLinkTokenPair{From: e.M.TC, RemoteDomain: d, RemoteToken: t, LocalToken: []string{"uusdc", "UUSDC", "ueure"}[r.Intn(3)]}, map[bool]string{true: "pair-dup", false: "pair-add"}[ex])
			case 2:
				d, t := Domains[r.Intn(len(Domains))], Token(r.Intn(NTokens))
				cur, ex := e.M.Pairs[pairKey{d, string(t)}]
				if !ex {
					cur = "uusdc"
				}
				op(&ct.MsgUnlinkTokenPair{From: e.M.TC, RemoteDomain: d, RemoteToken: t, LocalToken: cur}, map[bool]string{true: "pair-remove", false: "pair-remove-missing"}[ex])
			case 3, 4:
				d := Domains[r.Intn(len(Domains))]
				_, ex := e.M.Messengers[d]
				op(&ct.MsgAddRemoteTokenMessenger{From: e.M.Owner, DomainId: d, Address: Messenger(d, r.Intn(3))}, map[bool]string{true: "messenger-dup", false: "messenger-add"}[ex])
			case 5:
				d := Domains[r.Intn(len(Domains))]
				_, ex := e.M.Messengers[d]
				op(&ct.MsgRemoveRemoteTokenMessenger{From: e.M.Owner, DomainId: d}, map[bool]string{true: "messenger-remove", false: "messenger-remove-missing"}[ex])
			case 6:
				a := AttesterPool[r.Intn(len(AttesterPool))].Spell(r.Intn(4))
				op(&ct.MsgEnableAttester{From: e.M.AM, Attester: a}, map[bool]string{true: "attester-dup", false: "attester-add"}[e.M.Attesters[a]])
			case 7:
				a := AttesterPool[r.Intn(len(AttesterPool))].Spell(r.Intn(4))
				op(&ct.MsgDisableAttester{From: e.M.AM, Attester: a}, map[bool]string{true: "attester-remove", false: "attester-remove-missing"}[e.M.Attesters[a]])
			case 8:
				d := []string{"uusdc", "UUSDC", "uUsdc", "ueure", "uusdc2", "factory/noble1xyz/usdx", "factory%2fnoble1xyz%2fusdx", "u%75sdc", "ibc/AB", "uusdc%20", "uusdc+"}[r.Intn(11)]
				if r.Intn(5) == 0 {
					op(SetMaxAbsentAmount(e.M.TC, d), "limit-set-amount-absent")
				} else {
					op(&ct.MsgSetMaxBurnAmountPerMessage{From: e.M.TC, LocalToken: d, Amount: mkInt(big.NewInt(int64(r.Intn(100))))}, "limit-set")
				}
			case 9, 10:
				nonce += uint64(r.Intn(3))
				in := &InMsg{Version: 0, Src: Domains[r.Intn(len(Domains))], Dst: 4, Nonce: []uint64{nonce, HostileNonces[r.Intn(len(HostileNonces))]}[r.Intn(2)], Sender: Structured32(1), Recipient: Structured32(2), Caller: make([]byte, 32), Body: []byte("r")}
				raw := in.Bytes()
				ex := e.M.Used[nonceKey{in.Src, in.Nonce}]
				op(&ct.MsgReceiveMessage{From: Acct(UserIx), Message: raw, Attestation: e.Attest(raw, 0)}, map[bool]string{true: "nonce-dup", false: "nonce-add"}[ex])
			}
			if i%4 == 3 {
				var sizes []uint64
				if rc.Thorough() {
					mx := 0
					for _, l := range []int{len(e.M.Attesters), len(e.M.Pairs), len(e.M.Messengers), len(e.M.Used), len(e.M.Limits)} {
						if l > mx {
							mx = l
						}
					}
					for s := 1; s <= mx+1; s++ {
						sizes = append(sizes, uint64(s))
					}
				}
				e.FullQueryCheck(nil, sizes)
			}
			if i%90 == 89 {
				e.Restart()
			}
		}
		rc.Cov.Sample(map[string]interface{}{"registry_sizes": map[string]int{"attesters": len(e.M.Attesters), "pairs": len(e.M.Pairs), "messengers": len(e.M.Messengers), "used": len(e.M.Used), "limits": len(e.M.Limits)},
			"history_tail": e.history[max(0, len(e.history)-8):]})
	}
	ProbeHistory(rc, rc.Pick(200, 800), false)
	// (2) more than 100 entries: the default page limit is crossed
	if rc.Shard == 0 {
		e, err := StdEngine(rc, false, false, func(gs *ct.GenesisState, cfg *chain.Config) {
			for i := 0; i < 130; i++ {
				gs.UsedNoncesList = append(gs.UsedNoncesList, ct.Nonce{SourceDomain: uint32(i % 3), Nonce: uint64(i * 7919)})
			}
		})
		if err == nil {
			for d := uint32(100); d < 225; d++ {
				e.Exec(Tx{Msgs: msgs1(&ct.MsgLinkTokenPair{From: e.M.TC, RemoteDomain: d, RemoteToken: Token(int(d) % NTokens), LocalToken: "uusdc"}), Note: "C19 many pairs"})
			}
			e.FullQueryCheck(nil, []uint64{1, 7, 99, 100, 101, 1000})
			// nil pagination (default limit 100) in key mode must page through everything
			rc.Cov.Extra["n_max"] = float64(len(e.M.Pairs))
			rc.Cov.Cell("C19_big", fmt.Sprintf("pairs=%d,used=%d", len(e.M.Pairs), len(e.M.Used)))
		}
	}
	for h := 0; h < rc.Pick(1, 3); h++ {
		e, err := NewHistoryEngine(rc, GenOpts{RichRegistry: true}, false, false)
		if err == nil {
			RunHistory(e, NewGen(e), rc.Pick(300, 1200), 25)
		}
	}
}

func init() {
	Register(&Check{
		ID: "C17", Level: "exploration",
		Rule:   "generated genesis states over the small universes (lists of 0-40 entries; each of the five keyed lists with exact duplicates, same-key-other-value duplicates and near-duplicates that must not collide; optional fields present/absent): (a) any key collision => Validate (direct and through the node's JSON route) rejects; (b) for accepted states export(init(g)) equals g as multisets per list and in every scalar with the documented defaults; (c) raw key/value equality of the module store between a chain and the chain initialised from its export, for generated states and for reachable states exported every 20th transaction of hostile histories. distinct = (collision kind, collision present, accepted, list sizes).",
		Shards: func(t string) int { return map[string]int{"quick": 4, "thorough": 16}[t] },
		Run:    runC17,
		Floors: func(c *Cov, tier string) []string {
			var miss []string
			if m := c.Matrix["C17_duplicate_whatever_values"]; m["burn-limits/struct/dup=true/accepted=false"] < 100 || m["burn-limits/struct/dup=false/accepted=true"] < 20 || len(m) < 10 {
				miss = append(miss, fmt.Sprintf("duplicates whatever the values: %d cells", len(m)))
			}
			for _, l := range c17Lists {
				for _, k := range []string{"exact-duplicate", "same-key-other-value", "near-duplicate"} {
					n := 0
					for cell, v := range c.Matrix["C17_validate"] {
						if strings.HasPrefix(cell, l+"/"+k+"/") {
							n += v
						}
					}
					if n == 0 {
						miss = append(miss, "no case for "+l+"/"+k)
					}
				}
			}
			if c.Matrix["C17_roundtrips"]["generated"] < 200 || c.Matrix["C17_roundtrips"]["reachable"] < 50 {
				miss = append(miss, fmt.Sprintf("round trips: generated %d, reachable %d", c.Matrix["C17_roundtrips"]["generated"], c.Matrix["C17_roundtrips"]["reachable"]))
			}
			return miss
		},
	})
	Register(&Check{
		ID: "C19", Level: "exploration",
		Rule:   "registry-heavy histories (add / duplicate / remove / remove-missing on attesters, burn limits, token pairs, token messengers, used nonces over keys that differ only in domain, only in one byte, only in case or spelling; restarts) on the real chain; after every transaction the export is compared with reference maps, and every fourth transaction every single-item query over the whole probe pool (present and confusable-absent keys), every paginated list in key and offset mode, forward and reverse, for page sizes {1,2,n,n+1} (quick) / 1..n+1 (thorough) with exactly-once and total checks, and all nine scalar queries; plus collections of more than 100 entries so that the default page limit is crossed. distinct = (list, page size, mode, direction, size) + (model state, tx shape, outcome).",
		Shards: func(t string) int { return map[string]int{"quick": 4, "thorough": 16}[t] },
		Run:    runC19,
		Floors: func(c *Cov, tier string) []string {
			var miss []string
			if m := c.Matrix["C19_scalar_sweep"]; m["max-body/succeeded"] < 13 || m["threshold/succeeded"] < 4 || m["send-one-byte/max=0/failed"] < 4 {
				miss = append(miss, fmt.Sprintf("scalar sweep incomplete: %v", m))
			}
			for _, reg := range []string{"pair", "messenger", "attester", "nonce"} {
				for _, o := range []string{"add", "dup"} {
					if c.Matrix["C19_ops"][reg+"-"+o+"/ok"]+c.Matrix["C19_ops"][reg+"-"+o+"/fail"] == 0 {
						miss = append(miss, reg+"-"+o+" never executed")
					}
				}
			}
			for _, reg := range []string{"pair", "messenger", "attester"} {
				for _, o := range []string{"remove", "remove-missing"} {
					if c.Matrix["C19_ops"][reg+"-"+o+"/ok"]+c.Matrix["C19_ops"][reg+"-"+o+"/fail"] == 0 {
						miss = append(miss, reg+"-"+o+" never executed")
					}
				}
			}
			if v, _ := c.Extra["n_max"].(float64); v < 101 {
				miss = append(miss, "no collection with more than 100 entries walked")
			}
			return miss
		},
	})
}
