package sim

import (
	"bytes"
	"fmt"
	"math/big"
	"sort"
	"strings"

	sdk "github.com/cosmos/cosmos-sdk/types"

	ct "github.com/circlefin/noble-cctp/x/cctp/types"

	"verif/harness/chain"
	"verif/harness/ref"
)

// ProdGen generates outbound traffic (deposits, sends, replacements) that is mostly valid,
// with every documented failure kind mixed in. The engine's monitors judge each step.
type ProdGen struct {
	E *Engine
	G *Gen

	nearN int
	depN  int
}

func (p *ProdGen) bodyOfLen(n int) []byte { return structured(n, byte(n)) }

func (p *ProdGen) bodyLens() []int {
	mx := 8000
	if p.E.M.HasMaxBody && p.E.M.MaxBody < 70000 {
		mx = int(p.E.M.MaxBody)
	}
	l := []int{0, 1, 131, 132, 133}
	if mx > 0 {
		l = append(l, mx-1)
	}
	l = append(l, mx)
	return l
}

func (p *ProdGen) funded() (string, *big.Int) {
	r := p.E.Rc.Rand
	for try := 0; try < 10; try++ {
		i := r.Intn(NAccounts)
		b := p.E.C.Balance(AcctBytes(i), p.E.MintDenom())
		if b.Sign() > 0 {
			return Acct(i), b
		}
	}
	return Acct(RichIx), p.E.C.Balance(AcctBytes(RichIx), p.E.MintDenom())
}

func (p *ProdGen) dstWithMessenger() uint32 {
	var ds []uint32
	for d, a := range p.E.M.Messengers {
		if len(a) == 32 && !ref.IsZero(a) {
			ds = append(ds, d)
		}
	}
	if len(ds) == 0 {
		return 0
	}
	sort.Slice(ds, func(i, j int) bool { return ds[i] < ds[j] })
	return ds[p.E.Rc.Rand.Intn(len(ds))]
}

// ValidDeposit returns a deposit that satisfies every precondition on the current state (if possible).
func (p *ProdGen) ValidDeposit(withCaller bool, amtMode int) sdk.Msg {
	r := p.E.Rc.Rand
	from, bal := p.funded()
	if r.Intn(10) == 0 { // depositors whose address is 32, 40, 1 or 255 bytes long
		from = []string{LongAcct(), VeryLongAcct(), TinyAcct(), HugeAcct()}[r.Intn(4)]
		bal = p.E.C.Balance(addrBytes(from), p.E.MintDenom())
	}
	amt := big.NewInt(int64(1 + r.Intn(1000)))
	switch amtMode {
	case 1: // exactly the balance
		amt = new(big.Int).Set(bal)
	case 2: // amount class (bounded by balance)
		c := AmountClasses[r.Intn(len(AmountClasses))].V
		if c.Cmp(bal) <= 0 {
			amt = new(big.Int).Set(c)
		}
	case 3: // exactly the limit
		if l, ok := p.E.M.Limits[strings.ToLower(p.E.MintDenom())]; ok && l.Sign() > 0 && l.Cmp(bal) <= 0 {
			amt = new(big.Int).Set(l)
		}
	}
	if l, ok := p.E.M.Limits[strings.ToLower(p.E.MintDenom())]; ok && amt.Cmp(l) > 0 {
		amt = new(big.Int).Set(l)
	}
	if amt.Cmp(bal) > 0 {
		amt = new(big.Int).Set(bal)
	}
	if amt.Sign() <= 0 {
		amt = big.NewInt(1)
	}
	dst := p.dstWithMessenger()
	mr := Structured32(byte(r.Intn(250)))
	bt := p.E.MintDenom()
	p.depN++
	switch p.depN % 16 { // the burn token is matched without regard to (ASCII) letter case
	case 5:
		bt = strings.ToUpper(bt)
	case 13:
		b := []byte(bt)
		for i := range b {
			if i%2 == p.depN/16%2 && b[i] >= 'a' && b[i] <= 'z' {
				b[i] -= 32
			}
		}
		bt = string(b)
	}
	if !withCaller {
		return &ct.MsgDepositForBurn{From: from, Amount: mkInt(amt), DestinationDomain: dst, MintRecipient: mr, BurnToken: bt}
	}
	return &ct.MsgDepositForBurnWithCaller{From: from, Amount: mkInt(amt), DestinationDomain: dst, MintRecipient: mr, BurnToken: bt, DestinationCaller: Structured32(byte(1 + r.Intn(250)))}
}

// CraftedBurnSend: a user sends, to the destination's token messenger, a body laid out like a burn
// message naming themselves as depositor (nothing is burnt). Later presented to replace-deposit-for-burn.
func (p *ProdGen) CraftedBurnSend() sdk.Msg {
	r := p.E.Rc.Rand
	from := Acct(r.Intn(NAccounts))
	dst := p.dstWithMessenger()
	body := BurnBody(0, ref.Keccak256([]byte(strings.ToLower(p.E.MintDenom()))), Structured32(byte(r.Intn(200))), new(big.Int).Lsh(big.NewInt(1), uint(20+r.Intn(60))), ref.Pad32(addrBytes(from)))
	return &ct.MsgSendMessage{From: from, DestinationDomain: dst, Recipient: p.E.M.Messengers[dst], MessageBody: body}
}

func (p *ProdGen) ValidSend(withCaller bool) sdk.Msg {
	r := p.E.Rc.Rand
	lens := p.bodyLens()
	body := p.bodyOfLen(lens[r.Intn(len(lens))])
	if p.E.M.HasMaxBody && uint64(len(body)) > p.E.M.MaxBody {
		body = body[:p.E.M.MaxBody]
	}
	dst := Domains[r.Intn(len(Domains))]
	rec := Structured32(byte(1 + r.Intn(250)))
	if !withCaller {
		return &ct.MsgSendMessage{From: Acct(r.Intn(NAccounts)), DestinationDomain: dst, Recipient: rec, MessageBody: body}
	}
	return &ct.MsgSendMessageWithCaller{From: Acct(r.Intn(NAccounts)), DestinationDomain: dst, Recipient: rec, MessageBody: body, DestinationCaller: Structured32(byte(1 + r.Intn(250)))}
}

func (p *ProdGen) emitted(module bool) *Emitted {
	var ns []uint64
	for n, em := range p.E.M.Emitted {
		if em.ByModule == module {
			ns = append(ns, n)
		}
	}
	if len(ns) == 0 {
		return nil
	}
	sort.Slice(ns, func(i, j int) bool { return ns[i] < ns[j] })
	return p.E.M.Emitted[ns[p.E.Rc.Rand.Intn(len(ns))]]
}

// Replacement builds a replacement of class cls; returns nil when no suitable original exists.
func (p *ProdGen) Replacement(cls string) sdk.Msg {
	e, r := p.E, p.E.Rc.Rand
	newCaller := Structured32(byte(1 + r.Intn(250)))
	if r.Intn(4) == 0 {
		newCaller = make([]byte, 32)
	}
	lens := p.bodyLens()
	newBody := p.bodyOfLen(lens[r.Intn(len(lens))])
	if e.M.HasMaxBody && uint64(len(newBody)) > e.M.MaxBody {
		newBody = newBody[:e.M.MaxBody]
	}
	switch cls {
	case "own-message", "others-message", "near-sender-message", "unattested", "rotated-set", "user-132-as-deposit", "new-caller-shapes", "own-message-unchanged", "own-message-body-is-original":
		em := p.emitted(false)
		if em == nil {
			return nil
		}
		orig := em.Original
		if r.Intn(3) == 0 {
			orig = em.Latest
		}
		from := Bech(em.Sender[12:32])
		att := e.Attest(orig, r.Intn(3))
		switch cls {
		case "others-message":
			from = Acct((AcctIndex(from) + 1 + r.Intn(NAccounts-1)) % NAccounts)
		case "near-sender-message":
			from = Bech(p.nearAddress(em.Sender[12:32]))
		case "unattested":
			att = MutateAttestation(r, orig, att, e.EnabledPoolKeys(), int(e.M.Threshold))
		case "rotated-set":
			// signed by keys that are not (all) enabled any more
			var outs []*ref.Key
			for _, k := range AttesterPool {
				en := false
				for _, ek := range e.EnabledPoolKeys() {
					if ek == k {
						en = true
					}
				}
				if !en {
					outs = append(outs, k)
				}
			}
			if len(outs) < int(e.M.Threshold) {
				return nil
			}
			att = ref.HonestAttestation(orig, outs[:e.M.Threshold], 0)
		case "user-132-as-deposit":
			// prefer a user-sent message whose body is a well-formed burn message naming the sender as depositor
			for _, n := range sortedNonces(e.M.Emitted) {
				c := e.M.Emitted[n]
				if !c.ByModule && len(c.Original) == 248 && string(c.Original[216:248]) == string(c.Sender) && r.Intn(2) == 0 {
					orig, from = c.Original, Bech(c.Sender[12:32])
					att = e.Attest(orig, r.Intn(3))
					break
				}
			}
			return &ct.MsgReplaceDepositForBurn{From: from, OriginalMessage: orig, OriginalAttestation: att, NewDestinationCaller: newCaller, NewMintRecipient: Structured32(9)}
		case "own-message-body-is-original":
			// a requested body that is itself message-shaped: the whole original, its header, or its routing prefix + tail
			if len(orig) >= 116 {
				switch r.Intn(4) {
				case 0:
					newBody = append([]byte(nil), orig...)
				case 1:
					newBody = append([]byte(nil), orig[:116]...)
				case 2:
					newBody = append(append(append([]byte(nil), orig[:84]...), Structured32(byte(r.Intn(200)))...), []byte("tail")...)
				default:
					newBody = append([]byte(nil), em.Latest...)
				}
				if e.M.HasMaxBody && uint64(len(newBody)) > e.M.MaxBody {
					newBody = newBody[:e.M.MaxBody]
				}
			}
		case "own-message-unchanged":
			if len(orig) >= 116 {
				newBody, newCaller = append([]byte(nil), orig[116:]...), append([]byte(nil), orig[84:116]...)
			}
		case "new-caller-shapes":
			newCaller = [][]byte{nil, Structured32(1)[:31], append(Structured32(1), 0)}[r.Intn(3)]
		}
		return &ct.MsgReplaceMessage{From: from, OriginalMessage: orig, OriginalAttestation: att, NewMessageBody: newBody, NewDestinationCaller: newCaller}
	case "own-deposit", "others-deposit", "near-depositor-deposit", "deposit-via-replace-message", "deposit-unattested", "new-recipient-shapes", "own-deposit-same-recipient", "own-deposit-unchanged":
		em := p.emitted(true)
		if em == nil || em.Depositor == "" {
			return nil
		}
		orig := em.Original
		if r.Intn(3) == 0 {
			orig = em.Latest
		}
		from := em.Depositor
		att := e.Attest(orig, r.Intn(3))
		mr := Structured32(byte(1 + r.Intn(250)))
		if r.Intn(5) == 0 {
			newCaller = nil // "no destination caller requested"
		}
		switch cls {
		case "others-deposit":
			from = Acct((AcctIndex(from) + 1 + r.Intn(NAccounts-1)) % NAccounts)
		case "near-depositor-deposit":
			from = Bech(p.nearAddress(addrBytes(from)))
		case "deposit-via-replace-message":
			return &ct.MsgReplaceMessage{From: from, OriginalMessage: orig, OriginalAttestation: att, NewMessageBody: newBody, NewDestinationCaller: newCaller}
		case "deposit-unattested":
			att = MutateAttestation(r, orig, att, e.EnabledPoolKeys(), int(e.M.Threshold))
		case "own-deposit-same-recipient", "own-deposit-unchanged":
			// a replacement that keeps the mint recipient of the message it replaces (only the caller changes, or nothing at all)
			if len(orig) == 248 {
				mr = append([]byte(nil), orig[116+36:116+68]...)
				if cls == "own-deposit-unchanged" {
					newCaller = append([]byte(nil), orig[84:116]...)
				}
			}
		case "new-recipient-shapes":
			mr = [][]byte{nil, make([]byte, 32), Structured32(1)[:31], append(Structured32(1), 0), append(Structured32(1), Structured32(2)...), append(append(Structured32(1), Structured32(2)...), Structured32(3)...)}[r.Intn(6)]
		}
		return &ct.MsgReplaceDepositForBurn{From: from, OriginalMessage: orig, OriginalAttestation: att, NewDestinationCaller: newCaller, NewMintRecipient: mr}
	case "attested-crafted-version":
		// honestly attested, never emitted here, and carrying a non-zero header version: whatever is re-emitted has version 0
		from := Acct(r.Intn(NAccounts))
		ver := []uint32{1, 2, 0xffffffff, 0x01000000}[r.Intn(4)]
		if r.Intn(2) == 0 {
			in := &InMsg{Version: ver, Src: 4, Dst: Domains[r.Intn(len(Domains))], Nonce: uint64(r.Intn(50)), Sender: ref.Pad32(addrBytes(from)),
				Recipient: Structured32(4), Caller: make([]byte, 32), Body: []byte("crafted version")}
			raw := in.Bytes()
			return &ct.MsgReplaceMessage{From: from, OriginalMessage: raw, OriginalAttestation: e.Attest(raw, 0), NewMessageBody: newBody, NewDestinationCaller: newCaller}
		}
		dst := p.dstWithMessenger()
		if len(e.M.Messengers[dst]) != 32 {
			return nil
		}
		body := BurnBody(0, ref.Keccak256([]byte(strings.ToLower(e.MintDenom()))), Structured32(5), big.NewInt(int64(1+r.Intn(1000))), ref.Pad32(addrBytes(from)))
		in := &InMsg{Version: ver, Src: 4, Dst: dst, Nonce: uint64(r.Intn(50)), Sender: modulePadded, Recipient: e.M.Messengers[dst], Caller: make([]byte, 32), Body: body}
		raw := in.Bytes()
		return &ct.MsgReplaceDepositForBurn{From: from, OriginalMessage: raw, OriginalAttestation: e.Attest(raw, 0), NewDestinationCaller: Structured32(7), NewMintRecipient: Structured32(6)}
	case "attested-crafted-burn-token":
		// honestly attested module-sent burn message that names another burn token than this chain's (hash of another
		// denom, a hash with leading zero bytes, all-zero): a replacement keeps the token of its original
		from := Acct(r.Intn(NAccounts))
		dst := p.dstWithMessenger()
		if len(e.M.Messengers[dst]) != 32 {
			return nil
		}
		tok := [][]byte{ref.Keccak256([]byte("ueure")), ref.Keccak256([]byte("uusdc496")), make([]byte, 32), append(make([]byte, 31), 7), Structured32(0x33)}[r.Intn(5)]
		body := BurnBody(0, tok, Structured32(5), big.NewInt(int64(1+r.Intn(1000))), ref.Pad32(addrBytes(from)))
		in := &InMsg{Version: 0, Src: 4, Dst: dst, Nonce: uint64(r.Intn(50)), Sender: modulePadded, Recipient: e.M.Messengers[dst], Caller: make([]byte, 32), Body: body}
		raw := in.Bytes()
		return &ct.MsgReplaceDepositForBurn{From: from, OriginalMessage: raw, OriginalAttestation: e.Attest(raw, 0), NewDestinationCaller: Structured32(7), NewMintRecipient: Structured32(6)}
	case "attested-unissued-nonce":
		// an honestly attested message that this chain never emitted, carrying a nonce at / around the counter
		from := Acct(r.Intn(NAccounts))
		n := e.M.NextNonce + uint64(r.Intn(3)) - 1
		in := &InMsg{Version: 0, Src: 4, Dst: Domains[r.Intn(len(Domains))], Nonce: n, Sender: ref.Pad32(addrBytes(from)),
			Recipient: Structured32(4), Caller: make([]byte, 32), Body: []byte("unissued")}
		raw := in.Bytes()
		return &ct.MsgReplaceMessage{From: from, OriginalMessage: raw, OriginalAttestation: e.Attest(raw, 0), NewMessageBody: newBody, NewDestinationCaller: newCaller}
	case "double-fault":
		// two things wrong at once, everything else in order (honestly attested): a foreign source domain AND a sender that
		// is not the submitter (another account, or the module's word with a burn-shaped body naming the submitter or not)
		from := Acct(r.Intn(NAccounts))
		src := RemoteDomains[r.Intn(len(RemoteDomains))]
		p.nearN++
		k := p.nearN
		sender := ref.Pad32(AcctBytes((AcctIndex(from) + 1 + k%(NAccounts-1)) % NAccounts))
		body := []byte("double fault")
		dst := Domains[k%len(Domains)]
		rec := Structured32(4)
		if k%2 == 0 {
			sender = modulePadded
			dep := ref.Pad32(addrBytes(from))
			if k%4 == 0 {
				dep = ref.Pad32(AcctBytes((AcctIndex(from) + 2) % NAccounts))
			}
			body = BurnBody(0, ref.Keccak256([]byte(strings.ToLower(e.MintDenom()))), Structured32(5), big.NewInt(int64(1+k%1000)), dep)
			dst = p.dstWithMessenger()
			if len(e.M.Messengers[dst]) == 32 {
				rec = e.M.Messengers[dst]
			}
		}
		in := &InMsg{Version: 0, Src: src, Dst: dst, Nonce: uint64(k % 50), Sender: sender, Recipient: rec, Caller: make([]byte, 32), Body: body}
		raw := in.Bytes()
		if k%3 == 0 {
			return &ct.MsgReplaceDepositForBurn{From: from, OriginalMessage: raw, OriginalAttestation: e.Attest(raw, 0), NewDestinationCaller: Structured32(7), NewMintRecipient: Structured32(6)}
		}
		return &ct.MsgReplaceMessage{From: from, OriginalMessage: raw, OriginalAttestation: e.Attest(raw, 0), NewMessageBody: newBody, NewDestinationCaller: newCaller}
	case "foreign-domain":
		// an honestly attested inbound-style message (source domain != 4) whose sender names the submitter
		from := Acct(r.Intn(NAccounts))
		in := &InMsg{Version: 0, Src: RemoteDomains[r.Intn(len(RemoteDomains))], Dst: 0, Nonce: uint64(r.Intn(50)), Sender: ref.Pad32(addrBytes(from)),
			Recipient: Structured32(4), Caller: make([]byte, 32), Body: []byte("foreign")}
		raw := in.Bytes()
		return &ct.MsgReplaceMessage{From: from, OriginalMessage: raw, OriginalAttestation: e.Attest(raw, 0), NewMessageBody: newBody, NewDestinationCaller: newCaller}
	case "forged-module-message":
		// never emitted by this chain, so presented with an invalid attestation (the honest service signs only real messages)
		from := Acct(r.Intn(NAccounts))
		body := BurnBody(0, ref.Keccak256([]byte("uusdc")), Structured32(5), big.NewInt(1_000_000), ref.Pad32(addrBytes(from)))
		in := &InMsg{Version: 0, Src: 4, Dst: 0, Nonce: uint64(r.Intn(50)), Sender: modulePadded, Recipient: Messenger(0, 0), Caller: make([]byte, 32), Body: body}
		raw := in.Bytes()
		att := MutateAttestation(r, raw, e.Attest(raw, 0), e.EnabledPoolKeys(), int(e.M.Threshold))
		if ok, _ := e.M.AttOK(raw, att); ok {
			att = att[:len(att)-1]
		}
		return &ct.MsgReplaceDepositForBurn{From: from, OriginalMessage: raw, OriginalAttestation: att, NewDestinationCaller: newCaller, NewMintRecipient: Structured32(6)}
	}
	return nil
}

var ReplacementClasses = []string{"attested-unissued-nonce", "own-message", "others-message", "unattested", "rotated-set", "user-132-as-deposit", "new-caller-shapes",
	"own-deposit", "others-deposit", "deposit-via-replace-message", "deposit-unattested", "new-recipient-shapes", "foreign-domain", "forged-module-message",
	"own-deposit-same-recipient", "own-deposit-unchanged", "own-message-unchanged", "attested-crafted-version", "own-message-body-is-original", "attested-crafted-burn-token",
	"near-sender-message", "near-depositor-deposit", "double-fault"}

// nearAddress returns an address of the same length that differs from a in a small, structured way: one bit, the
// same change in two bytes that sit 1/2/4/8/16 positions apart, a compensating +k/-k pair, two bytes exchanged, the
// bytes reversed or complemented. Whoever it is, it is not the account a names. Kinds are cycled.
func nearAddr(a []byte, k int) []byte {
	b := append([]byte(nil), a...)
	n := len(b)
	if n == 0 {
		return []byte{1}
	}
	i := (k / 12) % n
	mask := []byte{0x01, 0x80, 0xff, 0x5a}[(k/7)%4]
	pair := func(d int) {
		j := (i + d) % n
		if j == i {
			b[i] ^= mask
			return
		}
		b[i] ^= mask
		b[j] ^= mask
	}
	switch k % 12 {
	case 0:
		b[i] ^= mask
	case 1:
		pair(8)
	case 2:
		pair(4)
	case 3:
		pair(16)
	case 4:
		pair(1)
	case 5:
		pair(2)
	case 6:
		j := (i + 8) % n
		if j != i {
			b[i], b[j] = b[i]+mask, b[j]-mask
		} else {
			b[i] += mask
		}
	case 7:
		j := (i + 1 + k%(n)) % n
		b[i], b[j] = b[j], b[i]
	case 8:
		for l, r := 0, n-1; l < r; l, r = l+1, r-1 {
			b[l], b[r] = b[r], b[l]
		}
	case 9:
		for l := range b {
			b[l] = ^b[l]
		}
	case 10:
		// the same change in three lanes
		for d := 0; d < n; d += 8 {
			b[(i+d)%n] ^= mask
		}
	default:
		b[n-1]++
	}
	if bytes.Equal(b, a) {
		b[0] ^= 0x01
	}
	return b
}

func (p *ProdGen) nearAddress(a []byte) []byte {
	p.nearN++
	return nearAddr(a, p.nearN)
}

// FailingProducer returns a producer message that must fail for the named reason.
func (p *ProdGen) FailingProducer(kind string) []sdk.Msg {
	r := p.E.Rc.Rand
	switch kind {
	case "zero-recipient":
		return msgs1(&ct.MsgSendMessage{From: Acct(r.Intn(NAccounts)), DestinationDomain: 0, Recipient: make([]byte, 32), MessageBody: []byte("x")})
	case "oversize-body":
		n := 8001
		if p.E.M.HasMaxBody {
			if p.E.M.MaxBody > 70000 {
				return nil
			}
			n = int(p.E.M.MaxBody) + 1
		}
		if n > 70000 {
			return nil
		}
		return msgs1(&ct.MsgSendMessageWithCaller{From: Acct(r.Intn(NAccounts)), DestinationDomain: 0, Recipient: Structured32(2), MessageBody: make([]byte, n), DestinationCaller: Structured32(3)})
	case "bad-caller-length":
		return msgs1(&ct.MsgSendMessageWithCaller{From: Acct(r.Intn(NAccounts)), DestinationDomain: 0, Recipient: Structured32(2), MessageBody: []byte("x"), DestinationCaller: Structured32(3)[:31]})
	case "deposit-bad-caller-length":
		// a non-empty destination caller that is not 32 bytes long: refused only by the inner send, after the burn
		d := p.ValidDeposit(true, r.Intn(4)).(*ct.MsgDepositForBurnWithCaller)
		zeroHead := append(make([]byte, 32), 0xde, 0xad, 0xbe, 0xef)
		d.DestinationCaller = [][]byte{{7}, Structured32(3)[:20], Structured32(3)[:31], append(Structured32(3), 9), zeroHead, append(Structured32(3), Structured32(4)...), make([]byte, 20), make([]byte, 33)}[r.Intn(8)]
		return msgs1(d)
	case "deposit-lookalike-denom":
		// the burn token is spelled in another letter case and the depositor really holds coins of that spelling
		look := LookalikeFunding()
		dens := []string{"UUSDC", "uUsdc", "Uusdc"}
		dn := dens[r.Intn(len(dens))]
		var holders []string
		for a := range look[dn] {
			holders = append(holders, a)
		}
		sort.Strings(holders)
		d := p.ValidDeposit(false, 0).(*ct.MsgDepositForBurn)
		d.From = holders[r.Intn(len(holders))]
		d.BurnToken = dn
		d.Amount = mkInt(big.NewInt(int64(1 + r.Intn(600))))
		return msgs1(d)
	case "deposit-odd-messenger":
		// the destination's registered messenger is not 32 bytes long (only a genesis file can say so)
		ds := sortedDomains(p.E.M.Messengers)
		for _, i := range r.Perm(len(ds)) {
			d := ds[i]
			if a := p.E.M.Messengers[d]; len(a) != 32 && len(a) > 0 {
				switch x := p.ValidDeposit(r.Intn(2) == 0, 0).(type) {
				case *ct.MsgDepositForBurn:
					x.DestinationDomain = d
					return msgs1(x)
				case *ct.MsgDepositForBurnWithCaller:
					x.DestinationDomain = d
					return msgs1(x)
				}
			}
		}
		return nil
	case "deposit-zero-amount":
		d := p.ValidDeposit(false, 0).(*ct.MsgDepositForBurn)
		d.Amount = mkInt(big.NewInt(0))
		return msgs1(d)
	case "deposit-over-balance":
		d := p.ValidDeposit(true, 1).(*ct.MsgDepositForBurnWithCaller)
		d.Amount = mkInt(new(big.Int).Add(d.Amount.BigInt(), big.NewInt(1)))
		if l, ok := p.E.M.Limits[strings.ToLower(p.E.MintDenom())]; ok && d.Amount.BigInt().Cmp(l) > 0 {
			return nil
		}
		return msgs1(d)
	case "deposit-no-messenger":
		d := p.ValidDeposit(false, 0).(*ct.MsgDepositForBurn)
		for _, dd := range Domains {
			if _, ok := p.E.M.Messengers[dd]; !ok {
				d.DestinationDomain = dd
				return msgs1(d)
			}
		}
		return nil
	case "later-message-fails":
		// a successful producer followed, in the same transaction, by a failing one: the first must be rolled back
		return []sdk.Msg{p.ValidSend(false), &ct.MsgSendMessage{From: Acct(0), DestinationDomain: 0, Recipient: make([]byte, 32), MessageBody: nil}}
	case "deposit-then-failing-message":
		return []sdk.Msg{p.ValidDeposit(false, 0), &ct.MsgUpdateOwner{From: Acct(UserIx), NewOwner: Acct(UserIx)}}
	}
	return nil
}

var FailingProducerKinds = []string{"zero-recipient", "oversize-body", "bad-caller-length", "deposit-bad-caller-length", "deposit-lookalike-denom", "deposit-odd-messenger", "deposit-zero-amount", "deposit-over-balance", "deposit-no-messenger", "later-message-fails", "deposit-then-failing-message"}

// Run drives n steps.
func (p *ProdGen) Run(n int, adminEvery int) {
	e, r := p.E, p.E.Rc.Rand
	rc := e.Rc
	for i := 0; i < n; i++ {
		var msgs []sdk.Msg
		label := ""
		switch k := r.Intn(100); {
		case k < 22:
			msgs, label = msgs1(p.ValidDeposit(r.Intn(2) == 0, r.Intn(4))), "deposit"
		case k < 35:
			msgs, label = msgs1(p.ValidSend(r.Intn(2) == 0)), "send"
		case k < 38:
			msgs, label = msgs1(p.CraftedBurnSend()), "send-crafted-burn-body"
		case k < 66:
			cls := ReplacementClasses[r.Intn(len(ReplacementClasses))]
			if m := p.Replacement(cls); m != nil {
				msgs, label = msgs1(m), "replace:"+cls
			}
		case k < 80:
			kind := FailingProducerKinds[r.Intn(len(FailingProducerKinds))]
			msgs, label = p.FailingProducer(kind), "fail:"+kind
		case k < 84:
			msgs, label = []sdk.Msg{p.ValidSend(false), p.ValidDeposit(true, 0), p.ValidSend(true)}, "multi-producer"
		default:
			tx := p.G.Next()
			msgs, label = tx.Msgs, "hostile"
		}
		if len(msgs) == 0 {
			continue
		}
		tx := Tx{Msgs: msgs, Note: label}
		rep := e.Exec(tx)
		p.G.Learn(tx, rep)
		rc.Cov.Cell("producer_steps", label+"/"+map[bool]string{true: "ok", false: "fail"}[rep.OK])
		if adminEvery > 0 && i%adminEvery == adminEvery-1 {
			// occasional configuration changes: attester rotation, pause toggles, body size, limits
			switch r.Intn(6) {
			case 0:
				e.Exec(Tx{Msgs: msgs1(&ct.MsgPauseSendingAndReceivingMessages{From: e.M.Pauser})})
				e.Exec(Tx{Msgs: msgs1(p.ValidSend(false)), Note: "send while paused"})
				e.Exec(Tx{Msgs: msgs1(p.ValidDeposit(false, 0)), Note: "deposit while send side paused (late failure after the burn)"})
				e.Exec(Tx{Msgs: msgs1(&ct.MsgUnpauseSendingAndReceivingMessages{From: e.M.Pauser})})
			case 1:
				e.Exec(Tx{Msgs: msgs1(&ct.MsgPauseBurningAndMinting{From: e.M.Pauser})})
				e.Exec(Tx{Msgs: msgs1(p.ValidDeposit(true, 0)), Note: "deposit while burn/mint paused"})
				if m := p.Replacement("own-deposit"); m != nil {
					e.Exec(Tx{Msgs: msgs1(m), Note: "replace deposit while burn/mint paused"})
				}
				e.Exec(Tx{Msgs: msgs1(&ct.MsgUnpauseBurningAndMinting{From: e.M.Pauser})})
			case 2:
				sizes := []uint64{131, 132, 133, 8000, 300}
				e.Exec(Tx{Msgs: msgs1(&ct.MsgUpdateMaxMessageBodySize{From: e.M.Owner, MessageSize: sizes[r.Intn(len(sizes))]})})
			case 3:
				lims := []*big.Int{big.NewInt(1), big.NewInt(2), big.NewInt(1000000), Two64, Max256}
				e.Exec(Tx{Msgs: msgs1(&ct.MsgSetMaxBurnAmountPerMessage{From: e.M.TC, LocalToken: []string{"uusdc", "UUSDC"}[r.Intn(2)], Amount: mkInt(lims[r.Intn(len(lims))])})})
			case 4:
				var off []string
				for _, k := range AttesterPool {
					en := false
					for st := 0; st < 4; st++ {
						if e.M.Attesters[k.Spell(st)] {
							en = true
						}
					}
					if !en {
						off = append(off, k.Spell(r.Intn(4)))
					}
				}
				if len(off) > 0 {
					e.Exec(Tx{Msgs: msgs1(&ct.MsgEnableAttester{From: e.M.AM, Attester: off[0]})})
				}
				for _, a := range sortedStrings(e.M.Attesters) {
					e.Exec(Tx{Msgs: msgs1(&ct.MsgDisableAttester{From: e.M.AM, Attester: a})})
					break
				}
			case 5:
				if r.Intn(2) == 0 {
					e.Restart()
				} else {
					// a message from the local domain carrying a nonce at/above the outbound counter is received, then the
					// state goes through an export and an import: outbound numbering must continue where it was
					in := &InMsg{Version: 0, Src: 4, Dst: 4, Nonce: e.M.NextNonce + uint64(r.Intn(4)), Sender: Structured32(0x51), Recipient: Structured32(0x52), Caller: make([]byte, 32), Body: []byte("loop-back")}
					raw := in.Bytes()
					e.Exec(Tx{Msgs: msgs1(&ct.MsgReceiveMessage{From: Acct(UserIx), Message: raw, Attestation: e.Attest(raw, 0)}), Note: "local-domain message received"})
					if _, _, _, err := e.ExportImport(); err != nil {
						rc.Cov.Inconclusive("export/import: " + err.Error())
					}
					e.Exec(Tx{Msgs: msgs1(p.ValidSend(false)), Note: "send after export/import"})
				}
			}
			if r.Intn(3) == 0 {
				// a message sent to the local domain is received here, then replaced by its sender, and both versions are
				// presented again: the pair (4, nonce) stays consumed
				loopBackCycle(e, Acct(r.Intn(NAccounts)), byte(1+r.Intn(200)))
			}
			if r.Intn(3) == 0 { // rotate a destination's token messenger (remove, register another address)
				d := p.dstWithMessenger()
				if _, ok := e.M.Messengers[d]; ok {
					e.Exec(Tx{Msgs: msgs1(&ct.MsgRemoveRemoteTokenMessenger{From: e.M.Owner, DomainId: d}), Note: "messenger rotation"})
					e.Exec(Tx{Msgs: msgs1(&ct.MsgAddRemoteTokenMessenger{From: e.M.Owner, DomainId: d, Address: Messenger(d, 1+r.Intn(3))}), Note: "messenger rotation"})
				}
			}
		}
	}
	rc.Cov.Sample(map[string]interface{}{"producer_history_tail": e.history[max(0, len(e.history)-10):], "next_nonce": fmt.Sprint(e.M.NextNonce)})
}

// NewProdEngine: std chain with a given outbound start and a rich ledger.
func NewProdEngine(rc *RunCtx, double bool, start *uint64, mut func(gs *ct.GenesisState, cfg *chain.Config)) (*Engine, error) {
	return StdEngine(rc, double, false, func(gs *ct.GenesisState, cfg *chain.Config) {
		gs.NextAvailableNonce = nil
		if start != nil {
			gs.NextAvailableNonce = &ct.Nonce{Nonce: *start, SourceDomain: []uint32{0, 4, 0xffffffff, 0, 7}[int(*start%5)]} // the counter is the nonce field
		}
		if mut != nil {
			mut(gs, cfg)
		}
	})
}

func sortedNonces(m map[uint64]*Emitted) []uint64 {
	out := make([]uint64, 0, len(m))
	for n := range m {
		out = append(out, n)
	}
	sort.Slice(out, func(i, j int) bool { return out[i] < out[j] })
	return out
}

// loopBackCycle: a message sent to the local domain is received here, then replaced by its sender, and both versions
// are presented again: the pair (4, nonce) stays consumed whatever happens to the message afterwards.
func loopBackCycle(e *Engine, from string, tag byte) {
	rep := e.Exec(Tx{Msgs: msgs1(&ct.MsgSendMessage{From: from, DestinationDomain: 4, Recipient: Structured32(tag), MessageBody: []byte("loop-back")}), Note: "loop-back: send to the local domain"})
	if !rep.OK || len(rep.Sent) != 1 {
		return
	}
	e.Rc.Cov.Cell("env_actions", "loop-back-cycle")
	orig := rep.Sent[0]
	e.Exec(Tx{Msgs: msgs1(&ct.MsgReceiveMessage{From: Acct(UserIx), Message: orig, Attestation: e.Attest(orig, 0)}), Note: "loop-back: receive"})
	r2 := e.Exec(Tx{Msgs: msgs1(&ct.MsgReplaceMessage{From: from, OriginalMessage: orig, OriginalAttestation: e.Attest(orig, 1), NewMessageBody: []byte("loop-back replaced"), NewDestinationCaller: make([]byte, 32)}), Note: "loop-back: replace after the receive"})
	if r2.OK && len(r2.Sent) == 1 {
		e.Exec(Tx{Msgs: msgs1(&ct.MsgReceiveMessage{From: Acct(OtherIx), Message: r2.Sent[0], Attestation: e.Attest(r2.Sent[0], 0)}), Note: "loop-back: receive the replacement"})
	}
	e.Exec(Tx{Msgs: msgs1(&ct.MsgReceiveMessage{From: Acct(UserIx), Message: orig, Attestation: e.Attest(orig, 2)}), Note: "loop-back: receive the original again"})
}
