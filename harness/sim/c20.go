package sim

import (
	"bytes"
	"context"
	"encoding/hex"
	"fmt"
	"math/big"
	"math/rand"
	"reflect"
	"sort"
	"strings"

	sdkmath "cosmossdk.io/math"
	"github.com/cosmos/cosmos-sdk/client"
	codectypes "github.com/cosmos/cosmos-sdk/codec/types"
	sdk "github.com/cosmos/cosmos-sdk/types"
	"github.com/cosmos/gogoproto/proto"
	"google.golang.org/protobuf/encoding/protowire"

	"github.com/circlefin/noble-cctp/x/cctp/client/cli"
	ct "github.com/circlefin/noble-cctp/x/cctp/types"

	"verif/harness/chain"
	"verif/harness/ref"
)

// ---------------------------------------------------------------- wire-level message generator

type wireField struct {
	Num  protowire.Number
	Kind string // string | bytes | uint32 | uint64 | int
	Name string
}

var allMsgTypes = []proto.Message{
	&ct.MsgUpdateOwner{}, &ct.MsgAcceptOwner{}, &ct.MsgUpdateAttesterManager{}, &ct.MsgUpdatePauser{}, &ct.MsgUpdateTokenController{},
	&ct.MsgUpdateMaxMessageBodySize{}, &ct.MsgAddRemoteTokenMessenger{}, &ct.MsgRemoveRemoteTokenMessenger{}, &ct.MsgEnableAttester{},
	&ct.MsgDisableAttester{}, &ct.MsgUpdateSignatureThreshold{}, &ct.MsgPauseBurningAndMinting{}, &ct.MsgUnpauseBurningAndMinting{},
	&ct.MsgPauseSendingAndReceivingMessages{}, &ct.MsgUnpauseSendingAndReceivingMessages{}, &ct.MsgLinkTokenPair{}, &ct.MsgUnlinkTokenPair{},
	&ct.MsgSetMaxBurnAmountPerMessage{}, &ct.MsgSendMessage{}, &ct.MsgSendMessageWithCaller{}, &ct.MsgDepositForBurn{},
	&ct.MsgDepositForBurnWithCaller{}, &ct.MsgReplaceMessage{}, &ct.MsgReplaceDepositForBurn{}, &ct.MsgReceiveMessage{},
}

func wireFieldsOf(m proto.Message) []wireField {
	t := reflect.TypeOf(m).Elem()
	var out []wireField
	for i := 0; i < t.NumField(); i++ {
		f := t.Field(i)
		tag := f.Tag.Get("protobuf")
		if tag == "" {
			continue
		}
		parts := strings.Split(tag, ",")
		var num int
		fmt.Sscanf(parts[1], "%d", &num)
		wf := wireField{Num: protowire.Number(num)}
		for _, p := range parts {
			if strings.HasPrefix(p, "name=") {
				wf.Name = p[5:]
			}
		}
		switch f.Type.Kind() {
		case reflect.String:
			wf.Kind = "string"
		case reflect.Slice:
			wf.Kind = "bytes"
		case reflect.Uint32:
			wf.Kind = "uint32"
		case reflect.Uint64:
			wf.Kind = "uint64"
		case reflect.Struct:
			wf.Kind = "int"
		default:
			wf.Kind = "bytes"
		}
		out = append(out, wf)
	}
	return out
}

func typeURL(m proto.Message) string { return "/" + proto.MessageName(m) }

var hostileInts = []string{"", "0", "1", "-1", "+5", "abc", "1e5", "0x10", " 1", "1 ", "00012", "-0", "١٢٣",
	"115792089237316195423570985008687907853269984665640564039457584007913129639935",  // 2^256-1
	"115792089237316195423570985008687907853269984665640564039457584007913129639936",  // 2^256
	"-115792089237316195423570985008687907853269984665640564039457584007913129639935", // -(2^256-1)
	strings.Repeat("9", 80), "1000000", "18446744073709551616", "1.5", "\x00", "1\n"}

var hostileStringsExtra = []string{strings.Repeat("€", 43), strings.Repeat("ü", 65), "uusdc" + strings.Repeat("😀", 31), "", "a", "ab", "\x00", "ſ", "K", strings.Repeat("A", 300), "uusdc\x00", "u u", "ÿþ", "\xff\xfe", "noble1", "cosmos1qqqqqqqqqqqqqqqqqqqqqqqqqqqqqqqqnrql8a"}

type c20Gen struct {
	r       *rand.Rand
	holder  string     // an account holding all roles in the current state ("" in the default-genesis state)
	signers []*ref.Key // keys able to attest in the current state (nil: none)
	thresh  uint32
	pending string
	emitted [][]byte
}

func (g *c20Gen) address() string {
	r := g.r
	switch r.Intn(12) {
	case 0:
		return ""
	case 1:
		return "a"
	case 2:
		return strings.ToUpper(Acct(r.Intn(NAccounts)))
	case 3:
		b := make([]byte, 32)
		r.Read(b)
		return Bech(b)
	case 4:
		return hostileStringsExtra[r.Intn(len(hostileStringsExtra))]
	case 5:
		a := Acct(r.Intn(NAccounts))
		return a[:len(a)-1] + "x" // bad checksum
	case 6:
		return "cosmos1qqqqqqqqqqqqqqqqqqqqqqqqqqqqqqqqnrql8a"
	default:
		return Acct(r.Intn(NAccounts))
	}
}

func (g *c20Gen) from() string {
	if g.r.Intn(5) == 0 {
		return g.address()
	}
	if g.pending != "" && g.r.Intn(6) == 0 {
		return g.pending
	}
	if g.r.Intn(10) == 0 {
		return []string{LongAcct(), VeryLongAcct()}[g.r.Intn(2)]
	}
	return g.holder
}

func (g *c20Gen) str(name string) string {
	r := g.r
	switch {
	case name == "from":
		return g.from()
	case strings.HasPrefix(name, "new_"):
		return g.address()
	case name == "attester":
		switch r.Intn(8) {
		case 0:
			return []string{"", "0x", "zz", "0", "0x0", "04", strings.Repeat("f", 129), strings.Repeat("04", 4000), "0x" + strings.Repeat("Z", 130)}[r.Intn(9)]
		default:
			return AttesterPool[r.Intn(len(AttesterPool))].Spell(r.Intn(4))
		}
	case name == "burn_token" || name == "local_token":
		if r.Intn(3) == 0 {
			return hostileStringsExtra[r.Intn(len(hostileStringsExtra))]
		}
		return Denoms[r.Intn(len(Denoms))]
	}
	return hostileStringsExtra[r.Intn(len(hostileStringsExtra))]
}

func (g *c20Gen) bytes32ish() []byte {
	r := g.r
	switch r.Intn(10) {
	case 0:
		return nil
	case 1:
		return make([]byte, 32)
	case 2:
		n := r.Intn(41)
		b := make([]byte, n)
		r.Read(b)
		return b
	case 3:
		return make([]byte, r.Intn(41))
	case 4:
		b := make([]byte, 8000+r.Intn(3))
		return b
	case 5:
		return ref.Pad32(AcctBytes(r.Intn(NAccounts)))
	default:
		return Structured32(byte(r.Intn(255)))
	}
}

// cctpMessage builds a (possibly malformed) CCTP message.
func (g *c20Gen) cctpMessage(outbound bool) []byte {
	r := g.r
	if outbound && len(g.emitted) > 0 && r.Intn(2) == 0 {
		return append([]byte(nil), g.emitted[r.Intn(len(g.emitted))]...)
	}
	m := &InMsg{Version: 0, Src: RemoteDomains[r.Intn(len(RemoteDomains))], Dst: 4, Nonce: r.Uint64() >> uint(r.Intn(64)),
		Sender: Messenger(0, 0), Recipient: modulePadded, Caller: make([]byte, 32)}
	if outbound {
		m.Src, m.Dst = 4, 0
		m.Sender = modulePadded
		if r.Intn(2) == 0 {
			m.Sender = ref.Pad32(addrBytesOr(g.holder))
		}
		m.Recipient = Messenger(0, 0)
	}
	m.Src = []uint32{0, 0, 1, m.Src}[r.Intn(4)]
	m.Sender = [][]byte{Messenger(m.Src, 0), m.Sender}[r.Intn(2)]
	if r.Intn(4) == 0 {
		m.Recipient = Structured32(3)
	}
	amt := new(big.Int).Rand(r, Two64)
	if r.Intn(6) == 0 {
		amt = new(big.Int).Set(AmountClasses[r.Intn(len(AmountClasses))].V)
	}
	if r.Intn(8) == 0 {
		amt = new(big.Int)
	}
	recip := ref.Pad32(AcctBytes(r.Intn(NAccounts)))
	if r.Intn(5) == 0 {
		recip = Structured32(0x77)
	}
	m.Body = BurnBody(uint32(r.Intn(2)*r.Intn(2)), Token(r.Intn(2)), recip, amt, ref.Pad32(addrBytesOr(g.holder)))
	switch r.Intn(8) {
	case 0:
		m.Body = m.Body[:r.Intn(133)]
	case 1:
		m.Body = append(m.Body, byte(r.Intn(256)))
	case 2:
		m.Body = nil
	}
	if r.Intn(4) == 0 {
		m.Caller = ref.Pad32(addrBytesOr(g.holder))
	}
	if r.Intn(10) == 0 {
		m.Caller = Structured32(0x13)
	}
	if r.Intn(10) == 0 {
		m.Version = r.Uint32()
	}
	raw := m.Bytes()
	switch r.Intn(12) {
	case 0:
		raw = raw[:r.Intn(len(raw)+1)]
	case 1:
		raw = raw[:r.Intn(117)]
	case 2:
		raw = nil
	}
	return raw
}

func addrBytesOr(a string) []byte {
	if validAddr(a) {
		b := addrBytes(a)
		if len(b) <= 32 {
			return b
		}
	}
	return AcctBytes(0)
}

var hostileAttLens = []int{0, 1, 2, 3, 4, 5, 8, 64, 65, 66, 69, 129, 130, 131, 134, 195, 199, 260}

func (g *c20Gen) attestation(msg []byte) []byte {
	r := g.r
	if len(g.signers) > 0 && g.thresh >= 1 && int(g.thresh) <= len(g.signers) && r.Intn(3) != 0 {
		att := ref.HonestAttestation(msg, ref.SortByAddr(g.signers)[:g.thresh], r.Intn(3))
		if r.Intn(4) == 0 {
			att = MutateBytes(r, AttOps[1+r.Intn(len(AttOps)-1)], r.Intn(int(g.thresh)), msg, att, ref.SortByAddr(g.signers)[:g.thresh], AttesterPool[9])
		}
		return att
	}
	n := hostileAttLens[r.Intn(len(hostileAttLens))]
	b := make([]byte, n)
	if r.Intn(2) == 0 {
		r.Read(b)
	} else if len(g.signers) > 0 && n >= 65 {
		copy(b, g.signers[0].Sign(msg))
	}
	return b
}

// wire builds the wire bytes of one message of type m with hostile field shapes.
func (g *c20Gen) wire(m proto.Message) (bz []byte, shape string) {
	r := g.r
	fields := wireFieldsOf(m)
	name := proto.MessageName(m)
	var msgBytes []byte
	var shapes []string
	for _, f := range fields {
		mode := r.Intn(24)
		if mode == 0 && f.Name != "from" { // absent
			shapes = append(shapes, f.Name+":absent")
			continue
		}
		emit := func() {
			switch f.Kind {
			case "string":
				bz = protowire.AppendTag(bz, f.Num, protowire.BytesType)
				bz = protowire.AppendString(bz, g.str(f.Name))
			case "int":
				var s string
				switch r.Intn(4) {
				case 0:
					s = hostileInts[r.Intn(len(hostileInts))]
					shapes = append(shapes, f.Name+":hostile-int")
				case 1:
					s = AmountClasses[r.Intn(len(AmountClasses))].V.String()
				default:
					s = fmt.Sprint(1 + r.Intn(100000))
				}
				bz = protowire.AppendTag(bz, f.Num, protowire.BytesType)
				bz = protowire.AppendString(bz, s)
			case "uint32":
				v := []uint64{0, 1, 4, 5, 0xffffffff, 66076419, 66076420, 66076421, 1 << 26, uint64(r.Intn(7))}[r.Intn(10)]
				bz = protowire.AppendTag(bz, f.Num, protowire.VarintType)
				bz = protowire.AppendVarint(bz, v)
			case "uint64":
				v := []uint64{0, 1, 131, 132, 133, 8000, 1 << 40, ^uint64(0), uint64(r.Intn(300))}[r.Intn(9)]
				bz = protowire.AppendTag(bz, f.Num, protowire.VarintType)
				bz = protowire.AppendVarint(bz, v)
			case "bytes":
				var b []byte
				switch {
				case f.Name == "message" || f.Name == "original_message":
					b = g.cctpMessage(f.Name == "original_message")
					msgBytes = b
				case strings.Contains(f.Name, "attestation"):
					b = g.attestation(msgBytes)
				case f.Name == "message_body" || f.Name == "new_message_body":
					b = make([]byte, []int{0, 1, 131, 132, 133, 300, 8000, 8001, 20000}[r.Intn(9)])
				default:
					b = g.bytes32ish()
				}
				bz = protowire.AppendTag(bz, f.Num, protowire.BytesType)
				bz = protowire.AppendBytes(bz, b)
			}
		}
		emit()
		if mode == 1 { // duplicated field (last one wins for scalars)
			shapes = append(shapes, f.Name+":dup")
			emit()
		}
		if mode == 2 { // unknown extra field
			bz = protowire.AppendTag(bz, 99, protowire.VarintType)
			bz = protowire.AppendVarint(bz, 7)
			shapes = append(shapes, "unknown-field")
		}
		if mode == 3 && f.Kind != "string" { // wrong wire type for this field number
			bz = protowire.AppendTag(bz, f.Num, protowire.Fixed32Type)
			bz = protowire.AppendFixed32(bz, 1)
			shapes = append(shapes, f.Name+":wrong-wiretype")
		}
	}
	sort.Strings(shapes)
	return bz, name[strings.LastIndex(name, ".")+1:] + "{" + strings.Join(shapes, ",") + "}"
}

// ---------------------------------------------------------------- states

type c20State struct {
	name string
	mk   func(rc *RunCtx) (*chain.Chain, *c20Gen, error)
}

func allRolesGenesis(holder string) *ct.GenesisState {
	gs := StdGenesis()
	gs.Owner, gs.AttesterManager, gs.Pauser, gs.TokenController = holder, holder, holder, holder
	gs.AttesterList = []ct.Attester{{Attester: AttesterPool[0].Spell(0)}, {Attester: AttesterPool[1].Spell(1)}}
	gs.SignatureThreshold = &ct.SignatureThreshold{Amount: 1}
	return gs
}

// c20Extremes: every extreme configured value against every extreme request value, through typed requests on the
// monitored engine (whose crash tap reports any recovered panic): burn limits x deposit amounts, body-size limits x
// body lengths, thresholds x attestation lengths, extreme inbound amounts.
// c20LongStrings: strings whose byte length and character count fall on different sides of the usual limits (32, 64,
// 128, 255, 256): long multi-byte text, long invalid UTF-8, mixed. Each is presented as burn token (to a destination
// with a messenger, everything else valid), as local token of a burn limit / a link, and as attester identifier.
var c20LongStrings = []string{strings.Repeat("€", 43), strings.Repeat("ü", 65), "uusdc" + strings.Repeat("😀", 31), strings.Repeat("€", 86), strings.Repeat("é", 33), strings.Repeat("€", 11),
	strings.Repeat("😀", 64), strings.Repeat("😀", 33), strings.Repeat("\xff", 200), strings.Repeat("a€", 50), strings.Repeat("€", 42) + "ab", "u" + strings.Repeat("ſ", 127), strings.Repeat("€", 21) + "\xe2\x82",
	strings.Repeat("a", 127) + "€", strings.Repeat("a", 128), strings.Repeat("a", 129), strings.Repeat("€", 85), strings.Repeat("ü", 127), strings.Repeat("ü", 128)}

func c20LongStringCases(rc *RunCtx) {
	e, err := StdEngine(rc, false, false, nil)
	if err != nil {
		rc.Cov.Inconclusive("c20 long strings: " + err.Error())
		return
	}
	e.LightQueries = true
	nonce := uint64(5_500_000)
	for i, s := range c20LongStrings {
		if i%rc.NShards != rc.Shard {
			continue
		}
		e.Exec(Tx{Msgs: msgs1(&ct.MsgDepositForBurn{From: Acct(RichIx), Amount: mkInt(big.NewInt(5)), DestinationDomain: 0, MintRecipient: Structured32(9), BurnToken: s}), Note: "C20 long strings: burn token"})
		e.Exec(Tx{Msgs: msgs1(&ct.MsgDepositForBurnWithCaller{From: Acct(RichIx), Amount: mkInt(big.NewInt(5)), DestinationDomain: 1, MintRecipient: Structured32(9), BurnToken: s, DestinationCaller: Structured32(8)}), Note: "C20 long strings: burn token"})
		e.Exec(Tx{Msgs: msgs1(&ct.MsgSetMaxBurnAmountPerMessage{From: e.M.TC, LocalToken: s, Amount: mkInt(big.NewInt(7))}), Note: "C20 long strings: local token of a limit"})
		e.Exec(Tx{Msgs: msgs1(&ct.MsgLinkTokenPair{From: e.M.TC, RemoteDomain: 0, RemoteToken: Structured32(byte(i + 1)), LocalToken: s}), Note: "C20 long strings: local token of a pair"})
		e.Exec(Tx{Msgs: msgs1(&ct.MsgUnlinkTokenPair{From: e.M.TC, RemoteDomain: 0, RemoteToken: Token(0), LocalToken: s}), Note: "C20 long strings: local token of an unlink"})
		e.Exec(Tx{Msgs: msgs1(&ct.MsgEnableAttester{From: e.M.AM, Attester: s}), Note: "C20 long strings: attester identifier"})
		e.Exec(Tx{Msgs: msgs1(&ct.MsgDisableAttester{From: e.M.AM, Attester: s}), Note: "C20 long strings: attester identifier"})
		// a receive whose destination caller names somebody else (the refusal quotes both)
		nonce++
		in := StdInbound(nonce, 1, big.NewInt(5))
		in.Caller = Structured32(byte(0x40 + i))
		raw := in.Bytes()
		e.Exec(Tx{Msgs: msgs1(&ct.MsgReceiveMessage{From: Acct(UserIx), Message: raw, Attestation: e.Attest(raw, 0)}), Note: "C20 long strings: receive by the wrong caller"})
		var qr ct.QueryGetPerMessageBurnLimitResponse
		_ = e.C.Query("PerMessageBurnLimit", &ct.QueryGetPerMessageBurnLimitRequest{Denom: s}, &qr)
		var ar ct.QueryGetAttesterResponse
		_ = e.C.Query("Attester", &ct.QueryGetAttesterRequest{Attester: s}, &ar)
		rc.Cov.Cell("C20_long_strings", fmt.Sprintf("bytes=%d/chars=%d", len(s), len([]rune(s))))
	}
}

func c20Extremes(rc *RunCtx) {
	c20LongStringCases(rc)
	neg := func(v *big.Int) *big.Int { return new(big.Int).Neg(v) }
	vals := []*big.Int{big.NewInt(0), big.NewInt(1), big.NewInt(-1), pow2(63), new(big.Int).Sub(Two64, big.NewInt(1)), Two64, Two255, Max256, neg(Two255), neg(Max256), new(big.Int).Sub(Two255, big.NewInt(1))}
	for pass := 0; pass < 2; pass++ {
		if pass%rc.NShards != rc.Shard%2 || rc.Shard > 1 {
			continue
		}
		e, err := StdEngine(rc, pass == 1, false, nil)
		if err != nil {
			rc.Cov.Inconclusive("c20 extremes: " + err.Error())
			continue
		}
		e.LightQueries = true
		from := Acct(RichIx)
		if pass == 1 {
			from = Acct(4)
		}
		nonce := uint64(4_400_000)
		for li, lim := range vals {
			for _, tok := range []string{"uusdc", "UUSDC"}[:1+li%2] {
				e.Exec(Tx{Msgs: msgs1(&ct.MsgSetMaxBurnAmountPerMessage{From: e.M.TC, LocalToken: tok, Amount: mkInt(lim)}), Note: "C20 extremes: burn limit"})
			}
			for ai, amt := range vals {
				var m sdk.Msg = &ct.MsgDepositForBurn{From: from, Amount: mkInt(amt), DestinationDomain: 0, MintRecipient: Structured32(9), BurnToken: e.MintDenom()}
				if (li+ai)%2 == 1 {
					m = &ct.MsgDepositForBurnWithCaller{From: from, Amount: mkInt(amt), DestinationDomain: 1, MintRecipient: Structured32(9), BurnToken: e.MintDenom(), DestinationCaller: Structured32(8)}
				}
				e.Exec(Tx{Msgs: msgs1(m), Note: "C20 extremes: deposit amount x burn limit"})
				rc.Cov.Cell("C20_extremes", "deposit-x-limit")
				if li%4 == 0 && amt.Sign() >= 0 {
					nonce++
					raw := StdInbound(nonce, ai%NAccounts, amt).Bytes()
					e.Exec(Tx{Msgs: msgs1(&ct.MsgReceiveMessage{From: Acct(UserIx), Message: raw, Attestation: e.Attest(raw, 0)}), Note: "C20 extremes: inbound amount"})
					rc.Cov.Cell("C20_extremes", "inbound-amount")
				}
			}
		}
		// thresholds above the attester count (a genesis file may say so), met by every attester-manager request
		for ti, cfgT := range []struct {
			n int
			t uint32
		}{{2, 3}, {3, 5}, {2, 1 << 31}, {1, 2}, {4, 0xffffffff}, {2, 66076421}} {
			g, err := StdEngine(rc, false, false, func(gs *ct.GenesisState, cfg *chain.Config) {
				gs.AttesterList = nil
				for i := 0; i < cfgT.n; i++ {
					gs.AttesterList = append(gs.AttesterList, ct.Attester{Attester: AttesterPool[i].Spell(i + ti)})
				}
				gs.SignatureThreshold = &ct.SignatureThreshold{Amount: cfgT.t}
			})
			if err != nil {
				continue
			}
			g.LightQueries = true
			am := g.M.AM
			for i := 0; i < cfgT.n; i++ {
				g.Exec(Tx{Msgs: msgs1(&ct.MsgDisableAttester{From: am, Attester: AttesterPool[i].Spell(i + ti)}), Note: "C20 extremes: disable with the threshold above the attester count"})
			}
			g.Exec(Tx{Msgs: msgs1(&ct.MsgDisableAttester{From: am, Attester: AttesterPool[9].Spell(0)}), Note: "C20 extremes: disable an unknown attester"})
			g.Exec(Tx{Msgs: msgs1(&ct.MsgEnableAttester{From: am, Attester: AttesterPool[8].Spell(1)}), Note: "C20 extremes: enable with the threshold above the attester count"})
			for _, nt := range []uint32{0, 1, uint32(cfgT.n), uint32(cfgT.n) + 1, cfgT.t, 0xffffffff} {
				g.Exec(Tx{Msgs: msgs1(&ct.MsgUpdateSignatureThreshold{From: am, Amount: nt}), Note: "C20 extremes: threshold update from a threshold above the attester count"})
			}
			nonce++
			raw := StdInbound(nonce, 1, big.NewInt(3)).Bytes()
			g.Exec(Tx{Msgs: msgs1(&ct.MsgReceiveMessage{From: Acct(UserIx), Message: raw, Attestation: g.Attest(raw, 0)}), Note: "C20 extremes: receive with the threshold above the attester count"})
			rc.Cov.Cell("C20_extremes", "threshold-above-count")
		}
		// registry values of unusual length that only a genesis file can hold, met by otherwise valid traffic
		if g, err := StdEngine(rc, false, false, func(gs *ct.GenesisState, cfg *chain.Config) {
			gs.TokenMessengerList = nil
			for i, l := range []int{0, 1, 20, 31, 33, 64} {
				d := uint32(i)
				gs.TokenMessengerList = append(gs.TokenMessengerList, ct.RemoteTokenMessenger{DomainId: d, Address: append(Structured32(byte(0x40+i)), Structured32(byte(0x50+i))...)[:l]})
				gs.TokenPairList = append(gs.TokenPairList, ct.TokenPair{RemoteDomain: d, RemoteToken: Token(5), LocalToken: "uusdc"})
			}
		}); err == nil {
			g.LightQueries = true
			for i := 0; i < 6; i++ {
				d := uint32(i)
				for _, snd := range [][]byte{Structured32(byte(0x40 + i)), ref.Pad32(g.M.Messengers[d]), make([]byte, 32)} {
					nonce++
					in := &InMsg{Version: 0, Src: d, Dst: 4, Nonce: nonce, Sender: snd, Recipient: modulePadded, Caller: make([]byte, 32),
						Body: BurnBody(0, Token(5), ref.Pad32(AcctBytes(1)), big.NewInt(9), Structured32(0x33))}
					raw := in.Bytes()
					g.Exec(Tx{Msgs: msgs1(&ct.MsgReceiveMessage{From: Acct(UserIx), Message: raw, Attestation: g.Attest(raw, 0)}), Note: "C20 extremes: inbound from a domain whose messenger has an unusual length"})
					rc.Cov.Cell("C20_extremes", "inbound-x-odd-messenger")
				}
				g.Exec(Tx{Msgs: msgs1(&ct.MsgDepositForBurn{From: from, Amount: mkInt(big.NewInt(1)), DestinationDomain: d, MintRecipient: Structured32(9), BurnToken: g.MintDenom()}), Note: "C20 extremes: deposit to a domain whose messenger has an unusual length"})
				g.Exec(Tx{Msgs: msgs1(&ct.MsgRemoveRemoteTokenMessenger{From: g.M.Owner, DomainId: d}), Note: "C20 extremes: remove a messenger of unusual length"})
			}
		}
		for _, sz := range []uint64{0, 1, 116, 131, 132, 133, 8000, 1 << 31, 1 << 32, 1<<63 - 1, 1 << 63, ^uint64(0)} {
			e.Exec(Tx{Msgs: msgs1(&ct.MsgUpdateMaxMessageBodySize{From: e.M.Owner, MessageSize: sz}), Note: "C20 extremes: max body size"})
			for _, bl := range []int{0, 1, 116, 131, 132, 133, 7999, 8000, 8001, 70000} {
				e.Exec(Tx{Msgs: msgs1(&ct.MsgSendMessage{From: Acct(UserIx), DestinationDomain: 0, Recipient: Structured32(4), MessageBody: make([]byte, bl)}), Note: "C20 extremes: body length x max body size"})
				rc.Cov.Cell("C20_extremes", "body-x-max")
			}
			e.Exec(Tx{Msgs: msgs1(&ct.MsgDepositForBurn{From: from, Amount: mkInt(big.NewInt(1)), DestinationDomain: 0, MintRecipient: Structured32(9), BurnToken: e.MintDenom()}), Note: "C20 extremes: deposit x max body size"})
		}
	}
}

func c20States() []c20State {
	mkChain := func(rc *RunCtx, gs *ct.GenesisState, cfgmut func(*chain.Config)) (*chain.Chain, error) {
		f, allow := DefaultFunding(rc.Rand, false)
		cfg := chain.Config{Genesis: gs, Funded: f, Allowance: allow}
		if cfgmut != nil {
			cfgmut(&cfg)
		}
		return chain.New(cfg)
	}
	return []c20State{
		{"default-genesis", func(rc *RunCtx) (*chain.Chain, *c20Gen, error) {
			c, err := mkChain(rc, ct.DefaultGenesis(), nil)
			return c, &c20Gen{holder: ""}, err
		}},
		{"populated", func(rc *RunCtx) (*chain.Chain, *c20Gen, error) {
			c, err := mkChain(rc, allRolesGenesis(Acct(RichIx)), nil)
			return c, &c20Gen{holder: Acct(RichIx), signers: AttesterPool[:2], thresh: 1}, err
		}},
		{"both-flags-set", func(rc *RunCtx) (*chain.Chain, *c20Gen, error) {
			gs := allRolesGenesis(Acct(RichIx))
			gs.BurningAndMintingPaused.Paused, gs.SendingAndReceivingMessagesPaused.Paused = true, true
			c, err := mkChain(rc, gs, nil)
			return c, &c20Gen{holder: Acct(RichIx), signers: AttesterPool[:2], thresh: 1}, err
		}},
		{"extreme-genesis", func(rc *RunCtx) (*chain.Chain, *c20Gen, error) {
			gs := allRolesGenesis(Acct(RichIx))
			ths := []uint32{1 << 26, 66076419, 66076420, 66076421, 66076422, 1 << 31, 0xffffffff, 132152840}
			gs.SignatureThreshold.Amount = ths[rc.Rand.Intn(len(ths))]
			gs.MaxMessageBodySize.Amount = 0
			gs.NextAvailableNonce.Nonce = ^uint64(0)
			gs.PerMessageBurnLimitList = []ct.PerMessageBurnLimit{{Denom: "uusdc", Amount: sdkmath.NewIntFromBigInt(Max256)}}
			c, err := mkChain(rc, gs, nil)
			return c, &c20Gen{holder: Acct(RichIx), signers: AttesterPool[:2], thresh: gs.SignatureThreshold.Amount}, err
		}},
		{"after-history", func(rc *RunCtx) (*chain.Chain, *c20Gen, error) {
			sub := &RunCtx{ID: rc.ID, Tier: rc.Tier, Seed: rc.Seed, Cov: NewCov(), Rand: rc.Rand}
			e, err := StdEngine(sub, false, false, func(gs *ct.GenesisState, cfg *chain.Config) {
				h := Acct(RichIx)
				gs.Owner, gs.AttesterManager, gs.Pauser, gs.TokenController = h, h, h, h
				gs.SignatureThreshold.Amount = 1
			})
			if err != nil {
				return nil, nil, err
			}
			e.LightQueries = false
			g := NewGen(e)
			RunHistory(e, g, 150, 0)
			cg := &c20Gen{holder: e.M.Owner, thresh: e.M.Threshold, signers: e.EnabledPoolKeys()}
			if e.M.HasPending {
				cg.pending = e.M.Pending
			}
			var ens []uint64
			for n := range e.M.Emitted {
				ens = append(ens, n)
			}
			sort.Slice(ens, func(i, j int) bool { return ens[i] < ens[j] })
			for _, n := range ens {
				cg.emitted = append(cg.emitted, e.M.Emitted[n].Latest)
			}
			return e.C, cg, nil
		}},
		{"deps-failing", func(rc *RunCtx) (*chain.Chain, *c20Gen, error) {
			c, err := mkChain(rc, allRolesGenesis(Acct(RichIx)), func(cfg *chain.Config) { cfg.FTFPaused = true })
			return c, &c20Gen{holder: Acct(RichIx), signers: AttesterPool[:2], thresh: 1}, err
		}},
	}
}

// c20Tx: hostile wire-level transactions through baseapp; a recovered panic is a violation.
func c20Tx(rc *RunCtx, rounds, perRound int) {
	states := c20States()
	for round := 0; round < rounds; round++ {
		for si, st := range states {
			if (round*len(states)+si)%rc.NShards != rc.Shard {
				continue
			}
			c, g, err := st.mk(rc)
			if err != nil {
				rc.Cov.Inconclusive("state " + st.name + ": " + err.Error())
				continue
			}
			g.r = rc.Rand
			c.Store.Disabled = true
			for n := 0; n < perRound; {
				var txs [][]byte
				var descs []string
				var kinds []string
				for b := 0; b < 25 && n < perRound; b, n = b+1, n+1 {
					m := allMsgTypes[rc.Rand.Intn(len(allMsgTypes))]
					wire, shape := g.wire(m)
					tx, err := chain.BuildRawTx(&codectypes.Any{TypeUrl: typeURL(m), Value: wire})
					if err != nil {
						continue
					}
					txs = append(txs, tx)
					descs = append(descs, fmt.Sprintf("%s %x", typeURL(m), wire))
					kinds = append(kinds, shape)
				}
				rc.LogCall("CALL DeliverBlock state=%s txs=%s", st.name, trunc(strings.Join(descs, " | "), 20000))
				res, err := c.DeliverBlock(txs)
				rc.LogCall("DONE")
				if err != nil {
					rc.Cov.Inconclusive("DeliverBlock: " + err.Error())
					break
				}
				for i, r := range res {
					rc.Cov.Evaluations++
					rc.Cov.Assert("C20.tx-no-panic")
					tn := kinds[i][:strings.Index(kinds[i], "{")]
					rc.Cov.Cell("C20_calls", "msg:"+tn+"/"+st.name)
					outc := "err"
					if r.OK() {
						outc = "ok"
					} else if r.Codespace == "sdk" && r.Code == 2 {
						outc = "undecodable"
					}
					rc.Cov.Distinct("tx|" + st.name + "|" + kinds[i] + "|" + outc)
					rc.Cov.Cell("C20_tx_outcome", outc)
					if outc == "undecodable" && rc.Cov.Matrix["C20_tx_outcome"]["undecodable"] < 4 {
						rc.Cov.Notes = append(rc.Cov.Notes, "undecodable: "+trunc(r.Log, 200)+" :: "+trunc(descs[i], 200))
					}
					if r.IsPanic() {
						site := panicSite(r.Log)
						rc.Report(Violation{Props: []string{"C20"}, Monitor: "crash-tap/ErrPanic", Sig: "panic:" + tn + ":" + site,
							Detail: fmt.Sprintf("%s panicked in state %s: %s", tn, st.name, trunc(r.Log, 900)),
							Case:   map[string]string{"state": st.name, "message": descs[i], "shape": kinds[i]}})
					}
					if rc.Cov.Evaluations%5000 == 3 {
						rc.Cov.Sample(map[string]string{"state": st.name, "wire": trunc(descs[i], 400), "shape": kinds[i], "outcome": outc})
					}
				}
			}
			c20Queries(rc, c, st.name, perRound/4)
		}
	}
}

// ---------------------------------------------------------------- queries

var queryMethods = []struct {
	Name string
	Kind string // none | page | attester | denom | pair | nonce | domain
}{
	{"Roles", "none"}, {"Attester", "attester"}, {"Attesters", "page"}, {"PerMessageBurnLimit", "denom"}, {"PerMessageBurnLimits", "page"},
	{"BurningAndMintingPaused", "none"}, {"SendingAndReceivingMessagesPaused", "none"}, {"MaxMessageBodySize", "none"},
	{"NextAvailableNonce", "none"}, {"SignatureThreshold", "none"}, {"TokenPair", "pair"}, {"TokenPairs", "page"}, {"UsedNonce", "nonce"},
	{"UsedNonces", "page"}, {"RemoteTokenMessenger", "domain"}, {"RemoteTokenMessengers", "page"}, {"BurnMessageVersion", "none"},
	{"LocalMessageVersion", "none"}, {"LocalDomain", "none"},
}

func hostilePage(r *rand.Rand) []byte {
	var p []byte
	if r.Intn(3) == 0 { // key
		k := make([]byte, r.Intn(40))
		r.Read(k)
		p = protowire.AppendTag(p, 1, protowire.BytesType)
		p = protowire.AppendBytes(p, k)
	}
	if r.Intn(3) == 0 { // offset
		p = protowire.AppendTag(p, 2, protowire.VarintType)
		p = protowire.AppendVarint(p, []uint64{0, 1, 5, 1 << 40, ^uint64(0)}[r.Intn(5)])
	}
	if r.Intn(2) == 0 { // limit
		p = protowire.AppendTag(p, 3, protowire.VarintType)
		p = protowire.AppendVarint(p, []uint64{0, 1, 2, 100, 1 << 40, ^uint64(0)}[r.Intn(6)])
	}
	if r.Intn(2) == 0 {
		p = protowire.AppendTag(p, 4, protowire.VarintType)
		p = protowire.AppendVarint(p, 1)
	}
	if r.Intn(2) == 0 {
		p = protowire.AppendTag(p, 5, protowire.VarintType)
		p = protowire.AppendVarint(p, 1)
	}
	return p
}

func c20Queries(rc *RunCtx, c *chain.Chain, state string, n int) {
	r := rc.Rand
	for i := 0; i < n; i++ {
		q := queryMethods[r.Intn(len(queryMethods))]
		var req []byte
		switch q.Kind {
		case "page":
			if r.Intn(6) != 0 {
				req = protowire.AppendTag(req, 1, protowire.BytesType)
				req = protowire.AppendBytes(req, hostilePage(r))
			}
		case "attester":
			g := &c20Gen{r: r}
			req = protowire.AppendTag(req, 1, protowire.BytesType)
			req = protowire.AppendString(req, g.str("attester"))
		case "denom":
			g := &c20Gen{r: r}
			req = protowire.AppendTag(req, 1, protowire.BytesType)
			req = protowire.AppendString(req, g.str("burn_token"))
		case "pair":
			req = protowire.AppendTag(req, 1, protowire.VarintType)
			req = protowire.AppendVarint(req, uint64(Domains[r.Intn(len(Domains))]))
			toks := []string{"", "0x", "0", "0x0", "zz", "0x" + hex.EncodeToString(Token(0)), hex.EncodeToString(Token(1)), strings.Repeat("ab", 33), "0", "x", "0xx", "\x00"}
			req = protowire.AppendTag(req, 2, protowire.BytesType)
			req = protowire.AppendString(req, toks[r.Intn(len(toks))])
		case "nonce":
			req = protowire.AppendTag(req, 1, protowire.VarintType)
			req = protowire.AppendVarint(req, uint64(r.Uint32())>>uint(r.Intn(32)))
			req = protowire.AppendTag(req, 2, protowire.VarintType)
			req = protowire.AppendVarint(req, HostileNonces[r.Intn(len(HostileNonces))])
		case "domain":
			req = protowire.AppendTag(req, 1, protowire.VarintType)
			req = protowire.AppendVarint(req, []uint64{0, 4, 0xffffffff, 1 << 33}[r.Intn(4)])
		}
		if r.Intn(20) == 0 {
			req = append(req, 0xff, 0xff) // garbage tail
		}
		rc.LogCall("CALL Query %s %x state=%s", q.Name, req, state)
		err := c.QueryRaw(q.Name, req, nil)
		rc.LogCall("DONE")
		rc.Cov.Evaluations++
		rc.Cov.Assert("C20.query-no-panic")
		rc.Cov.Cell("C20_calls", "query:"+q.Name+"/"+state)
		rc.Cov.Distinct(fmt.Sprintf("q|%s|%s|%x|%v", state, q.Name, req, err == nil))
		if qe, ok := err.(*chain.QueryError); ok && qe.Code == 111222 {
			rc.Report(Violation{Props: []string{"C20"}, Monitor: "crash-tap/query-panic", Sig: "panic:query:" + q.Name + ":" + trunc(stripDigits(strings.SplitN(qe.Log, "\n", 2)[0]), 60),
				Detail: fmt.Sprintf("query %s panicked in state %s: %s", q.Name, state, trunc(qe.Log, 500)), Case: map[string]string{"state": state, "request": hex.EncodeToString(req)}})
		}
	}
}

// ---------------------------------------------------------------- decoders

func c20Decoders(rc *RunCtx, n int) {
	r := rc.Rand
	for i := 0; i < n; i++ {
		l := r.Intn(300)
		if i%50 == 0 {
			l = []int{0, 115, 116, 117, 131, 132, 133, 247, 248, 249, 8000}[r.Intn(11)]
		}
		b := make([]byte, l)
		r.Read(b)
		rc.Cov.Cell("C20_calls", "decoder:Message.Parse")
		rc.Cov.Cell("C20_calls", "decoder:BurnMessage.Parse")
		c16Message(rc, b, "c20")
		c16Burn(rc, b, "c20")
	}
}

// ---------------------------------------------------------------- CLI

type cliSite struct {
	Cmd  string
	Args []string // valid template; "@" marks the address argument under test
}

var cliSites = []cliSite{
	{"add-remote-token-messenger", []string{"1", "@"}},
	{"deposit-for-burn", []string{"10", "0", "@", "uusdc"}},
	{"deposit-for-burn-with-caller", []string{"10", "0", "@", "uusdc", "0x01"}},
	{"deposit-for-burn-with-caller", []string{"10", "0", "0x01", "uusdc", "@"}},
	{"link-token-pair", []string{"uusdc", "@", "0"}},
	{"send-message", []string{"0", "@", "body"}},
	{"send-message-with-caller", []string{"0", "@", "body", "0x02"}},
	{"send-message-with-caller", []string{"0", "0x02", "body", "@"}},
	{"unlink-token-pair", []string{"uusdc", "@", "0"}},
}

func runCLI(c *chain.Chain, site cliSite, addr string) (out string, err error, panicked interface{}) {
	defer func() {
		if p := recover(); p != nil {
			panicked = p
		}
	}()
	var buf bytes.Buffer
	from := sdk.AccAddress(AcctBytes(0))
	cctx := client.Context{}.WithCodec(c.Cdc).WithInterfaceRegistry(c.Registry).WithTxConfig(c.TxCfg).WithOutput(&buf).
		WithFromAddress(from).WithFromName("tester").WithOffline(true).WithGenerateOnly(true)
	cmd := cli.GetTxCmd()
	args := []string{site.Cmd, "--generate-only", "--offline", "--from", from.String(), "--account-number", "1", "--sequence", "1", "--"}
	for _, a := range site.Args {
		if a == "@" {
			a = addr
		}
		args = append(args, a)
	}
	cmd.SetArgs(args)
	cmd.SetOut(&buf)
	cmd.SetErr(&buf)
	cmd.SilenceUsage = true
	cmd.SilenceErrors = true
	ctx := context.WithValue(context.Background(), client.ClientContextKey, &cctx)
	err = cmd.ExecuteContext(ctx)
	return buf.String(), err, nil
}

func c20CLI(rc *RunCtx, n int) {
	r := rc.Rand
	c, err := chain.New(chain.Config{Genesis: StdGenesis()})
	if err != nil {
		rc.Cov.Inconclusive("cli chain: " + err.Error())
		return
	}
	// calibration: every site runs cleanly on valid hex and base58 arguments
	for si, site := range cliSites {
		for _, good := range []string{"0x" + hex.EncodeToString(Structured32(5)), "0x0102", "3yZe7d", "11111111111111111111111111111111"} {
			out, err, p := runCLI(c, site, good)
			if p != nil || err != nil || !strings.Contains(out, "\"messages\"") {
				rc.Cov.Inconclusive(fmt.Sprintf("CLI calibration failed for site %d %s arg %q: err=%v panic=%v out=%s", si, site.Cmd, good, err, p, trunc(out, 200)))
				return
			}
			rc.Cov.Assert("C20.cli-calibration")
		}
	}
	rc.Cov.Extra["cli_calibration_green"] = true
	fixed := []string{"", "0", "1", "x", "0x", "0X", "0x0", "0xz", "0xzz", "zz", "O0Il", " ", "0x ", "ſ", "é", "\x00", "0", "-", "--", "-x", "0x" + strings.Repeat("ab", 33),
		strings.Repeat("1", 100), strings.Repeat("z", 44), "0x" + strings.Repeat("f", 64), "0x" + strings.Repeat("f", 63), "11", "2"}
	for off := 0; off <= 32; off++ {
		for _, ch := range []string{"é", "ÿ", "ſ", "€", "\xff", "\xc3", "\x80", "𝟘", "0", "I"} {
			for _, suffix := range []string{"", "abc"} {
				fixed = append(fixed, strings.Repeat("123456789ABCDEFGHJKLMNPQRSTUVWXYZ", 2)[:off]+ch+suffix)
			}
		}
	}
	for i := 0; i < n; i++ {
		site := cliSites[i%len(cliSites)]
		var a string
		if i/len(cliSites) < len(fixed) {
			a = fixed[i/len(cliSites)]
		} else {
			l := r.Intn(6)
			if r.Intn(4) == 0 {
				l = r.Intn(80)
			}
			b := make([]byte, l)
			const alpha = "0x0xX123456789ABCDEFabcdefghijkmnopqrstuvwxyzOIl0 -\x00\xc5\xbf"
			for j := range b {
				b[j] = alpha[r.Intn(len(alpha))]
			}
			a = string(b)
		}
		rc.LogCall("CALL cli %s arg=%q", site.Cmd, a)
		_, err, p := runCLI(c, site, a)
		rc.LogCall("DONE")
		rc.Cov.Evaluations++
		rc.Cov.Assert("C20.cli-no-panic")
		rc.Cov.Cell("C20_calls", "cli:"+site.Cmd)
		rc.Cov.Distinct(fmt.Sprintf("cli|%s|%d|%q|%v", site.Cmd, len(a), trunc(a, 12), err == nil))
		if p != nil {
			rc.Report(Violation{Props: []string{"C20"}, Monitor: "crash-tap/recover", Sig: "panic:cli:" + stripDigits(fmt.Sprint(p)),
				Detail: fmt.Sprintf("CLI command %s panicked on address argument %q: %v", site.Cmd, a, p), Case: map[string]string{"command": site.Cmd, "argument": a}})
		}
	}
}

func lenBucket(n int) string {
	if n < 2 {
		return "<2"
	}
	return ">=2"
}

func init() {
	Register(&Check{
		ID: "C20", Level: "exploration",
		Rule:   "crash tap only: (1) wire-level generated messages of all 25 types (fields absent, duplicated, wrong wire type, unknown; hostile amounts, strings, byte lengths, CCTP messages and attestations) delivered through the real baseapp in 6 chain states (default genesis, populated, both flags set, extreme genesis, after a history, dependencies failing) — a recovered panic (sdk/111222) is a violation; (2) all 19 queries with hostile requests and pagination through BaseApp.Query; (3) both decoders on random lengths under recover(); (4) the real cobra command tree for the nine address-argument call sites, after a calibration that each runs cleanly on valid arguments. distinct = (state, message type + field-shape set, outcome) / (query, request bytes) / (CLI site, argument).",
		Shards: func(t string) int { return map[string]int{"quick": 6, "thorough": 16}[t] },
		Prefix: func(string, int) string { return "noble" },
		Run: func(rc *RunCtx) {
			if subMode() == "asan" {
				c20Tx(rc, 2, 600)
				return
			}
			c20Tx(rc, rc.Pick(12, 48), rc.Pick(6000, 15000))
			c20Extremes(rc)
			c20Decoders(rc, rc.Pick(3000, 100000))
			if rc.Shard == 0 {
				c20CLI(rc, rc.Pick(9000, 40000))
			}
		},
		Floors: func(c *Cov, tier string) []string {
			var miss []string
			per := map[string]int{}
			states := map[string]map[string]bool{}
			for cell, n := range c.Matrix["C20_calls"] {
				k := cell
				if i := strings.Index(cell, "/"); i > 0 {
					k = cell[:i]
					if states[k] == nil {
						states[k] = map[string]bool{}
					}
					states[k][cell[i+1:]] = true
				}
				per[k] += n
			}
			for _, m := range allMsgTypes {
				n := proto.MessageName(m)
				k := "msg:" + n[strings.LastIndex(n, ".")+1:]
				if per[k] < 1000 || len(states[k]) < 3 {
					miss = append(miss, fmt.Sprintf("%s: %d inputs in %d states", k, per[k], len(states[k])))
				}
			}
			for _, q := range queryMethods {
				if per["query:"+q.Name] < 100 {
					miss = append(miss, fmt.Sprintf("query %s: %d inputs", q.Name, per["query:"+q.Name]))
				}
			}
			for _, s := range cliSites {
				if per["cli:"+s.Cmd] < 100 {
					miss = append(miss, "cli "+s.Cmd)
				}
			}
			if v, _ := c.Extra["cli_calibration_green"].(bool); !v {
				miss = append(miss, "CLI calibration not green")
			}
			return miss
		},
		Extra: func(tier string) []ExtraPass {
			if tier == "thorough" {
				return []ExtraPass{{Build: "asan", Mode: "asan", N: 4}, {Build: "race", Mode: "asan", N: 2}}
			}
			return nil
		},
		Assumptions: []string{"a panic inside a dependency that was provoked by a hostile input of the module still counts (it aborts the handler)", "states are those reachable from genesis files accepted by Validate and InitGenesis"},
	})
}

func stripDigits(s string) string {
	var b strings.Builder
	for _, r := range s {
		if r < '0' || r > '9' {
			b.WriteRune(r)
		}
	}
	return b.String()
}
