package sim

import (
	"math/big"
	"math/rand"
	"reflect"
	"sort"

	sdkmath "cosmossdk.io/math"
	sdk "github.com/cosmos/cosmos-sdk/types"
	"github.com/cosmos/gogoproto/proto"

	ct "github.com/circlefin/noble-cctp/x/cctp/types"

	"verif/harness/chain"
	"verif/harness/ref"
)

// ---------------------------------------------------------------- genesis generator

type GenOpts struct {
	Unpaused      bool // force both flags false
	WellFormed    bool // no junk attesters, threshold within 1..n
	NoUsed        bool
	FixedRoles    bool // owner=0, am=1, pauser=2, tc=3
	Start         *uint64
	MaxBody       *uint64
	RichRegistry  bool // many pairs / messengers
	MixedCasePair bool
}

func GenGenesis(r *rand.Rand, o GenOpts) *ct.GenesisState {
	gs := ct.DefaultGenesis()
	if o.FixedRoles {
		gs.Owner, gs.AttesterManager, gs.Pauser, gs.TokenController = Acct(0), Acct(1), Acct(2), Acct(3)
	} else {
		gs.Owner, gs.AttesterManager, gs.Pauser, gs.TokenController = Acct(r.Intn(NAccounts)), Acct(r.Intn(NAccounts)), Acct(r.Intn(NAccounts)), Acct(r.Intn(NAccounts))
	}
	n := 1 + r.Intn(6)
	perm := r.Perm(len(AttesterPool))
	for i := 0; i < n; i++ {
		gs.AttesterList = append(gs.AttesterList, ct.Attester{Attester: AttesterPool[perm[i]].Spell(r.Intn(4))})
	}
	gs.SignatureThreshold = &ct.SignatureThreshold{Amount: uint32(1 + r.Intn(n))}
	if o.Unpaused || r.Intn(8) != 0 {
		gs.BurningAndMintingPaused = &ct.BurningAndMintingPaused{Paused: false}
	} else {
		gs.BurningAndMintingPaused = &ct.BurningAndMintingPaused{Paused: true}
	}
	if o.Unpaused || r.Intn(8) != 0 {
		gs.SendingAndReceivingMessagesPaused = &ct.SendingAndReceivingMessagesPaused{Paused: false}
	} else {
		gs.SendingAndReceivingMessagesPaused = &ct.SendingAndReceivingMessagesPaused{Paused: true}
	}
	if r.Intn(3) == 0 {
		lim := []*big.Int{big.NewInt(1), big.NewInt(2), big.NewInt(1000000), Two64, Two255, Max256}[r.Intn(6)]
		gs.PerMessageBurnLimitList = append(gs.PerMessageBurnLimitList, ct.PerMessageBurnLimit{Denom: "uusdc", Amount: sdkmath.NewIntFromBigInt(lim)})
	}
	if r.Intn(4) == 0 {
		gs.PerMessageBurnLimitList = append(gs.PerMessageBurnLimitList, ct.PerMessageBurnLimit{Denom: "ueure", Amount: sdkmath.NewInt(5)})
	}
	// token pairs
	np := 1 + r.Intn(4)
	if o.RichRegistry {
		np = 6 + r.Intn(10)
	}
	seen := map[pairKey]bool{}
	for i := 0; i < np; i++ {
		d := Domains[r.Intn(len(Domains))]
		t := Token(r.Intn(NTokens))
		k := pairKey{d, string(t)}
		if seen[k] {
			continue
		}
		seen[k] = true
		local := "uusdc"
		switch {
		case (o.MixedCasePair && i == 0) || r.Intn(10) == 0:
			local = "uUSDC"
		case r.Intn(10) == 0:
			local = "ueure"
		case r.Intn(14) == 0:
			local = ""
		}
		gs.TokenPairList = append(gs.TokenPairList, ct.TokenPair{RemoteDomain: d, RemoteToken: t, LocalToken: local})
	}
	// messengers
	for _, d := range Domains {
		if r.Intn(3) != 0 || o.RichRegistry {
			addr := Messenger(d, 0)
			if r.Intn(12) == 0 && !o.RichRegistry {
				addr = make([]byte, 32)
			}
			gs.TokenMessengerList = append(gs.TokenMessengerList, ct.RemoteTokenMessenger{DomainId: d, Address: addr})
		}
	}
	if !o.NoUsed {
		for i := r.Intn(4); i > 0; i-- {
			gs.UsedNoncesList = append(gs.UsedNoncesList, ct.Nonce{SourceDomain: Domains[r.Intn(len(Domains))], Nonce: HostileNonces[r.Intn(len(HostileNonces))]})
		}
		// dedupe
		m := map[nonceKey]bool{}
		var l []ct.Nonce
		for _, u := range gs.UsedNoncesList {
			k := nonceKey{u.SourceDomain, u.Nonce}
			if !m[k] {
				m[k] = true
				l = append(l, u)
			}
		}
		gs.UsedNoncesList = l
	}
	if o.Start != nil {
		gs.NextAvailableNonce = &ct.Nonce{Nonce: *o.Start}
	} else if r.Intn(2) == 0 {
		starts := []uint64{0, 1, 0xffffffff, 0x100000000, 1 << 63, ^uint64(0) - 100000}
		gs.NextAvailableNonce = &ct.Nonce{Nonce: starts[r.Intn(len(starts))]}
	}
	if o.MaxBody != nil {
		gs.MaxMessageBodySize = &ct.MaxMessageBodySize{Amount: *o.MaxBody}
	} else if r.Intn(3) == 0 {
		sizes := []uint64{0, 131, 132, 133, 8000, 300}
		gs.MaxMessageBodySize = &ct.MaxMessageBodySize{Amount: sizes[r.Intn(len(sizes))]}
	}
	return gs
}

// DefaultFunding gives every universe account a balance.
func DefaultFunding(r *rand.Rand, double bool) (map[string]*big.Int, *big.Int) {
	f := map[string]*big.Int{}
	for i := 0; i < NAccounts; i++ {
		v := big.NewInt(int64(1_000_000 * (i + 1)))
		if i == 5 {
			v = new(big.Int).Set(Two128)
		}
		if i == 6 {
			v = big.NewInt(0)
		}
		if double && i == 4 {
			v = new(big.Int).Lsh(Max256, 16)
		}
		f[Acct(i)] = v
	}
	f[LongAcct()] = big.NewInt(77_000_000)
	f[VeryLongAcct()] = big.NewInt(55_000_000)
	f[TinyAcct()] = big.NewInt(33_000_000)
	f[HugeAcct()] = big.NewInt(11_000_000)
	allow := new(big.Int).Add(Two255, Two128)
	if double {
		allow = new(big.Int).Lsh(Max256, 8)
	}
	return f, allow
}

// ---------------------------------------------------------------- message builders

// InMsg is an inbound CCTP message under construction.
type InMsg struct {
	Version   uint32
	Src, Dst  uint32
	Nonce     uint64
	Sender    []byte
	Recipient []byte
	Caller    []byte
	Body      []byte
}

func (m *InMsg) Bytes() []byte {
	b, err := ref.EncodeMessage(&ref.Message{Version: m.Version, SrcDomain: m.Src, DstDomain: m.Dst, Nonce: m.Nonce,
		Sender: m.Sender, Recipient: m.Recipient, Caller: m.Caller, Body: m.Body})
	if err != nil {
		panic(err)
	}
	return b
}

func BurnBody(version uint32, token, mintRecipient []byte, amt *big.Int, sender []byte) []byte {
	b, err := ref.EncodeBurn(&ref.BurnMessage{Version: version, BurnToken: token, MintRecipient: mintRecipient, Amount: amt, Sender: sender})
	if err != nil {
		panic(err)
	}
	return b
}

// EnabledPoolKeys returns the pool keys whose some spelling is currently enabled (model view).
func (e *Engine) EnabledPoolKeys() []*ref.Key {
	var out []*ref.Key
	for _, k := range AttesterPool {
		for st := 0; st < 4; st++ {
			if e.M.Attesters[k.Spell(st)] {
				out = append(out, k)
				break
			}
		}
	}
	return out
}

// Attest signs msg with threshold-many currently enabled pool keys (the honest attestation service).
func (e *Engine) Attest(msg []byte, vstyle int) []byte {
	keys := e.EnabledPoolKeys()
	t := int(e.M.Threshold)
	if t < 1 || t > len(keys) {
		// cannot be attested honestly under this configuration
		if len(keys) == 0 {
			return make([]byte, 65)
		}
		t = len(keys)
	}
	r := e.Rc.Rand
	perm := r.Perm(len(keys))
	var signers []*ref.Key
	for i := 0; i < t; i++ {
		signers = append(signers, keys[perm[i]])
	}
	if vstyle == 2 && e.TxCount%2 == 1 {
		vstyle = 3 // mixed encodings in the other order
	}
	return ref.HonestAttestation(msg, signers, vstyle)
}

// pickLinked returns a linked (domain, token) whose messenger is registered, if any.
func (e *Engine) pickLinked(r *rand.Rand, needMessenger bool) (uint32, []byte, bool) {
	var ks []pairKey
	for k := range e.M.Pairs {
		if len(k.Token) != 32 {
			continue // a burn message has room for 32-byte tokens only
		}
		if needMessenger {
			if _, ok := e.M.Messengers[k.Domain]; !ok {
				continue
			}
		}
		ks = append(ks, k)
	}
	if len(ks) == 0 {
		return 0, nil, false
	}
	sort.Slice(ks, func(i, j int) bool {
		if ks[i].Domain != ks[j].Domain {
			return ks[i].Domain < ks[j].Domain
		}
		return ks[i].Token < ks[j].Token
	})
	k := ks[r.Intn(len(ks))]
	return k.Domain, []byte(k.Token), true
}

// ---------------------------------------------------------------- history generator

type Gen struct {
	E           *Engine
	R           *rand.Rand
	inNonce     uint64
	received    [][2][]byte // (message, attestation) of successful receives, for replays
	failedRx    []ct.MsgReceiveMessage
	BigAmts     bool
	queue       []Tx // transactions scheduled to run next (follow-ups of probes)
	noSameBlock bool
	OddAccounts bool // occasionally use valid accounts whose address is 1, 32, 40 or 255 bytes long
	CycleProbes bool // rollback probes: every kind in turn, alternately queued / same-block
	probeN      int
}

func NewGen(e *Engine) *Gen { return &Gen{E: e, R: e.Rc.Rand, inNonce: 1000, OddAccounts: true} }

func (g *Gen) acct() string {
	if g.OddAccounts && g.R.Intn(25) == 0 {
		return []string{TinyAcct(), HugeAcct(), LongAcct(), VeryLongAcct()}[g.R.Intn(4)]
	}
	return Acct(g.R.Intn(NAccounts))
}

func (g *Gen) amount() *big.Int {
	r := g.R
	switch r.Intn(10) {
	case 0:
		if r.Intn(3) == 0 {
			return big.NewInt(0)
		}
		return big.NewInt(1)
	case 1:
		if g.BigAmts {
			return new(big.Int).Set(AmountClasses[2+r.Intn(len(AmountClasses)-2)].V)
		}
		return new(big.Int).Set(AmountClasses[2+r.Intn(3)].V)
	default:
		return big.NewInt(int64(1 + r.Intn(5000)))
	}
}

func (g *Gen) holder(role string) string {
	m := g.E.M
	switch role {
	case "owner":
		return m.Owner
	case "am":
		return m.AM
	case "pauser":
		return m.Pauser
	case "tc":
		return m.TC
	}
	return ""
}

// maybeWrong returns the holder most of the time and some other account otherwise.
func (g *Gen) maybeWrong(holder string) string {
	if g.R.Intn(5) == 0 {
		return g.acct()
	}
	return holder
}

func (g *Gen) rand32() []byte {
	switch g.R.Intn(6) {
	case 0:
		return ref.Pad32(AcctBytes(g.R.Intn(NAccounts)))
	case 1:
		b := Structured32(byte(g.R.Intn(200)))
		return b
	default:
		return Structured32(byte(1 + g.R.Intn(250)))
	}
}

func (g *Gen) shape32() []byte {
	r := g.R
	switch r.Intn(12) {
	case 0:
		return nil
	case 1:
		return make([]byte, 32)
	case 2:
		return Structured32(7)[:31]
	case 3:
		return append(Structured32(9), 1)
	default:
		return g.rand32()
	}
}

func (g *Gen) body() []byte {
	r := g.R
	lens := []int{0, 1, 31, 131, 132, 133, 300, 7999, 8000, 8001}
	n := lens[r.Intn(len(lens))]
	if r.Intn(2) == 0 {
		n = r.Intn(200)
	}
	b := make([]byte, n)
	for i := range b {
		b[i] = byte(i*7 + n)
	}
	return b
}

// Inbound builds a receive that would succeed (as far as the model can tell), then perturbs it.
func (g *Gen) Inbound(perturb bool) *ct.MsgReceiveMessage {
	e, r := g.E, g.R
	from := g.acct()
	m := &InMsg{Version: 0, Dst: 4, Caller: make([]byte, 32)}
	g.inNonce++
	m.Nonce = g.inNonce
	if r.Intn(6) == 0 {
		m.Nonce = HostileNonces[r.Intn(len(HostileNonces))]
	}
	toModule := r.Intn(3) != 0
	if d, tok, ok := e.pickLinked(r, true); ok && toModule {
		m.Src = d
		m.Sender = e.M.Messengers[d]
		if len(m.Sender) != 32 {
			m.Sender = Messenger(d, 0)
		}
		m.Recipient = modulePadded
		recip := ref.Pad32(AcctBytes(r.Intn(NAccounts)))
		if r.Intn(14) == 0 { // the module's own account as mint recipient
			recip = append([]byte(nil), modulePadded...)
		} else if r.Intn(5) == 0 {
			for i := 0; i < 12; i++ {
				recip[i] = byte(0xe0 + i)
			}
		}
		amt := g.amount()
		m.Body = BurnBody(0, tok, recip, amt, g.rand32())
	} else {
		m.Src = Domains[r.Intn(len(Domains))]
		m.Sender = g.rand32()
		m.Recipient = g.rand32()
		m.Body = g.body()
		if len(m.Body) > 300 {
			m.Body = m.Body[:300]
		}
	}
	if r.Intn(3) == 0 {
		m.Caller = ref.Pad32(addrBytes(from))
	}
	if perturb {
		switch r.Intn(14) {
		case 0:
			m.Dst = Domains[r.Intn(len(Domains))]
		case 1:
			m.Version = uint32(1 + r.Intn(3))
		case 2:
			m.Caller = ref.Pad32(AcctBytes(r.Intn(NAccounts)))
		case 9:
			m.Caller = make([]byte, 32)
			m.Caller[r.Intn(12)] = byte(1 + r.Intn(255))
		case 10:
			m.Recipient = NearModuleRecipient(byte(1 + r.Intn(200)))
		case 3:
			if len(m.Body) == 132 {
				m.Body[3] = 1 // burn body version
			}
		case 4:
			m.Sender = g.rand32()
		case 5:
			if len(m.Body) == 132 {
				m.Body[35] ^= 0x55 // burn token
			}
		case 6:
			if len(m.Body) == 132 {
				m.Body = m.Body[:131]
			}
		case 7:
			if len(m.Body) == 132 {
				m.Body = append(m.Body, 0)
			}
		case 8:
			m.Src = Domains[r.Intn(len(Domains))]
		}
	}
	raw := m.Bytes()
	att := e.Attest(raw, r.Intn(3))
	if perturb {
		switch r.Intn(16) {
		case 0:
			raw = raw[:r.Intn(116)]
			att = e.Attest(raw, 0)
		case 1:
			att = MutateAttestation(r, raw, att, e.EnabledPoolKeys(), int(e.M.Threshold))
		case 2:
			att = MutateAttestation(r, raw, att, e.EnabledPoolKeys(), int(e.M.Threshold))
		}
	}
	return &ct.MsgReceiveMessage{From: from, Message: raw, Attestation: att}
}

// Next produces the next transaction of a hostile history.
func (g *Gen) Next() Tx {
	e, r := g.E, g.R
	m := e.M
	if len(g.queue) > 0 {
		tx := g.queue[0]
		g.queue = g.queue[1:]
		return tx
	}
	perturb := r.Intn(3) == 0
	var msgs []sdk.Msg
	if r.Intn(20) == 0 {
		return g.RollbackProbe()
	}
	nm := 1
	if r.Intn(12) == 0 {
		nm = 2 + r.Intn(2)
	}
	for i := 0; i < nm; i++ {
		msgs = append(msgs, g.one(m, perturb))
	}
	if nm == 1 {
		switch r.Intn(24) {
		case 0: // the same request twice in one transaction (a second operation on the same key)
			if c := cloneMsg(msgs[0]); c != nil {
				return Tx{Msgs: []sdk.Msg{msgs[0], c}, Note: "same request twice in one transaction"}
			}
		case 1: // a request and its inverse in one transaction
			if inv := inverseOf(msgs[0], m); inv != nil {
				return Tx{Msgs: []sdk.Msg{msgs[0], inv}, Note: "request and its inverse in one transaction"}
			}
		case 2: // inverse first
			if inv := inverseOf(msgs[0], m); inv != nil {
				return Tx{Msgs: []sdk.Msg{inv, msgs[0]}, Note: "inverse and request in one transaction"}
			}
		case 3:
			aliasFields(msgs[0], r)
		case 4, 5:
			if dp := g.dependentPair(); dp != nil {
				return Tx{Msgs: dp, Note: "two messages of one transaction, the second depending on the first"}
			}
		}
	}
	return Tx{Msgs: msgs}
}

// dependentPair: an administrative request followed, in the same transaction, by a request whose outcome depends on
// it (all by the right holders; the model judges the pair sequentially).
func (g *Gen) dependentPair() []sdk.Msg {
	e, r, m := g.E, g.R, g.E.M
	att := func(raw []byte, keys []*ref.Key) []byte { return ref.HonestAttestation(raw, keys, r.Intn(3)) }
	switch r.Intn(8) {
	case 0: // link a pair, then receive a burn message on it
		d := Domains[r.Intn(len(Domains))]
		tok := Token(r.Intn(NTokens))
		if _, linked := m.Pairs[pairKey{d, string(tok)}]; linked || len(m.Messengers[d]) != 32 {
			return nil
		}
		g.inNonce++
		in := &InMsg{Version: 0, Src: d, Dst: 4, Nonce: g.inNonce, Sender: m.Messengers[d], Recipient: modulePadded, Caller: make([]byte, 32),
			Body: BurnBody(0, tok, ref.Pad32(AcctBytes(r.Intn(NAccounts))), big.NewInt(int64(1+r.Intn(500))), g.rand32())}
		raw := in.Bytes()
		return []sdk.Msg{&ct.MsgLinkTokenPair{From: m.TC, RemoteDomain: d, RemoteToken: tok, LocalToken: "uusdc"}, &ct.MsgReceiveMessage{From: g.acct(), Message: raw, Attestation: e.Attest(raw, 0)}}
	case 1: // enable an attester, then receive a message that needs its signature (threshold raised in between)
		keys := e.EnabledPoolKeys()
		x := freshAttester(m, r.Intn(8))
		k := poolKeyBySpelling(x)
		if k == nil || len(keys) == 0 {
			return nil
		}
		g.inNonce++
		in := &InMsg{Version: 0, Src: 1, Dst: 4, Nonce: g.inNonce, Sender: g.rand32(), Recipient: g.rand32(), Caller: make([]byte, 32), Body: []byte("dependent")}
		raw := in.Bytes()
		all := append(append([]*ref.Key{}, keys...), k)
		return []sdk.Msg{&ct.MsgEnableAttester{From: m.AM, Attester: x}, &ct.MsgUpdateSignatureThreshold{From: m.AM, Amount: uint32(len(m.Attesters) + 1)},
			&ct.MsgReceiveMessage{From: g.acct(), Message: raw, Attestation: att(raw, all)}}
	case 2: // name a pending owner, accept, and act as the new owner
		nw := g.acct()
		return []sdk.Msg{&ct.MsgUpdateOwner{From: m.Owner, NewOwner: nw}, &ct.MsgAcceptOwner{From: nw}, &ct.MsgUpdatePauser{From: nw, NewPauser: g.acct()}}
	case 3: // register a messenger, then deposit there
		for _, d := range []uint32{21, 22, 23, 24, 25} {
			if _, ok := m.Messengers[d]; !ok {
				return []sdk.Msg{&ct.MsgAddRemoteTokenMessenger{From: m.Owner, DomainId: d, Address: Messenger(d, 1)},
					&ct.MsgDepositForBurn{From: Acct(RichIx), Amount: mkInt(big.NewInt(3)), DestinationDomain: d, MintRecipient: g.rand32(), BurnToken: e.MintDenom()}}
			}
		}
	case 4: // set a limit, then deposit exactly at it and just above it
		lim := big.NewInt(int64(2 + r.Intn(40)))
		return []sdk.Msg{&ct.MsgSetMaxBurnAmountPerMessage{From: m.TC, LocalToken: "uusdc", Amount: mkInt(lim)},
			&ct.MsgDepositForBurn{From: Acct(RichIx), Amount: mkInt(new(big.Int).Add(lim, big.NewInt(int64(r.Intn(2))))), DestinationDomain: 0, MintRecipient: g.rand32(), BurnToken: e.MintDenom()}}
	case 5: // pause / unpause, then send
		var first sdk.Msg = &ct.MsgPauseSendingAndReceivingMessages{From: m.Pauser}
		if m.PausedSR {
			first = &ct.MsgUnpauseSendingAndReceivingMessages{From: m.Pauser}
		}
		return []sdk.Msg{first, &ct.MsgSendMessage{From: g.acct(), DestinationDomain: 0, Recipient: g.rand32(), MessageBody: []byte("after")}}
	case 6: // shrink the max body size, then send a body that no longer fits / still fits
		return []sdk.Msg{&ct.MsgUpdateMaxMessageBodySize{From: m.Owner, MessageSize: 10}, &ct.MsgSendMessage{From: g.acct(), DestinationDomain: 0, Recipient: g.rand32(), MessageBody: make([]byte, 10+r.Intn(2))}}
	case 7: // disable an attester, then receive a message signed by it
		keys := e.EnabledPoolKeys()
		if len(keys) < 2 || int(m.Threshold) >= len(m.Attesters) || int(m.Threshold) > len(keys) || m.Threshold < 1 {
			return nil
		}
		g.inNonce++
		in := &InMsg{Version: 0, Src: 2, Dst: 4, Nonce: g.inNonce, Sender: g.rand32(), Recipient: g.rand32(), Caller: make([]byte, 32), Body: []byte("dependent")}
		raw := in.Bytes()
		return []sdk.Msg{&ct.MsgDisableAttester{From: m.AM, Attester: firstAttester(m)}, &ct.MsgReceiveMessage{From: g.acct(), Message: raw, Attestation: att(raw, keys[:m.Threshold])}}
	}
	return nil
}

func cloneMsg(m sdk.Msg) sdk.Msg {
	if _, ok := m.(AbsentField); ok {
		return nil
	}
	bz, err := proto.Marshal(m)
	if err != nil {
		return nil
	}
	c, ok := reflect.New(reflect.TypeOf(m).Elem()).Interface().(sdk.Msg)
	if !ok || proto.Unmarshal(bz, c) != nil {
		return nil
	}
	return c
}

// inverseOf returns the administrative request that undoes m (by the same submitter), or nil.
func inverseOf(m sdk.Msg, st *State) sdk.Msg {
	switch x := m.(type) {
	case *ct.MsgEnableAttester:
		return &ct.MsgDisableAttester{From: x.From, Attester: x.Attester}
	case *ct.MsgDisableAttester:
		return &ct.MsgEnableAttester{From: x.From, Attester: x.Attester}
	case *ct.MsgLinkTokenPair:
		return &ct.MsgUnlinkTokenPair{From: x.From, RemoteDomain: x.RemoteDomain, RemoteToken: x.RemoteToken, LocalToken: x.LocalToken}
	case *ct.MsgUnlinkTokenPair:
		return &ct.MsgLinkTokenPair{From: x.From, RemoteDomain: x.RemoteDomain, RemoteToken: x.RemoteToken, LocalToken: x.LocalToken}
	case *ct.MsgAddRemoteTokenMessenger:
		return &ct.MsgRemoveRemoteTokenMessenger{From: x.From, DomainId: x.DomainId}
	case *ct.MsgRemoveRemoteTokenMessenger:
		addr := st.Messengers[x.DomainId]
		if len(addr) != 32 {
			addr = Messenger(x.DomainId, 3)
		}
		return &ct.MsgAddRemoteTokenMessenger{From: x.From, DomainId: x.DomainId, Address: addr}
	case *ct.MsgPauseBurningAndMinting:
		return &ct.MsgUnpauseBurningAndMinting{From: x.From}
	case *ct.MsgUnpauseBurningAndMinting:
		return &ct.MsgPauseBurningAndMinting{From: x.From}
	case *ct.MsgPauseSendingAndReceivingMessages:
		return &ct.MsgUnpauseSendingAndReceivingMessages{From: x.From}
	case *ct.MsgUnpauseSendingAndReceivingMessages:
		return &ct.MsgPauseSendingAndReceivingMessages{From: x.From}
	case *ct.MsgUpdateOwner:
		return &ct.MsgAcceptOwner{From: x.NewOwner}
	}
	return nil
}

// aliasFields makes two fields of one request carry the same value (valid, but structurally unusual).
func aliasFields(m sdk.Msg, r *rand.Rand) {
	switch x := m.(type) {
	case *ct.MsgSendMessage:
		if r.Intn(2) == 0 {
			x.MessageBody = append([]byte(nil), x.Recipient...)
		} else if ab := addrBytes(x.From); len(ab) == 20 {
			x.Recipient = ref.Pad32(ab)
		}
	case *ct.MsgSendMessageWithCaller:
		switch r.Intn(3) {
		case 0:
			x.DestinationCaller = append([]byte(nil), x.Recipient...)
		case 1:
			if ab := addrBytes(x.From); len(ab) == 20 {
				x.DestinationCaller = ref.Pad32(ab)
			}
		default:
			// a body that looks like a whole message
			if len(x.Recipient) != 32 || len(x.DestinationCaller) != 32 {
				return
			}
			in := &InMsg{Version: 0, Src: 4, Dst: x.DestinationDomain, Nonce: 1, Sender: x.Recipient, Recipient: x.Recipient, Caller: x.DestinationCaller, Body: []byte("nested")}
			x.MessageBody = in.Bytes()
		}
	case *ct.MsgDepositForBurn:
		if ab := addrBytes(x.From); len(ab) == 20 {
			x.MintRecipient = ref.Pad32(ab)
		}
	case *ct.MsgDepositForBurnWithCaller:
		if r.Intn(2) == 0 {
			x.DestinationCaller = append([]byte(nil), x.MintRecipient...)
		} else if ab := addrBytes(x.From); len(ab) == 20 {
			x.MintRecipient, x.DestinationCaller = ref.Pad32(ab), ref.Pad32(ab)
		}
	case *ct.MsgReplaceMessage:
		x.NewMessageBody = append([]byte(nil), x.OriginalMessage...)
	case *ct.MsgReplaceDepositForBurn:
		x.NewDestinationCaller = append([]byte(nil), x.NewMintRecipient...)
	case *ct.MsgLinkTokenPair:
		x.RemoteToken = Messenger(x.RemoteDomain, 0)
	case *ct.MsgAddRemoteTokenMessenger:
		x.Address = Token(int(x.DomainId) % NTokens)
	case *ct.MsgUpdateOwner:
		x.NewOwner = x.From
	case *ct.MsgUpdatePauser:
		x.NewPauser = x.From
	case *ct.MsgUpdateAttesterManager:
		x.NewAttesterManager = x.From
	case *ct.MsgUpdateTokenController:
		x.NewTokenController = x.From
	}
}

func (g *Gen) one(m *State, perturb bool) sdk.Msg {
	e, r := g.E, g.R
	switch k := r.Intn(100); {
	case k < 22: // receive (fresh)
		return g.Inbound(perturb)
	case k < 30: // replay of an earlier successful receive, possibly re-attested / altered
		if len(g.received) == 0 {
			return g.Inbound(perturb)
		}
		p := g.received[r.Intn(len(g.received))]
		raw := append([]byte(nil), p[0]...)
		switch r.Intn(4) {
		case 0: // verbatim
			return &ct.MsgReceiveMessage{From: g.acct(), Message: raw, Attestation: append([]byte(nil), p[1]...)}
		case 1: // different body, validly attested
			if len(raw) > 116 {
				raw[len(raw)-1] ^= 0xff
			} else {
				raw = append(raw, 1, 2, 3)
			}
		case 2: // different recipient
			raw[60] ^= 0x11
		case 3: // other attestation encoding
		}
		return &ct.MsgReceiveMessage{From: g.acct(), Message: raw, Attestation: e.Attest(raw, r.Intn(3))}
	case k < 34: // repaired-after-failure receive
		if len(g.failedRx) == 0 {
			return g.Inbound(false)
		}
		f := g.failedRx[len(g.failedRx)-1]
		g.failedRx = g.failedRx[:len(g.failedRx)-1]
		mm, err := ref.DecodeMessage(f.Message)
		if err != nil {
			return g.Inbound(false)
		}
		in := &InMsg{Version: 0, Src: mm.SrcDomain, Dst: 4, Nonce: mm.Nonce, Sender: g.rand32(), Recipient: g.rand32(), Caller: make([]byte, 32), Body: []byte("repaired")}
		raw := in.Bytes()
		return &ct.MsgReceiveMessage{From: f.From, Message: raw, Attestation: e.Attest(raw, r.Intn(3))}
	case k < 46: // deposit
		from := g.acct()
		dst := Domains[r.Intn(len(Domains))]
		if !perturb {
			for _, d := range sortedDomains(m.Messengers) {
				if r.Intn(2) == 0 {
					dst = d
				}
			}
		}
		amt := g.amount()
		denom := "uusdc"
		mr := g.rand32()
		if perturb {
			switch r.Intn(8) {
			case 0:
				amt = big.NewInt(0)
			case 1:
				amt = big.NewInt(-1)
			case 2:
				denom = Denoms[r.Intn(len(Denoms)-1)+1]
			case 3:
				mr = g.shape32()
			case 4:
				if l, ok := m.Limits["uusdc"]; ok {
					amt = new(big.Int).Add(l, big.NewInt(int64(r.Intn(3)-1)))
				}
			}
		}
		if r.Intn(2) == 0 {
			return &ct.MsgDepositForBurn{From: from, Amount: mkInt(amt), DestinationDomain: dst, MintRecipient: mr, BurnToken: denom}
		}
		c := g.rand32()
		if perturb && r.Intn(3) == 0 {
			c = g.shape32()
		}
		return &ct.MsgDepositForBurnWithCaller{From: from, Amount: mkInt(amt), DestinationDomain: dst, MintRecipient: mr, BurnToken: denom, DestinationCaller: c}
	case k < 54: // send
		rec := g.rand32()
		if perturb && r.Intn(3) == 0 {
			rec = g.shape32()
		}
		if r.Intn(2) == 0 {
			return &ct.MsgSendMessage{From: g.acct(), DestinationDomain: Domains[r.Intn(len(Domains))], Recipient: rec, MessageBody: g.body()}
		}
		c := g.rand32()
		if perturb && r.Intn(3) == 0 {
			c = g.shape32()
		}
		return &ct.MsgSendMessageWithCaller{From: g.acct(), DestinationDomain: Domains[r.Intn(len(Domains))], Recipient: rec, MessageBody: g.body(), DestinationCaller: c}
	case k < 64: // replacements
		var ns []uint64
		for n := range m.Emitted {
			ns = append(ns, n)
		}
		if len(ns) == 0 {
			return &ct.MsgSendMessage{From: g.acct(), DestinationDomain: 0, Recipient: g.rand32(), MessageBody: g.body()}
		}
		sort.Slice(ns, func(i, j int) bool { return ns[i] < ns[j] })
		em := m.Emitted[ns[r.Intn(len(ns))]]
		orig := em.Original
		if r.Intn(3) == 0 {
			orig = em.Latest
		}
		att := e.Attest(orig, r.Intn(3))
		if perturb && r.Intn(4) == 0 {
			att = MutateAttestation(r, orig, att, e.EnabledPoolKeys(), int(m.Threshold))
		}
		nc := g.rand32()
		if r.Intn(4) == 0 {
			nc = make([]byte, 32)
		}
		if perturb && r.Intn(4) == 0 {
			nc = g.shape32()
		}
		if em.ByModule {
			from := em.Depositor
			if perturb && r.Intn(3) == 0 {
				from = g.acct()
			}
			mr := g.rand32()
			if perturb && r.Intn(4) == 0 {
				mr = g.shape32()
			}
			if r.Intn(8) == 0 { // wrong entry point for a module message
				return &ct.MsgReplaceMessage{From: from, OriginalMessage: orig, OriginalAttestation: att, NewMessageBody: g.body(), NewDestinationCaller: nc}
			}
			return &ct.MsgReplaceDepositForBurn{From: from, OriginalMessage: orig, OriginalAttestation: att, NewDestinationCaller: nc, NewMintRecipient: mr}
		}
		from := Bech(em.Sender[12:32])
		if perturb && r.Intn(3) == 0 {
			from = g.acct()
		}
		if r.Intn(10) == 0 {
			return &ct.MsgReplaceDepositForBurn{From: from, OriginalMessage: orig, OriginalAttestation: att, NewDestinationCaller: nc, NewMintRecipient: g.rand32()}
		}
		return &ct.MsgReplaceMessage{From: from, OriginalMessage: orig, OriginalAttestation: att, NewMessageBody: g.body(), NewDestinationCaller: nc}
	default:
		return g.admin(m)
	}
}

func (g *Gen) admin(m *State) sdk.Msg {
	r := g.R
	switch r.Intn(26) {
	case 0:
		return &ct.MsgUpdateOwner{From: g.maybeWrong(m.Owner), NewOwner: g.acct()}
	case 1:
		from := g.acct()
		if m.HasPending && r.Intn(3) != 0 {
			from = m.Pending
		}
		return &ct.MsgAcceptOwner{From: from}
	case 2:
		return &ct.MsgUpdateAttesterManager{From: g.maybeWrong(m.Owner), NewAttesterManager: g.acct()}
	case 3:
		return &ct.MsgUpdatePauser{From: g.maybeWrong(m.Owner), NewPauser: g.acct()}
	case 4:
		return &ct.MsgUpdateTokenController{From: g.maybeWrong(m.Owner), NewTokenController: g.acct()}
	case 5:
		sizes := []uint64{0, 131, 132, 133, 8000, 300, 1 << 40, 1 << 63, ^uint64(0), 8000, 300}
		return &ct.MsgUpdateMaxMessageBodySize{From: g.maybeWrong(m.Owner), MessageSize: sizes[r.Intn(len(sizes))]}
	case 6, 7:
		d := Domains[r.Intn(len(Domains))]
		return &ct.MsgAddRemoteTokenMessenger{From: g.maybeWrong(m.Owner), DomainId: d, Address: Messenger(d, r.Intn(2))}
	case 8:
		return &ct.MsgRemoveRemoteTokenMessenger{From: g.maybeWrong(m.Owner), DomainId: Domains[r.Intn(len(Domains))]}
	case 9, 10:
		if r.Intn(6) == 0 { // an identifier that is a string prefix of a full key's spelling (e.g. a 20-byte address-like hex)
			return &ct.MsgEnableAttester{From: g.maybeWrong(m.AM), Attester: AttesterPool[r.Intn(len(AttesterPool))].Spell(r.Intn(2))[:[]int{4, 42, 66}[r.Intn(3)]]}
		}
		return &ct.MsgEnableAttester{From: g.maybeWrong(m.AM), Attester: AttesterPool[r.Intn(len(AttesterPool))].Spell(r.Intn(4))}
	case 11, 12:
		a := AttesterPool[r.Intn(len(AttesterPool))].Spell(r.Intn(4))
		for _, s := range sortedStrings(m.Attesters) {
			if r.Intn(2) == 0 {
				a = s
				break
			}
		}
		return &ct.MsgDisableAttester{From: g.maybeWrong(m.AM), Attester: a}
	case 13, 14:
		return &ct.MsgUpdateSignatureThreshold{From: g.maybeWrong(m.AM), Amount: uint32(r.Intn(len(m.Attesters) + 2))}
	case 15:
		return &ct.MsgPauseBurningAndMinting{From: g.maybeWrong(m.Pauser)}
	case 16, 17:
		return &ct.MsgUnpauseBurningAndMinting{From: g.maybeWrong(m.Pauser)}
	case 18:
		return &ct.MsgPauseSendingAndReceivingMessages{From: g.maybeWrong(m.Pauser)}
	case 19, 20:
		return &ct.MsgUnpauseSendingAndReceivingMessages{From: g.maybeWrong(m.Pauser)}
	case 21, 22:
		local := []string{"uusdc", "UUSDC", "uusdc", "ueure", "uusdc", "uUsdc", "uusdc", ""}[r.Intn(8)]
		return &ct.MsgLinkTokenPair{From: g.maybeWrong(m.TC), RemoteDomain: Domains[r.Intn(len(Domains))], RemoteToken: Token(r.Intn(NTokens)), LocalToken: local}
	case 23:
		d, tok := Domains[r.Intn(len(Domains))], Token(r.Intn(NTokens))
		if dd, tt, ok := g.E.pickLinked(r, false); ok && r.Intn(2) == 0 {
			d, tok = dd, tt
		}
		local := m.Pairs[pairKey{d, string(tok)}]
		if local == "" {
			local = "uusdc"
		}
		return &ct.MsgUnlinkTokenPair{From: g.maybeWrong(m.TC), RemoteDomain: d, RemoteToken: tok, LocalToken: local}
	default:
		lims := []*big.Int{big.NewInt(0), big.NewInt(1), big.NewInt(2), big.NewInt(1000000), Two64, Two255, Max256}
		denom := []string{"uusdc", "UUSDC", "uUsdc", "ueure"}[r.Intn(4)]
		if r.Intn(8) == 0 {
			return SetMaxAbsentAmount(g.maybeWrong(m.TC), denom)
		}
		return &ct.MsgSetMaxBurnAmountPerMessage{From: g.maybeWrong(m.TC), LocalToken: denom, Amount: sdkmath.NewIntFromBigInt(lims[r.Intn(len(lims))])}
	}
}

// Observe lets the generator learn from a report (successful receives are replayed later).
func (g *Gen) Learn(tx Tx, rep *Report) {
	for _, m := range tx.Msgs {
		if rx, ok := m.(*ct.MsgReceiveMessage); ok && len(tx.Msgs) == 1 {
			if rep.OK {
				if len(g.received) < 200 {
					g.received = append(g.received, [2][]byte{rx.Message, rx.Attestation})
				}
			} else if len(g.failedRx) < 50 {
				g.failedRx = append(g.failedRx, *rx)
			}
		}
	}
}

// NewHistoryEngine builds a chain with a generated genesis suited to long histories.
func NewHistoryEngine(rc *RunCtx, o GenOpts, double, fold bool) (*Engine, error) {
	o.WellFormed = true
	gs := GenGenesis(rc.Rand, o)
	f, allow := DefaultFunding(rc.Rand, double)
	return NewEngine(rc, chain.Config{Genesis: gs, Funded: f, Allowance: allow, Double: double, Fold: fold})
}

// mkInt converts to math.Int, clamping to the representable range (the wire decoder refuses more).
func mkInt(b *big.Int) sdkmath.Int {
	if b.BitLen() > 256 {
		if b.Sign() < 0 {
			return sdkmath.NewIntFromBigInt(new(big.Int).Neg(Max256))
		}
		return sdkmath.NewIntFromBigInt(Max256)
	}
	return sdkmath.NewIntFromBigInt(b)
}

func msgs1(m sdk.Msg) []sdk.Msg { return []sdk.Msg{m} }

func sortedDomains(m map[uint32][]byte) []uint32 {
	out := make([]uint32, 0, len(m))
	for d := range m {
		out = append(out, d)
	}
	sort.Slice(out, func(i, j int) bool { return out[i] < out[j] })
	return out
}

func sortedStrings(m map[string]bool) []string {
	out := make([]string, 0, len(m))
	for d := range m {
		out = append(out, d)
	}
	sort.Strings(out)
	return out
}

// RollbackProbe builds a transaction whose first message is a state-changing action by the role holder
// (it would succeed alone), whose second message reads the state just written, and whose last message
// fails - so the whole transaction is rolled back. Anything the first message leaked outside the store
// (process memory, in-place mutation of store-owned buffers) shows up in the follow-up transactions that are
// queued behind it: each is the kind of request whose outcome would differ had the first message taken effect.
func (g *Gen) RollbackProbe() Tx {
	r, m, e := g.R, g.E.M, g.E
	var first, reader sdk.Msg
	var extra []sdk.Msg // further messages between the reader and the failing one (re-reads of what was written)
	var follow []sdk.Msg
	nw := g.acct()
	att := func(raw []byte) []byte { return e.Attest(raw, r.Intn(3)) }
	plainInbound := func() sdk.Msg {
		g.inNonce++
		in := &InMsg{Version: 0, Src: 1, Dst: 4, Nonce: g.inNonce, Sender: g.rand32(), Recipient: g.rand32(), Caller: make([]byte, 32), Body: []byte("probe")}
		raw := in.Bytes()
		return &ct.MsgReceiveMessage{From: g.acct(), Message: raw, Attestation: att(raw)}
	}
	// attestedWith: a plain inbound message attested by threshold-many keys that include k (k replaces one
	// enabled signer when outsider, i.e. when k is not enabled in committed state).
	attestedWith := func(k *ref.Key, outsider bool) sdk.Msg {
		g.inNonce++
		in := &InMsg{Version: 0, Src: 2, Dst: 4, Nonce: g.inNonce, Sender: g.rand32(), Recipient: g.rand32(), Caller: make([]byte, 32), Body: []byte("attested-with")}
		raw := in.Bytes()
		keys := e.EnabledPoolKeys()
		t := int(m.Threshold)
		if k == nil || t < 1 || t > len(keys) {
			return &ct.MsgReceiveMessage{From: g.acct(), Message: raw, Attestation: att(raw)}
		}
		var signers []*ref.Key
		if outsider {
			signers = append(signers, k)
		} else {
			signers = append(signers, k)
		}
		for _, ek := range keys {
			if len(signers) >= t {
				break
			}
			if ek != k {
				signers = append(signers, ek)
			}
		}
		return &ct.MsgReceiveMessage{From: g.acct(), Message: raw, Attestation: ref.HonestAttestation(raw, signers, r.Intn(3))}
	}
	kind, sameBlock := r.Intn(14), r.Intn(2) == 1
	if g.CycleProbes { // every kind in turn, alternately queued and same-block, instead of drawn at random
		kind, sameBlock = g.probeN%14, (g.probeN/14)%2 == 0
		g.probeN++
	}
	switch kind {
	case 0:
		first = &ct.MsgUpdatePauser{From: m.Owner, NewPauser: nw}
		follow = []sdk.Msg{&ct.MsgPauseBurningAndMinting{From: nw}, &ct.MsgUnpauseBurningAndMinting{From: m.Pauser}}
	case 1:
		first = &ct.MsgUpdateAttesterManager{From: m.Owner, NewAttesterManager: nw}
		follow = []sdk.Msg{&ct.MsgEnableAttester{From: nw, Attester: freshAttester(m, 3)}}
	case 2:
		first = &ct.MsgUpdateTokenController{From: m.Owner, NewTokenController: nw}
		follow = []sdk.Msg{&ct.MsgSetMaxBurnAmountPerMessage{From: nw, LocalToken: "uusdc", Amount: mkInt(big.NewInt(7))}}
	case 3:
		if m.HasPending && (g.CycleProbes || r.Intn(2) == 0) {
			first = &ct.MsgAcceptOwner{From: m.Pending}
			follow = []sdk.Msg{&ct.MsgUpdatePauser{From: m.Pending, NewPauser: m.Pending}, &ct.MsgUpdateMaxMessageBodySize{From: m.Owner, MessageSize: 8000}}
		} else {
			first = &ct.MsgUpdateOwner{From: m.Owner, NewOwner: nw}
			follow = []sdk.Msg{&ct.MsgAcceptOwner{From: nw}}
		}
	case 4:
		x := freshAttester(m, r.Intn(8))
		first = &ct.MsgEnableAttester{From: m.AM, Attester: x}
		reader = &ct.MsgUpdateSignatureThreshold{From: m.AM, Amount: uint32(len(m.Attesters) + 2)}
		follow = []sdk.Msg{attestedWith(poolKeyBySpelling(x), true), &ct.MsgUpdateSignatureThreshold{From: m.AM, Amount: uint32(len(m.Attesters) + 1)}, plainInbound()}
	case 5:
		first = &ct.MsgDisableAttester{From: m.AM, Attester: firstAttester(m)}
		reader = &ct.MsgDisableAttester{From: m.AM, Attester: "0x00"}
		follow = []sdk.Msg{attestedWith(poolKeyBySpelling(firstAttester(m)), false), plainInbound(), &ct.MsgUpdateSignatureThreshold{From: m.AM, Amount: uint32(len(m.Attesters))}}
	case 6:
		if m.PausedSR {
			first = &ct.MsgUnpauseSendingAndReceivingMessages{From: m.Pauser}
		} else {
			first = &ct.MsgPauseSendingAndReceivingMessages{From: m.Pauser}
		}
		follow = []sdk.Msg{&ct.MsgSendMessage{From: g.acct(), DestinationDomain: 0, Recipient: g.rand32(), MessageBody: []byte("after")}}
	case 7:
		first = &ct.MsgUpdateSignatureThreshold{From: m.AM, Amount: uint32(1 + r.Intn(len(m.Attesters)+1))}
		follow = []sdk.Msg{plainInbound()}
	case 8, 9: // register / rotate a token messenger, then deposit to that domain
		d := Domains[r.Intn(len(Domains))]
		if _, has := m.Messengers[d]; has {
			first = &ct.MsgRemoveRemoteTokenMessenger{From: m.Owner, DomainId: d}
			reader = &ct.MsgAddRemoteTokenMessenger{From: m.Owner, DomainId: d, Address: Messenger(d, 2)}
			extra = []sdk.Msg{&ct.MsgAddRemoteTokenMessenger{From: m.Owner, DomainId: d, Address: Messenger(d, 1)}}
		} else {
			first = &ct.MsgAddRemoteTokenMessenger{From: m.Owner, DomainId: d, Address: Messenger(d, 2)}
			reader = &ct.MsgAddRemoteTokenMessenger{From: m.Owner, DomainId: d, Address: Messenger(d, 1)} // fails: exists
		}
		follow = []sdk.Msg{&ct.MsgDepositForBurn{From: Acct(RichIx), Amount: mkInt(big.NewInt(3)), DestinationDomain: d, MintRecipient: g.rand32(), BurnToken: e.MintDenom()}}
	case 10, 11: // relink a token pair to another denom / link a new one, then receive on it
		d, tok := RemoteDomains[r.Intn(2)], Token(r.Intn(4))
		if dd, tt, ok := e.pickLinked(r, true); ok && r.Intn(2) == 0 {
			d, tok = dd, tt
		}
		if cur, has := m.Pairs[pairKey{d, string(tok)}]; has {
			first = &ct.MsgUnlinkTokenPair{From: m.TC, RemoteDomain: d, RemoteToken: tok, LocalToken: cur}
			reader = &ct.MsgLinkTokenPair{From: m.TC, RemoteDomain: d, RemoteToken: tok, LocalToken: "ueure"}
			// a duplicate link re-reads the pair just written (and fails); so does an unlink + relink
			extra = []sdk.Msg{&ct.MsgLinkTokenPair{From: m.TC, RemoteDomain: d, RemoteToken: tok, LocalToken: "ueure"}}
		} else {
			first = &ct.MsgLinkTokenPair{From: m.TC, RemoteDomain: d, RemoteToken: tok, LocalToken: "uusdc"}
			reader = &ct.MsgLinkTokenPair{From: m.TC, RemoteDomain: d, RemoteToken: tok, LocalToken: "ueure"} // fails: exists
		}
		g.inNonce++
		sender := m.Messengers[d]
		if len(sender) != 32 {
			sender = Messenger(d, 0)
		}
		in := &InMsg{Version: 0, Src: d, Dst: 4, Nonce: g.inNonce, Sender: sender, Recipient: modulePadded, Caller: make([]byte, 32),
			Body: BurnBody(0, tok, ref.Pad32(AcctBytes(r.Intn(NAccounts))), big.NewInt(int64(1+r.Intn(500))), g.rand32())}
		raw := in.Bytes()
		follow = []sdk.Msg{&ct.MsgReceiveMessage{From: g.acct(), Message: raw, Attestation: att(raw)}}
	case 12:
		first = &ct.MsgSetMaxBurnAmountPerMessage{From: m.TC, LocalToken: "uusdc", Amount: mkInt(big.NewInt(1))}
		follow = []sdk.Msg{&ct.MsgDepositForBurn{From: Acct(RichIx), Amount: mkInt(big.NewInt(2)), DestinationDomain: 0, MintRecipient: g.rand32(), BurnToken: e.MintDenom()}}
	default:
		first = &ct.MsgUpdateMaxMessageBodySize{From: m.Owner, MessageSize: 1}
		follow = []sdk.Msg{&ct.MsgSendMessage{From: g.acct(), DestinationDomain: 0, Recipient: g.rand32(), MessageBody: []byte("longer than one")}}
	}
	if reader == nil {
		switch r.Intn(3) {
		case 0:
			reader = g.Inbound(false)
		case 1:
			reader = &ct.MsgSendMessage{From: g.acct(), DestinationDomain: 0, Recipient: g.rand32(), MessageBody: []byte("probe")}
		default:
			reader = &ct.MsgPauseBurningAndMinting{From: m.Pauser}
		}
	}
	failing := &ct.MsgRemoveRemoteTokenMessenger{From: Nobody(), DomainId: 0}
	probe := append(append([]sdk.Msg{first, reader}, extra...), failing)
	if g.noSameBlock || !sameBlock || len(follow) == 0 {
		for _, f := range follow {
			g.queue = append(g.queue, Tx{Msgs: msgs1(f), Note: "follow-up of a rollback probe"})
		}
		return Tx{Msgs: probe, Note: "rollback probe"}
	}
	// same block: the rolled-back probe first, then the request whose outcome would differ had it taken effect
	for _, f := range follow[1:] {
		g.queue = append(g.queue, Tx{Msgs: msgs1(f), Note: "follow-up of a rollback probe"})
	}
	return Tx{Pre: [][]sdk.Msg{probe}, Msgs: msgs1(follow[0]), Note: "follow-up in the same block as a rolled-back probe"}
}

// RollbackProbeFirstOnly: the state-changing first message of a rollback probe as its own transaction (for
// simulation); its follow-ups are queued as usual.
func (g *Gen) RollbackProbeFirstOnly() Tx {
	g.noSameBlock = true
	tx := g.RollbackProbe()
	g.noSameBlock = false
	return Tx{Msgs: tx.Msgs[:2], Note: "simulated " + tx.Note}
}

func poolKeyBySpelling(sp string) *ref.Key {
	for _, k := range AttesterPool {
		for st := 0; st < 4; st++ {
			if k.Spell(st) == sp {
				return k
			}
		}
	}
	return nil
}
