package sim

import (
	"crypto/sha256"
	"encoding/base64"
	"encoding/hex"
	"fmt"
	"strings"
	"math/rand"

	"verif/harness/ref"
)

// Attestation mutation operators (C01). Each takes an honest attestation of msg by
// `signers` (sorted by address) and returns adversarial bytes.
var AttOps = []string{
	"honest", "permute", "dup-sig", "high-s-twin", "high-s-twin-appended", "flip-v", "mixed-v", "truncate", "pad",
	"sign-other-bytes", "sign-digest-of-digest", "sign-prefix", "swap-non-enabled-key", "extra-sig", "missing-sig",
	"zero-r", "zero-s", "r-ge-n", "random-bytes", "swap-two-adjacent", "twin-replaces-neighbour",
	"sign-eth-wrapped-digest", "sign-eth-wrapped-message", "sign-sha256",
	"text-0x-hex", "text-hex", "text-0X-HEX", "text-0x-hex-garbage", "text-base64", "text-json-string", "honest-r-looks-like-text",
}

var vValues = []byte{0, 1, 2, 3, 27, 28, 29, 30, 255}

// MutateAt applies operator op at signature index idx.
// signers: the honest signers in address order; outsider: a pool key that is not enabled.
func MutateAt(r *rand.Rand, op string, idx int, msg []byte, signers []*ref.Key, outsider *ref.Key) []byte {
	return MutateBytes(r, op, idx, msg, ref.HonestAttestation(msg, signers, 0), signers, outsider)
}

// MutateBytes applies op to an existing attestation (composable). Operators that need
// whole chunks are no-ops when att no longer holds len(signers) chunks.
func MutateBytes(r *rand.Rand, op string, idx int, msg []byte, att []byte, signers []*ref.Key, outsider *ref.Key) []byte {
	att = append([]byte(nil), att...)
	t := len(signers)
	if t == 0 {
		return att
	}
	if len(att) < t*65 {
		switch op {
		case "pad", "random-bytes", "truncate":
		default:
			return att
		}
	}
	idx = idx % t
	sig := func(i int) []byte { return att[i*65 : (i+1)*65] }
	switch op {
	case "honest":
		return ref.HonestAttestation(msg, signers, r.Intn(3))
	case "permute":
		if t < 2 {
			return att
		}
		j := (idx + 1 + r.Intn(t-1)) % t
		a, b := append([]byte(nil), sig(idx)...), append([]byte(nil), sig(j)...)
		copy(sig(idx), b)
		copy(sig(j), a)
	case "swap-two-adjacent":
		if t < 2 {
			return att
		}
		i := idx % (t - 1)
		a, b := append([]byte(nil), sig(i)...), append([]byte(nil), sig(i+1)...)
		copy(sig(i), b)
		copy(sig(i+1), a)
	case "dup-sig":
		if t < 2 {
			return att
		}
		j := (idx + 1) % t
		copy(sig(j), append([]byte(nil), sig(idx)...))
	case "high-s-twin":
		copy(sig(idx), ref.HighSTwin(sig(idx)))
	case "twin-replaces-neighbour":
		// signature idx+1 replaced by the twin of signature idx: t chunks, t-1 distinct signers
		if t < 2 {
			return att
		}
		i := idx % (t - 1)
		copy(sig(i+1), ref.HighSTwin(sig(i)))
	case "high-s-twin-appended":
		att = append(att, ref.HighSTwin(sig(idx))...)
	case "flip-v":
		sig(idx)[64] = vValues[r.Intn(len(vValues))]
	case "mixed-v":
		for i := 0; i < t; i++ {
			if (i+idx)%2 == 0 {
				sig(i)[64] += 27
			}
		}
	case "truncate":
		n := []int{1, 64, 65, 66}[r.Intn(4)]
		if n > len(att) {
			n = len(att)
		}
		att = att[:len(att)-n]
	case "pad":
		n := []int{1, 64, 65, 66}[r.Intn(4)]
		pad := make([]byte, n)
		if r.Intn(2) == 0 && len(att) >= (idx+1)*65 {
			copy(pad, sig(idx))
		}
		att = append(att, pad...)
	case "sign-other-bytes":
		other := append(append([]byte(nil), msg...), 1)
		if len(msg) > 0 && r.Intn(2) == 0 {
			other = append([]byte(nil), msg...)
			other[r.Intn(len(other))] ^= 1
		}
		copy(sig(idx), signers[idx].Sign(other))
	case "sign-digest-of-digest":
		copy(sig(idx), signers[idx].Sign(ref.Keccak256(msg)))
	case "sign-prefix":
		copy(sig(idx), signers[idx].Sign(msg[:len(msg)/2]))
	case "swap-non-enabled-key":
		if outsider == nil {
			return att
		}
		// rebuild in address order with the outsider replacing signer idx
		ks := append([]*ref.Key(nil), signers...)
		ks[idx] = outsider
		return ref.HonestAttestation(msg, ks, r.Intn(3))
	case "sign-eth-wrapped-digest", "sign-eth-wrapped-message", "sign-sha256":
		// the right key over another digest of the same message (personal_sign / eth_sign wrapping, sha-256), in the
		// 27/28 or the 0/1 recovery-id convention
		var digest []byte
		switch op {
		case "sign-eth-wrapped-digest":
			d := ref.Keccak256(msg)
			digest = ref.Keccak256(append([]byte("\x19Ethereum Signed Message:\n32"), d...))
		case "sign-eth-wrapped-message":
			digest = ref.Keccak256(append([]byte(fmt.Sprintf("\x19Ethereum Signed Message:\n%d", len(msg))), msg...))
		default:
			h := sha256.Sum256(msg)
			digest = h[:]
		}
		sg := signers[idx].SignDigest(digest)
		if r.Intn(2) == 0 && sg[64] < 27 {
			sg[64] += 27
		}
		copy(sig(idx), sg)
	case "extra-sig":
		if outsider != nil && r.Intn(2) == 0 {
			att = append(att, outsider.Sign(msg)...)
		} else {
			att = append(att, sig(idx)...)
		}
	case "missing-sig":
		att = append(att[:idx*65], att[(idx+1)*65:]...)
	case "zero-r":
		for i := 0; i < 32; i++ {
			sig(idx)[i] = 0
		}
	case "zero-s":
		for i := 32; i < 64; i++ {
			sig(idx)[i] = 0
		}
	case "r-ge-n":
		for i := 0; i < 32; i++ {
			sig(idx)[i] = 0xff
		}
	case "text-0x-hex":
		// the attestation as the text the attestation service hands out, not as bytes
		return []byte("0x" + hex.EncodeToString(att))
	case "text-hex":
		return []byte(hex.EncodeToString(att))
	case "text-0X-HEX":
		return []byte("0X" + strings.ToUpper(hex.EncodeToString(att)))
	case "text-0x-hex-garbage":
		return append([]byte("0x"+hex.EncodeToString(att)), []string{"\n", " ", "\"", "zz", "\x00"}[idx%5]...)
	case "text-base64":
		return []byte(base64.StdEncoding.EncodeToString(att))
	case "text-json-string":
		return []byte("\"0x" + hex.EncodeToString(att) + "\"")
	case "honest-r-looks-like-text":
		// a perfectly valid attestation in which signature idx begins with bytes that read as text ("0x", "0X", {", [")
		copy(sig(idx), signers[idx].SignDigestWithK(ref.Keccak256(msg), ref.TextLikeNonces[r.Intn(len(ref.TextLikeNonces))]))
	case "random-bytes":
		n := len(att)
		if r.Intn(3) == 0 {
			n = r.Intn(400)
		}
		att = make([]byte, n)
		r.Read(att)
	}
	return att
}

// MutateAttestation applies one random operator (history generator helper).
func MutateAttestation(r *rand.Rand, msg, att []byte, enabled []*ref.Key, t int) []byte {
	if t < 1 || t > len(enabled) {
		b := make([]byte, len(att))
		r.Read(b)
		return b
	}
	if len(enabled) > t && r.Intn(8) == 0 {
		// over-signed: more than threshold-many signatures, every one honest, enabled, distinct and in order
		return ref.HonestAttestation(msg, ref.SortByAddr(enabled)[:t+1+r.Intn(len(enabled)-t)], r.Intn(3))
	}
	signers := ref.SortByAddr(enabled)[:t]
	var outsider *ref.Key
	for _, k := range AttesterPool {
		in := false
		for _, e := range enabled {
			if e == k {
				in = true
			}
		}
		if !in {
			outsider = k
			break
		}
	}
	op := AttOps[1+r.Intn(len(AttOps)-1)]
	return MutateAt(r, op, r.Intn(t), msg, signers, outsider)
}
