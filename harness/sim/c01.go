package sim

import (
	"encoding/hex"
	"fmt"
	"math/big"

	sdk "github.com/cosmos/cosmos-sdk/types"

	"github.com/circlefin/noble-cctp/x/cctp/keeper"
	ct "github.com/circlefin/noble-cctp/x/cctp/types"

	"verif/harness/ref"
)

var c01MsgLens = []int{0, 1, 31, 32, 33, 116, 248, 249, 1000, 9000}

// c01Direct drives the exported verifier with composed adversarial attestations and
// judges every call with the exact (iff) and sound (=>) oracles.
func c01Direct(rc *RunCtx, configs int, logCalls bool) {
	r := rc.Rand
	for ci := 0; ci < configs; ci++ {
		n := 1 + (ci+rc.Shard)%8
		perm := r.Perm(len(AttesterPool))
		var enabled []*ref.Key
		var attesters []ct.Attester
		var pubs [][]byte
		for i := 0; i < n; i++ {
			k := AttesterPool[perm[i]]
			enabled = append(enabled, k)
			attesters = append(attesters, ct.Attester{Attester: k.Spell(r.Intn(4))})
			pubs = append(pubs, k.Pub)
		}
		// short junk entries cannot decode to a 65-byte key under any reading
		for j := r.Intn(3); j > 0; j-- {
			attesters = append(attesters, ct.Attester{Attester: []string{"", "zz", "04ab", "0x", "0xzz04"}[r.Intn(5)]})
		}
		outsider := AttesterPool[perm[n]]
		// a confusable entry: the negation of the outsider's key (same X coordinate, other Y) is enabled, the outsider is not
		if ci%3 == 1 {
			neg := ref.NegatePub(outsider.Pub)
			attesters = append(attesters, ct.Attester{Attester: []string{"", "0x"}[r.Intn(2)] + hex.EncodeToString(neg)})
			pubs = append(pubs, neg)
		}
		// entries that carry the outsider's key material in an encoding that is not a 65-byte uncompressed key
		// (compressed, x-only, prefix-less, hybrid): they enable nobody, so the outsider's signature still does not count
		if ci%3 == 2 {
			x, y := outsider.Pub[1:33], outsider.Pub[33:65]
			alts := [][]byte{
				append([]byte{2 + y[31]&1}, x...),                // compressed
				append([]byte{3 - y[31]&1}, x...),                // compressed, other parity (the negated key)
				append([]byte(nil), x...),                        // x only
				append(append([]byte(nil), x...), y...),          // no prefix byte
				append(append([]byte{6 + y[31]&1}, x...), y...),  // hybrid
				append(append([]byte{4}, x...), y[:31]...),       // one byte short
				append(append(append([]byte{4}, x...), y...), 0), // one byte long
			}
			for _, a := range alts {
				if r.Intn(2) == 0 {
					attesters = append(attesters, ct.Attester{Attester: []string{"", "0x"}[r.Intn(2)] + hex.EncodeToString(a)})
				}
			}
		}
		// the same key enabled under further accepted spellings (the store keys entries by spelling)
		dupSpell := 0
		if ci%2 == 0 {
			for i := 0; i < n && dupSpell < 3; i++ {
				if r.Intn(2) == 0 {
					have := ""
					for _, a := range attesters {
						if b, ok := ref.ParseAttesterString(a.Attester); ok && string(b) == string(enabled[i].Pub) {
							have = a.Attester
						}
					}
					for st := 0; st < 4; st++ {
						if sp := enabled[i].Spell(st); sp != have {
							attesters = append(attesters, ct.Attester{Attester: sp})
							pubs = append(pubs, enabled[i].Pub)
							dupSpell++
							break
						}
					}
				}
			}
		}
		r.Shuffle(len(attesters), func(i, j int) { attesters[i], attesters[j] = attesters[j], attesters[i] })
		for t := 1; t <= n; t++ {
			sp := r.Perm(n)
			var signers []*ref.Key
			for i := 0; i < t; i++ {
				signers = append(signers, enabled[sp[i]])
			}
			signers = ref.SortByAddr(signers)
			msg := make([]byte, c01MsgLens[r.Intn(len(c01MsgLens))])
			r.Read(msg)
			for oi, op := range AttOps {
				for idx := 0; idx < t; idx++ {
					att := MutateAt(r, op, idx, msg, signers, outsider)
					comp := op
					// compose up to two further in-place operators on a third of the cases
					if op != "honest" && r.Intn(3) == 0 {
						for c := 1 + r.Intn(2); c > 0; c-- {
							op2 := AttOps[1+r.Intn(len(AttOps)-1)]
							att = MutateBytes(r, op2, r.Intn(t), msg, att, signers, outsider)
							comp += "+" + op2
						}
					}
					c01Judge(rc, msg, att, attesters, pubs, uint32(t), comp, op, idx, logCalls)
					_ = oi
				}
			}
			// thresholds counted in entries rather than keys: repeating a multiply-spelled key's signature must not count twice
			if dupSpell > 0 && t == n {
				for extra := 1; extra <= dupSpell; extra++ {
					base := ref.HonestAttestation(msg, signers, 0)
					for k := 0; k < extra; k++ {
						base = append(base, base[(k%t)*65:(k%t)*65+65]...)
					}
					c01Judge(rc, msg, base, attesters, pubs, uint32(t+extra), "repeat-multiply-spelled-signer", "repeat-multiply-spelled-signer", 0, logCalls)
					// and sorted with the duplicate adjacent to its original
					var adj []byte
					for k := 0; k < t; k++ {
						adj = append(adj, base[k*65:k*65+65]...)
						if k < extra {
							adj = append(adj, base[k*65:k*65+65]...)
						}
					}
					c01Judge(rc, msg, adj, attesters, pubs, uint32(t+extra), "repeat-multiply-spelled-signer-adjacent", "repeat-multiply-spelled-signer", 1, logCalls)
				}
			}
			// honest attestations in each v style, also with more/less enabled than needed
			for vs := 0; vs < 4; vs++ {
				att := ref.HonestAttestation(msg, signers, vs)
				c01Judge(rc, msg, att, attesters, pubs, uint32(t), fmt.Sprintf("honest-v%d", vs), "honest", 0, logCalls)
			}
		}
	}
}

func c01Judge(rc *RunCtx, msg, att []byte, attesters []ct.Attester, pubs [][]byte, t uint32, comp, op string, idx int, logCalls bool) {
	in := append([]byte(nil), att...) // the verifier normalises v in place
	if logCalls {
		rc.LogCall("CALL VerifyAttestationSignatures msg=%x att=%x t=%d n=%d", msg, att, t, len(attesters))
	}
	var got bool
	func() {
		defer func() {
			if p := recover(); p != nil {
				rc.Report(Violation{Props: []string{"C20", "C01"}, Monitor: "crash-tap/recover", Sig: "panic:VerifyAttestationSignatures:" + trunc(fmt.Sprint(p), 60),
					Detail: fmt.Sprintf("verifier panicked: %v", p), Case: map[string]interface{}{"msg": hex.EncodeToString(msg), "att": hex.EncodeToString(att), "t": t}})
			}
		}()
		got = keeper.VerifyAttestationSignatures(msg, in, attesters, t) == nil
	}()
	if logCalls {
		rc.LogCall("DONE")
	}
	exact := ref.ExactAccept(msg, att, pubs, t)
	rc.Cov.Evaluations++
	rc.Cov.Assert("C01.exact-iff")
	verdict := map[bool]string{true: "accept", false: "reject"}[got]
	rc.Cov.Cell("C01_op_verdict", op+"/"+verdict)
	if t >= 3 {
		rc.Cov.Cell("C01_op_index", fmt.Sprintf("%s@%d", op, idx))
	}
	rc.Cov.Distinct(fmt.Sprintf("%s|t%d|n%d|i%d|l%d|%s", comp, t, len(pubs), idx, len(msg), verdict))
	if got && len(att) >= 65 {
		rc.Cov.Cell("C01_accepted_v", fmt.Sprint(att[64]))
	}
	cs := func() interface{} {
		var as []string
		for _, a := range attesters {
			as = append(as, a.Attester)
		}
		return map[string]interface{}{"message": hex.EncodeToString(msg), "attestation": hex.EncodeToString(att), "attesters": as, "threshold": t, "mutation": comp}
	}
	if got != exact {
		dir := "accepted-invalid"
		if exact {
			dir = "rejected-honest"
		}
		rc.Report(Violation{Props: []string{"C01"}, Monitor: "attest.exact", Sig: "C01:" + dir + ":" + op,
			Detail: fmt.Sprintf("verifier returned accept=%v, exact oracle says %v (mutation %s, t=%d, n=%d)", got, exact, comp, t, len(pubs)), Case: cs()})
	}
	if got {
		rc.Cov.Assert("C01.sound")
		if s := ref.SoundSigners(msg, att, pubs); s < int(t) {
			rc.Report(Violation{Props: []string{"C01"}, Monitor: "attest.sound", Sig: "C01:unsound:" + op,
				Detail: fmt.Sprintf("accepted with only %d distinct enabled signers verifying, threshold %d (mutation %s)", s, t, comp), Case: cs()})
		}
	}
	if rc.Cov.Evaluations%4000 == 1 {
		rc.Cov.Sample(cs())
	}
}

var c01BigPool []*ref.Key

// c01LargeQuorums: attester sets of 33..70 keys and thresholds around 32, 33, 64, 65: honest attestations, and
// attestations of exactly the right length in which signers repeat across the 32nd / 64th position, neighbours are
// exchanged there, a signature is the copy of the one 32 places earlier, one signer is not enabled, a block of 16
// signers is repeated. Judged by the exact and the soundness oracle like every other attestation.
func c01LargeQuorums(rc *RunCtx) {
	if c01BigPool == nil {
		c01BigPool = ref.SortByAddr(ref.KeyPool(90)[10:])
	}
	msg := (&InMsg{Version: 0, Src: 0, Dst: 4, Nonce: 4242, Sender: Structured32(1), Recipient: Structured32(2), Caller: make([]byte, 32), Body: []byte("large quorum")}).Bytes()
	sigOf := map[*ref.Key][]byte{}
	sig := func(k *ref.Key) []byte {
		if sigOf[k] == nil {
			sigOf[k] = k.Sign(msg)
		}
		return sigOf[k]
	}
	cat := func(ks []*ref.Key) []byte {
		var out []byte
		for _, k := range ks {
			out = append(out, sig(k)...)
		}
		return out
	}
	ci := 0
	for _, n := range []int{33, 34, 40, 64, 65, 70} {
		en := c01BigPool[:n]
		outsider := c01BigPool[n]
		var attesters []ct.Attester
		var pubs [][]byte
		for i, k := range en {
			attesters = append(attesters, ct.Attester{Attester: k.Spell(i)})
			pubs = append(pubs, k.Pub)
		}
		for _, t := range []int{31, 32, 33, 34, 63, 64, 65, n - 1, n} {
			if t > n || t < 2 {
				continue
			}
			ci++
			if ci%rc.NShards != rc.Shard {
				continue
			}
			base := append([]*ref.Key(nil), en[:t]...)
			try := func(op string, ks []*ref.Key, idx int) {
				if ks == nil {
					return
				}
				c01Judge(rc, msg, cat(ks), attesters, pubs, uint32(t), fmt.Sprintf("large-quorum/%s/n=%d/t=%d", op, n, t), "large-"+op, idx, false)
				rc.Cov.Cell("C01_large_quorums", fmt.Sprintf("%s/t=%d", op, t))
			}
			try("honest", base, 0)
			try("honest-last-signers", append([]*ref.Key(nil), en[n-t:]...), 0)
			for _, b := range []int{32, 64} {
				if t <= b {
					continue
				}
				// signers 0..b-1, then again from signer 1 on: every run of b is increasing, run tails increase
				rep := append([]*ref.Key(nil), en[:b]...)
				for j := 1; len(rep) < t; j++ {
					rep = append(rep, en[j%n])
				}
				try(fmt.Sprintf("repeat-across-%d", b), rep, b)
				// ... with a larger last signer so that the tail of the second run is above the tail of the first
				rep2 := append([]*ref.Key(nil), rep...)
				rep2[t-1] = en[n-1]
				try(fmt.Sprintf("repeat-across-%d-rising-tail", b), rep2, b)
				sw := append([]*ref.Key(nil), base...)
				sw[b-1], sw[b] = sw[b], sw[b-1]
				try(fmt.Sprintf("exchanged-at-%d", b), sw, b)
				cp := append([]*ref.Key(nil), base...)
				cp[b] = cp[b-32]
				try(fmt.Sprintf("copy-of-32-earlier-at-%d", b), cp, b)
				out := append([]*ref.Key(nil), base...)
				out[b] = outsider
				try(fmt.Sprintf("outsider-at-%d", b), out, b)
				if t > b+1 {
					sw2 := append([]*ref.Key(nil), base...)
					sw2[b], sw2[b+1] = sw2[b+1], sw2[b]
					try(fmt.Sprintf("exchanged-after-%d", b), sw2, b+1)
				}
			}
			if t >= 32 {
				blk := []*ref.Key{}
				for len(blk) < t {
					blk = append(blk, en[len(blk)%16])
				}
				try("block-of-16-repeated", blk, 16)
				one := append([]*ref.Key(nil), base...)
				one[t-1] = one[0]
				try("first-signer-again-at-the-end", one, t-1)
			}
		}
	}
}

// c01Tx: receive / replace transactions carry "accepted => sound" (done by the engine's
// outcome oracle, which evaluates the exact oracle under the chain's own attester set).
func c01Tx(rc *RunCtx, nHist, nTx int) {
	for h := 0; h < nHist; h++ {
		e, err := NewHistoryEngine(rc, GenOpts{Unpaused: true}, false, false)
		if err != nil {
			rc.Cov.Inconclusive(err.Error())
			continue
		}
		g := NewGen(e)
		for i := 0; i < nTx; i++ {
			var tx Tx
			switch rc.Rand.Intn(4) {
			case 0:
				tx = g.Next()
			default:
				tx = Tx{Msgs: msgs1(g.Inbound(true))}
				// always adversarial attestation on half of them
				if rc.Rand.Intn(2) == 0 {
					rx := tx.Msgs[0].(*ct.MsgReceiveMessage)
					rx.Attestation = MutateAttestation(rc.Rand, rx.Message, e.Attest(rx.Message, 0), e.EnabledPoolKeys(), int(e.M.Threshold))
				}
			}
			rep := e.Exec(tx)
			g.Learn(tx, rep)
		}
	}
}

// c01Flows: every attestation operator (plus over- and under-signed honest attestations) presented through each
// of the three consuming transaction types, under every threshold the std attester set allows.
func c01Flows(rc *RunCtx, rounds int) {
	e, err := NewProdEngine(rc, false, nil, nil)
	if err != nil {
		rc.Cov.Inconclusive(err.Error())
		return
	}
	g := NewGen(e)
	p := &ProdGen{E: e, G: g}
	r := rc.Rand
	ops := append(append([]string(nil), AttOps...), "oversigned+1", "oversigned-all", "undersigned")
	nonce := uint64(7_000_000 + rc.Shard*100_000)
	for round := 0; round < rounds; round++ {
		n := len(e.EnabledPoolKeys())
		for t := 1; t <= n; t++ {
			e.Exec(Tx{Msgs: msgs1(&ct.MsgUpdateSignatureThreshold{From: e.M.AM, Amount: uint32(t)}), Note: "c01 flows threshold"})
			if int(e.M.Threshold) != t {
				continue
			}
			// a disable naming an enabled key in a spelling under which it is not enabled names an unknown attester:
			// it must be refused, and the key keeps counting
			for _, k := range e.EnabledPoolKeys() {
				for st := 0; st < 4; st++ {
					if sp := k.Spell(st); !e.M.Attesters[sp] {
						rep := e.Exec(Tx{Msgs: msgs1(&ct.MsgDisableAttester{From: e.M.AM, Attester: sp}), Note: "c01 flows disable under another spelling"})
						rc.Cov.Cell("C01_flow_op", "disable-other-spelling/"+okWord(rep.OK))
						break
					}
				}
			}
			// fresh originals for the two replace flows
			e.Exec(Tx{Msgs: msgs1(p.ValidSend(round%2 == 0)), Note: "c01 flows original send"})
			e.Exec(Tx{Msgs: msgs1(p.ValidDeposit(round%2 == 1, 0)), Note: "c01 flows original deposit"})
			for _, op := range ops {
				for flow := 0; flow < 3; flow++ {
					var raw []byte
					var mk func(att []byte) sdk.Msg
					switch flow {
					case 0:
						nonce++
						raw = StdInbound(nonce, r.Intn(NAccounts), big.NewInt(int64(1+r.Intn(1000)))).Bytes()
						mk = func(att []byte) sdk.Msg {
							return &ct.MsgReceiveMessage{From: Acct(UserIx), Message: raw, Attestation: att}
						}
					case 1:
						em := p.emitted(false)
						if em == nil {
							continue
						}
						raw = em.Original
						mk = func(att []byte) sdk.Msg {
							return &ct.MsgReplaceMessage{From: Bech(em.Sender[12:32]), OriginalMessage: raw, OriginalAttestation: att, NewMessageBody: []byte("c01"), NewDestinationCaller: make([]byte, 32)}
						}
					case 2:
						em := p.emitted(true)
						if em == nil || em.Depositor == "" {
							continue
						}
						raw = em.Original
						mk = func(att []byte) sdk.Msg {
							return &ct.MsgReplaceDepositForBurn{From: em.Depositor, OriginalMessage: raw, OriginalAttestation: att, NewDestinationCaller: make([]byte, 32), NewMintRecipient: Structured32(0x42)}
						}
					}
					sorted := ref.SortByAddr(e.EnabledPoolKeys())
					var att []byte
					switch op {
					case "oversigned+1":
						if t+1 > len(sorted) {
							continue
						}
						att = ref.HonestAttestation(raw, sorted[:t+1], r.Intn(3))
					case "oversigned-all":
						if t+1 > len(sorted) {
							continue
						}
						att = ref.HonestAttestation(raw, sorted, r.Intn(3))
					case "undersigned":
						if t < 2 {
							continue
						}
						att = ref.HonestAttestation(raw, sorted[:t-1], r.Intn(3))
					default:
						att = MutateAt(r, op, r.Intn(t), raw, sorted[:t], AttesterPool[9])
					}
					rep := e.Exec(Tx{Msgs: msgs1(mk(att)), Note: "c01 flows " + op})
					rc.Cov.Cell("C01_flow_op", fmt.Sprintf("%s/%s/t=%d/%s", []string{"receive", "replace-message", "replace-deposit"}[flow], op, t, okWord(rep.OK)))
				}
			}
		}
	}
}

func init() {
	Register(&Check{
		ID: "C01", Level: "exploration",
		Rule: "direct calls of the exported verifier with honest attestations put through composed mutation operators at every signature index, for attester sets of size 1..8 (mixed hex spellings + short junk entries) and every threshold 1..n, judged by an exact (iff, decred pure-Go recovery) and a sound (=>, plain ECDSA verification, no recovery) oracle; plus receive/replace transactions on the real chain judged by the same exact oracle under the chain's attester set. distinct = (operator composition, threshold, set size, index, message length, verdict).",
		Shards: func(t string) int {
			if t == "thorough" {
				return 16
			}
			return 4
		},
		Run: func(rc *RunCtx) {
			if sm := subMode(); sm == "asan" {
				c01Direct(rc, 16, true)
				return
			}
			c01Direct(rc, rc.Pick(8, 64), false)
			c01Tx(rc, rc.Pick(1, 6), rc.Pick(400, 1500))
			c01Flows(rc, rc.Pick(1, 4))
			c01LargeQuorums(rc)
			ProbeHistory(rc, rc.Pick(240, 900), false)
		},
		Floors: func(c *Cov, tier string) []string {
			var miss []string
			if n := c.Matrix["C01_op_verdict"]["honest-r-looks-like-text/accept"]; n < 100 {
				miss = append(miss, fmt.Sprintf("honest signatures whose r word reads as text accepted: %d", n))
			}
			for _, op := range AttOps {
				for idx := 0; idx < 3; idx++ {
					if c.Matrix["C01_op_index"][fmt.Sprintf("%s@%d", op, idx)] == 0 {
						miss = append(miss, fmt.Sprintf("operator %s never applied at index %d with t>=3", op, idx))
					}
				}
			}
			for _, v := range []string{"0", "1", "27", "28"} {
				if c.Matrix["C01_accepted_v"][v] == 0 {
					miss = append(miss, "no accepted attestation ending in v="+v)
				}
			}
			if len(c.Matrix["C01_large_quorums"]) < 100 || c.Matrix["C01_op_verdict"]["large-honest/accept"] < 30 {
				miss = append(miss, fmt.Sprintf("large quorums: %d cells, %d honest accepted", len(c.Matrix["C01_large_quorums"]), c.Matrix["C01_op_verdict"]["large-honest/accept"]))
			}
			if c.Matrix["C01_op_verdict"]["honest/accept"] < 200 {
				miss = append(miss, "fewer than 200 accepted honest attestations")
			}
			return miss
		},
		Extra: func(tier string) []ExtraPass {
			if tier == "thorough" {
				return []ExtraPass{{Build: "asan", Mode: "asan", N: 4}}
			}
			return nil
		},
		Assumptions: []string{"decred secp256k1 (pure Go) is a correct ECDSA implementation", "keccak256 from golang.org/x/crypto", "thresholds outside 1..n and malformed attester strings are outside the quantifier"},
	})
}
