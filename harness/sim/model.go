package sim

import (
	"bytes"
	"fmt"
	"math/big"
	"sort"
	"strings"

	sdk "github.com/cosmos/cosmos-sdk/types"

	ct "github.com/circlefin/noble-cctp/x/cctp/types"

	"verif/harness/chain"
	"verif/harness/ref"
)

// The reference model (DESIGN.md Appendix A). Written from the property statements and
// the module spec, not from the handlers. It never calls into x/cctp/keeper; it reads
// the public request structs (the module's API) only.

type Outcome int

const (
	MustSucceed Outcome = iota
	MustFail
	DontCare
	DepDependent // succeeds iff every expected dependency call is made and returns ok
)

func (o Outcome) String() string {
	return [...]string{"MustSucceed", "MustFail", "DontCare", "DepDependent"}[o]
}

type pairKey struct {
	Domain uint32
	Token  string
}
type nonceKey struct {
	Domain uint32
	Nonce  uint64
}

// Emitted is an outbound message this chain really emitted (kept for C05/C09).
type Emitted struct {
	Nonce       uint64
	Original    []byte
	Latest      []byte
	ByModule    bool
	Sender      []byte // 32-byte sender field
	Depositor   string // bech32, for module-sent
	Amount      *big.Int
	BurnTokenEv string // burn_token attribute of the original DepositForBurn event
	All         [][]byte
}

type State struct {
	Owner, Pending  string
	HasPending      bool
	AM, Pauser, TC  string
	PausedBM        bool
	PausedSR        bool
	Threshold       uint32
	Attesters       map[string]bool
	Limits          map[string]*big.Int
	Pairs           map[pairKey]string
	Messengers      map[uint32][]byte
	Used            map[nonceKey]bool
	NextNonce       uint64
	MaxBody         uint64
	HasMaxBody      bool
	Emitted         map[uint64]*Emitted
	MintDenom       string
	Minted          *big.Int // sum over accepted burn messages
	Burned          *big.Int // sum over outbound deposits
	AcceptedBurnMsg int
}

func (s *State) mintDenom() string {
	if s.MintDenom != "" {
		return s.MintDenom
	}
	return chain.MintDenom
}

func NewState() *State {
	return &State{
		Attesters: map[string]bool{}, Limits: map[string]*big.Int{}, Pairs: map[pairKey]string{},
		Messengers: map[uint32][]byte{}, Used: map[nonceKey]bool{}, Emitted: map[uint64]*Emitted{},
		Minted: new(big.Int), Burned: new(big.Int),
	}
}

// FromGenesis builds the model state a chain initialised with gs must have, filling in
// the documented defaults (absent flags -> paused, max body 8000, next nonce 0, threshold 1).
func FromGenesis(gs *ct.GenesisState) *State {
	s := NewState()
	s.Owner, s.AM, s.Pauser, s.TC = gs.Owner, gs.AttesterManager, gs.Pauser, gs.TokenController
	for _, a := range gs.AttesterList {
		s.Attesters[a.Attester] = true
	}
	for _, l := range gs.PerMessageBurnLimitList {
		v := new(big.Int)
		if !l.Amount.IsNil() {
			v = l.Amount.BigInt()
		}
		s.Limits[l.Denom] = v
	}
	s.PausedBM, s.PausedSR = true, true
	if gs.BurningAndMintingPaused != nil {
		s.PausedBM = gs.BurningAndMintingPaused.Paused
	}
	if gs.SendingAndReceivingMessagesPaused != nil {
		s.PausedSR = gs.SendingAndReceivingMessagesPaused.Paused
	}
	s.MaxBody, s.HasMaxBody = 8000, true
	if gs.MaxMessageBodySize != nil {
		s.MaxBody = gs.MaxMessageBodySize.Amount
	}
	if gs.NextAvailableNonce != nil {
		s.NextNonce = gs.NextAvailableNonce.Nonce
	}
	s.Threshold = 1
	if gs.SignatureThreshold != nil {
		s.Threshold = gs.SignatureThreshold.Amount
	}
	for _, p := range gs.TokenPairList {
		s.Pairs[pairKey{p.RemoteDomain, string(p.RemoteToken)}] = p.LocalToken
	}
	for _, n := range gs.UsedNoncesList {
		s.Used[nonceKey{n.SourceDomain, n.Nonce}] = true
	}
	for _, m := range gs.TokenMessengerList {
		s.Messengers[m.DomainId] = append([]byte(nil), m.Address...)
	}
	return s
}

func (s *State) Clone() *State {
	c := *s
	c.Attesters = map[string]bool{}
	for k, v := range s.Attesters {
		c.Attesters[k] = v
	}
	c.Limits = map[string]*big.Int{}
	for k, v := range s.Limits {
		c.Limits[k] = v
	}
	c.Pairs = map[pairKey]string{}
	for k, v := range s.Pairs {
		c.Pairs[k] = v
	}
	c.Messengers = map[uint32][]byte{}
	for k, v := range s.Messengers {
		c.Messengers[k] = v
	}
	c.Used = map[nonceKey]bool{}
	for k, v := range s.Used {
		c.Used[k] = v
	}
	c.Emitted = map[uint64]*Emitted{}
	for k, v := range s.Emitted {
		e := *v
		c.Emitted[k] = &e
	}
	c.Minted = new(big.Int).Set(s.Minted)
	c.Burned = new(big.Int).Set(s.Burned)
	return &c
}

// Hash is a short digest of the configuration part of the state (for distinct counting).
func (s *State) Hash() string {
	var att []string
	for a := range s.Attesters {
		att = append(att, tail(a))
	}
	sort.Strings(att)
	return fmt.Sprintf("o%s|p%s/%v|a%s|u%s|t%s|f%v%v|th%d|at%v|l%d|pr%d|m%d|un%d|nn%d|mb%d",
		tail(s.Owner), tail(s.Pending), s.HasPending, tail(s.AM), tail(s.Pauser), tail(s.TC), s.PausedBM, s.PausedSR,
		s.Threshold, att, len(s.Limits), len(s.Pairs), len(s.Messengers), len(s.Used), s.NextNonce, s.MaxBody)
}

func tail(a string) string {
	if len(a) > 6 {
		return a[len(a)-6:]
	}
	return a
}

// EnabledKeys parses the attester strings; junk=true if some entry is not well-formed hex of 65 bytes.
func (s *State) EnabledKeys() (keys [][]byte, junk bool) {
	names := make([]string, 0, len(s.Attesters))
	for a := range s.Attesters {
		names = append(names, a)
	}
	sort.Strings(names)
	for _, a := range names {
		b, ok := ref.ParseAttesterString(a)
		if !ok {
			junk = true
			continue
		}
		keys = append(keys, b)
	}
	return
}

// AttOK evaluates the C01 exact oracle under the current attester set and threshold.
// dc is set when the configuration lies outside the property's quantifier.
func (s *State) AttOK(msg, att []byte) (ok bool, dc bool) {
	keys, junk := s.EnabledKeys()
	if junk || s.Threshold < 1 {
		dc = true
	}
	// a threshold above the number of enabled attesters is a reachable configuration (genesis, bootstrap): no
	// attestation can carry that many distinct enabled signers, so nothing is validly attested (ExactAccept says no)
	return ref.ExactAccept(msg, att, keys, s.Threshold), dc
}

// DepExp is an expected fallible dependency request.
type DepExp struct {
	Method string
	From   string
	To     string
	Denom  string
	Amount *big.Int
}

// SentExp is the expected content of a MessageSent event.
type SentExp struct {
	Msg ref.Message
}

type DepositEvExp struct {
	Nonce         uint64
	Amount        *big.Int
	Depositor     string
	MintRecipient []byte
	DstDomain     uint32
	Messenger     []byte
	Caller        []byte // empty == all-zero
	BurnToken     string // "" = don't care (deposit); else must equal (replacement)
}

type RecvExp struct {
	Caller    string
	SrcDomain uint32
	Nonce     uint64
	Sender    []byte
	Body      []byte
	Mint      bool
	MintRecip []byte
	Amount    *big.Int
	MintToken string
}

// Expect is the model's verdict for one message on a state.
type Expect struct {
	Kind      string // short transaction-type name
	Out       Outcome
	Why       string
	FailProps []string // properties that own the MustFail verdict
	OKProps   []string // properties that own a MustSucceed verdict
	Conds     uint32   // false-condition bitmask (C03/C08 matrices)
	DCNote    string

	Effect    func(s *State)
	Writes    int // documented maximum number of distinct store keys written on success
	Deps      []DepExp
	Sent      *SentExp
	DepositEv *DepositEvExp
	Recv      *RecvExp
	RespNonce *uint64
	// ContentDC: the emitted message's sender fields are outside the statement (submitter address is not 20 bytes)
	ContentDC bool
	// SemDiff: human label of the documented semantic change (for C15 evidence)
	SemDiff string
}

func (e *Expect) fail(why string, props ...string) {
	if e.Out != MustFail {
		e.Out = MustFail
		e.Why = why
	} else {
		e.Why += "+" + why
	}
	for _, p := range props {
		e.FailProps = addProp(e.FailProps, p)
	}
}

func (e *Expect) dc(note string) {
	if e.DCNote == "" {
		e.DCNote = note
	} else {
		e.DCNote += "+" + note
	}
}

func addProp(l []string, p string) []string {
	for _, x := range l {
		if x == p {
			return l
		}
	}
	return append(l, p)
}

func u64p(v uint64) *uint64 { return &v }

var modulePadded = ref.Pad32(ct.ModuleAddress)

func moduleBech() string { return Bech(ct.ModuleAddress) }

func is32NonZero(b []byte) bool { return len(b) == 32 && !ref.IsZero(b) }

// isBlank: the spec's "blank" (absent, empty or all-zero of the canonical length).
func isBlank32(b []byte) bool { return len(b) == 0 || (len(b) == 32 && ref.IsZero(b)) }

// Expect computes the verdict for msg on s. It does not mutate s.
func (s *State) Expect(m sdk.Msg) *Expect {
	e := &Expect{Out: MustSucceed, Writes: 1}
	admin := func(kind, holder, from, role string, extra ...string) bool {
		e.Kind = kind
		e.OKProps = append([]string{"C10", "C12"}, extra...)
		if from != holder {
			if from != strings.ToLower(from) && strings.ToLower(from) == holder {
				e.dc("non-canonical-spelling-of-holder")
				return false
			}
			e.fail("not-"+role, "C10")
			return false
		}
		return true
	}
	switch msg := m.(type) {
	case *ct.MsgUpdateOwner:
		ok := admin("UpdateOwner", s.Owner, msg.From, "owner", "C11")
		if ok && !validAddr(msg.NewOwner) {
			e.dc("invalid-new-owner")
		}
		nw := msg.NewOwner
		e.Effect = func(s *State) { s.Pending, s.HasPending = nw, true }
		e.SemDiff = "pending-owner"
	case *ct.MsgAcceptOwner:
		e.Kind = "AcceptOwner"
		e.OKProps = []string{"C10", "C11", "C12"}
		e.Writes = 2
		if !s.HasPending {
			e.fail("no-pending-owner", "C10", "C11")
		} else if msg.From != s.Pending {
			if msg.From != strings.ToLower(msg.From) && strings.ToLower(msg.From) == s.Pending {
				e.dc("non-canonical-spelling-of-holder")
			} else {
				e.fail("not-pending-owner", "C10", "C11")
			}
		}
		e.Effect = func(s *State) { s.Owner = s.Pending; s.Pending, s.HasPending = "", false }
		e.SemDiff = "owner+pending-owner"
	case *ct.MsgUpdateAttesterManager:
		admin("UpdateAttesterManager", s.Owner, msg.From, "owner", "C11")
		if !validAddr(msg.NewAttesterManager) {
			e.fail("invalid-address", "C11")
		}
		nw := msg.NewAttesterManager
		e.Effect = func(s *State) { s.AM = nw }
		e.SemDiff = "attester-manager"
	case *ct.MsgUpdatePauser:
		admin("UpdatePauser", s.Owner, msg.From, "owner", "C11")
		if !validAddr(msg.NewPauser) {
			e.fail("invalid-address", "C11")
		}
		nw := msg.NewPauser
		e.Effect = func(s *State) { s.Pauser = nw }
		e.SemDiff = "pauser"
	case *ct.MsgUpdateTokenController:
		admin("UpdateTokenController", s.Owner, msg.From, "owner", "C11")
		if !validAddr(msg.NewTokenController) {
			e.fail("invalid-address", "C11")
		}
		nw := msg.NewTokenController
		e.Effect = func(s *State) { s.TC = nw }
		e.SemDiff = "token-controller"
	case *ct.MsgUpdateMaxMessageBodySize:
		admin("UpdateMaxMessageBodySize", s.Owner, msg.From, "owner")
		sz := msg.MessageSize
		e.Effect = func(s *State) { s.MaxBody, s.HasMaxBody = sz, true }
		e.SemDiff = "max-body"
	case *ct.MsgAddRemoteTokenMessenger:
		ok := admin("AddRemoteTokenMessenger", s.Owner, msg.From, "owner", "C19")
		if _, dup := s.Messengers[msg.DomainId]; dup {
			e.fail("messenger-exists", "C19")
		} else if ok && !is32NonZero(msg.Address) {
			e.dc("messenger-address-shape")
		}
		d, a := msg.DomainId, append([]byte(nil), msg.Address...)
		e.Effect = func(s *State) { s.Messengers[d] = a }
		e.SemDiff = fmt.Sprintf("messenger[%d]", d)
	case *ct.MsgRemoveRemoteTokenMessenger:
		admin("RemoveRemoteTokenMessenger", s.Owner, msg.From, "owner", "C19")
		if _, ok := s.Messengers[msg.DomainId]; !ok {
			e.fail("messenger-missing", "C19")
		}
		d := msg.DomainId
		e.Effect = func(s *State) { delete(s.Messengers, d) }
		e.SemDiff = fmt.Sprintf("messenger[%d]", d)
	case *ct.MsgEnableAttester:
		ok := admin("EnableAttester", s.AM, msg.From, "attester-manager", "C13", "C19")
		if s.Attesters[msg.Attester] {
			e.fail("attester-exists", "C13", "C19", "C01")
		} else if ok {
			if _, wf := ref.ParseAttesterString(msg.Attester); !wf {
				e.dc("attester-not-wellformed")
			}
		}
		a := msg.Attester
		e.Effect = func(s *State) { s.Attesters[a] = true }
		e.SemDiff = "attester[" + tail(a) + "]"
	case *ct.MsgDisableAttester:
		admin("DisableAttester", s.AM, msg.From, "attester-manager", "C13", "C19")
		if !s.Attesters[msg.Attester] {
			e.fail("attester-missing", "C13", "C19", "C01")
		} else {
			if len(s.Attesters) <= 1 {
				e.fail("last-attester", "C13")
			}
			if uint32(len(s.Attesters)) <= s.Threshold {
				e.fail("below-threshold", "C13")
			}
		}
		a := msg.Attester
		e.Effect = func(s *State) { delete(s.Attesters, a) }
		e.SemDiff = "attester[" + tail(a) + "]"
	case *ct.MsgUpdateSignatureThreshold:
		ok := admin("UpdateSignatureThreshold", s.AM, msg.From, "attester-manager", "C13")
		if msg.Amount == 0 {
			e.fail("threshold-zero", "C13")
		} else if uint64(msg.Amount) > uint64(len(s.Attesters)) {
			e.fail("threshold-too-high", "C13")
		} else if ok && msg.Amount == s.Threshold {
			e.dc("threshold-unchanged")
		}
		t := msg.Amount
		e.Effect = func(s *State) { s.Threshold = t }
		e.SemDiff = "threshold"
	case *ct.MsgPauseBurningAndMinting:
		admin("PauseBurningAndMinting", s.Pauser, msg.From, "pauser")
		e.Effect = func(s *State) { s.PausedBM = true }
		e.SemDiff = "flag-bm"
	case *ct.MsgUnpauseBurningAndMinting:
		admin("UnpauseBurningAndMinting", s.Pauser, msg.From, "pauser")
		e.Effect = func(s *State) { s.PausedBM = false }
		e.SemDiff = "flag-bm"
	case *ct.MsgPauseSendingAndReceivingMessages:
		admin("PauseSendingAndReceivingMessages", s.Pauser, msg.From, "pauser")
		e.Effect = func(s *State) { s.PausedSR = true }
		e.SemDiff = "flag-sr"
	case *ct.MsgUnpauseSendingAndReceivingMessages:
		admin("UnpauseSendingAndReceivingMessages", s.Pauser, msg.From, "pauser")
		e.Effect = func(s *State) { s.PausedSR = false }
		e.SemDiff = "flag-sr"
	case *ct.MsgLinkTokenPair:
		ok := admin("LinkTokenPair", s.TC, msg.From, "token-controller", "C19")
		k := pairKey{msg.RemoteDomain, string(msg.RemoteToken)}
		if _, dup := s.Pairs[k]; dup && len(msg.RemoteToken) == 32 {
			e.fail("pair-exists", "C19")
		} else if ok {
			if len(msg.RemoteToken) != 32 {
				e.dc("remote-token-length")
			} else if sdk.ValidateDenom(msg.LocalToken) != nil {
				e.dc("local-token-not-a-denom")
			}
		}
		lt := strings.ToLower(msg.LocalToken)
		e.Effect = func(s *State) { s.Pairs[k] = lt }
		e.SemDiff = fmt.Sprintf("pair[%d,%x]", k.Domain, tailb([]byte(k.Token)))
	case *ct.MsgUnlinkTokenPair:
		ok := admin("UnlinkTokenPair", s.TC, msg.From, "token-controller", "C19")
		k := pairKey{msg.RemoteDomain, string(msg.RemoteToken)}
		if cur, has := s.Pairs[k]; !has {
			e.fail("pair-missing", "C19")
		} else if ok && !strings.EqualFold(cur, msg.LocalToken) {
			e.dc("unlink-local-token-differs")
		}
		e.Effect = func(s *State) { delete(s.Pairs, k) }
		e.SemDiff = fmt.Sprintf("pair[%d,%x]", k.Domain, tailb([]byte(k.Token)))
	case *ct.MsgSetMaxBurnAmountPerMessage:
		ok := admin("SetMaxBurnAmountPerMessage", s.TC, msg.From, "token-controller", "C19")
		if ok && !msg.Amount.IsNil() && msg.Amount.IsNegative() {
			e.dc("limit-negative")
		}
		// an amount that is absent on the wire is the scalar's default, 0: the request stores limit 0 like an explicit 0
		d := strings.ToLower(msg.LocalToken)
		var v *big.Int
		if !msg.Amount.IsNil() {
			v = msg.Amount.BigInt()
		} else {
			v = new(big.Int)
		}
		e.Effect = func(s *State) { s.Limits[d] = v }
		e.SemDiff = "limit[" + d + "]"
	case *ct.MsgSendMessage:
		s.expectSend(e, "SendMessage", msg.From, msg.DestinationDomain, msg.Recipient, nil, false, msg.MessageBody)
	case *ct.MsgSendMessageWithCaller:
		s.expectSend(e, "SendMessageWithCaller", msg.From, msg.DestinationDomain, msg.Recipient, msg.DestinationCaller, true, msg.MessageBody)
	case *ct.MsgDepositForBurn:
		var amt *big.Int
		if !msg.Amount.IsNil() {
			amt = msg.Amount.BigInt()
		}
		s.expectDeposit(e, "DepositForBurn", msg.From, amt, msg.DestinationDomain, msg.MintRecipient, msg.BurnToken, nil, false)
	case *ct.MsgDepositForBurnWithCaller:
		var amt *big.Int
		if !msg.Amount.IsNil() {
			amt = msg.Amount.BigInt()
		}
		s.expectDeposit(e, "DepositForBurnWithCaller", msg.From, amt, msg.DestinationDomain, msg.MintRecipient, msg.BurnToken, msg.DestinationCaller, true)
	case *ct.MsgReplaceMessage:
		s.expectReplace(e, msg)
	case *ct.MsgReplaceDepositForBurn:
		s.expectReplaceDeposit(e, msg)
	case *ct.MsgReceiveMessage:
		s.expectReceive(e, msg)
	default:
		e.Kind = fmt.Sprintf("%T", m)
		e.Out = DontCare
		e.dc("unknown-msg-type")
	}
	if e.Out != MustFail && e.DCNote != "" {
		e.Out = DontCare
	}
	return e
}

func tailb(b []byte) []byte {
	if len(b) > 4 {
		return b[len(b)-4:]
	}
	return b
}

func (s *State) expectSend(e *Expect, kind, from string, dst uint32, recipient, caller []byte, withCaller bool, body []byte) {
	e.Kind = kind
	e.OKProps = []string{"C12", "C07"}
	if s.PausedSR {
		e.fail("send-receive-paused", "C12")
	}
	if !validAddr(from) {
		e.fail("invalid-from")
	}
	if !is32NonZero(recipient) {
		e.dc("recipient-shape")
	}
	if s.HasMaxBody && uint64(len(body)) > s.MaxBody {
		e.dc("oversize-body")
	}
	if withCaller && !is32NonZero(caller) {
		e.dc("caller-shape")
	}
	if e.Out == MustFail {
		return
	}
	n := s.NextNonce
	c := caller
	if !withCaller {
		c = make([]byte, 32)
	}
	fb := addrBytes(from)
	if len(fb) != 20 {
		e.ContentDC = true
		if len(fb) > 32 {
			fb = fb[:32]
		}
	}
	e.Sent = &SentExp{Msg: ref.Message{Version: 0, SrcDomain: 4, DstDomain: dst, Nonce: n,
		Sender: ref.Pad32(fb), Recipient: recipient, Caller: c, Body: body}}
	e.RespNonce = u64p(n)
	e.Effect = func(s *State) { s.NextNonce = n + 1 }
	e.SemDiff = "next-nonce"
}

// Deposit precondition bits (C08).
const (
	P1Amount = 1 << iota
	P2Limit
	P3Denom
	P4MintRecipient
	P5Messenger
	P6Flags
	P7BodySize
	P8P9Deps
	P10Caller
	PFrom
)

func (s *State) expectDeposit(e *Expect, kind, from string, amt *big.Int, dst uint32, mintRecipient []byte, burnToken string, caller []byte, withCaller bool) {
	e.Kind = kind
	e.OKProps = []string{"C08", "C12", "C07"}
	if !validAddr(from) {
		e.Conds |= PFrom
		e.fail("invalid-from", "C08")
	}
	if amt == nil || amt.Sign() <= 0 {
		e.Conds |= P1Amount
		e.fail("amount-not-positive", "C08")
	}
	if !is32NonZero(mintRecipient) {
		e.Conds |= P4MintRecipient
		e.fail("mint-recipient", "C08")
	}
	mess, ok := s.Messengers[dst]
	if !ok || (len(mess) == 32 && ref.IsZero(mess)) {
		e.Conds |= P5Messenger
		e.fail("no-messenger", "C08")
	} else if len(mess) != 32 {
		e.dc("messenger-length")
	}
	switch {
	case burnToken == s.mintDenom():
	case strings.ToLower(burnToken) != strings.ToLower(s.mintDenom()):
		// only ASCII letter case is tolerated: a string that merely folds to the denom under Unicode simple case
		// folding ("uu\u017fdc") is another token
		e.Conds |= P3Denom
		e.fail("not-minting-denom", "C08")
	default:
		e.dc("denom-case-variant")
	}
	if s.PausedBM || s.PausedSR {
		e.Conds |= P6Flags
		e.fail("paused", "C08", "C12")
	}
	lower := strings.ToLower(burnToken)
	if lim, has := s.Limits[lower]; has {
		if amt != nil && amt.Cmp(lim) > 0 {
			e.Conds |= P2Limit
			e.fail("over-limit", "C08")
		}
	}
	for k := range s.Limits {
		if k != lower && strings.EqualFold(k, lower) {
			e.dc("limit-under-noncanonical-key")
		}
	}
	if s.HasMaxBody && 132 > s.MaxBody {
		e.Conds |= P7BodySize
		e.fail("body-exceeds-max", "C08")
	}
	if withCaller && !is32NonZero(caller) {
		e.Conds |= P10Caller
		e.fail("caller", "C08")
	}
	if e.Out == MustFail {
		return
	}
	fb := addrBytes(from)
	if len(fb) != 20 {
		// the statement fixes the message content for 20-byte submitters only; who is debited is fixed for every depositor
		e.ContentDC = true
		if len(fb) > 32 {
			fb = fb[:32]
		}
	}
	e.Out = DepDependent
	mod := moduleBech()
	e.Deps = []DepExp{
		{Method: "Transfer", From: Bech(addrBytes(from)), To: ct.ModuleName, Denom: burnToken, Amount: amt}, // the account, however From spells it
		{Method: "Burn", From: mod, Denom: burnToken, Amount: amt},
	}
	n := s.NextNonce
	c := caller
	if !withCaller {
		c = make([]byte, 32)
	}
	body, _ := ref.EncodeBurn(&ref.BurnMessage{Version: 0, BurnToken: ref.Keccak256([]byte(lower)),
		MintRecipient: mintRecipient, Amount: amt, Sender: ref.Pad32(fb)})
	e.Sent = &SentExp{Msg: ref.Message{Version: 0, SrcDomain: 4, DstDomain: dst, Nonce: n,
		Sender: modulePadded, Recipient: mess, Caller: c, Body: body}}
	e.DepositEv = &DepositEvExp{Nonce: n, Amount: amt, Depositor: from, MintRecipient: mintRecipient,
		DstDomain: dst, Messenger: mess, Caller: caller}
	e.RespNonce = u64p(n)
	a := new(big.Int).Set(amt)
	e.Effect = func(s *State) { s.NextNonce = n + 1; s.Burned.Add(s.Burned, a) }
	e.SemDiff = "next-nonce"
}

func (s *State) expectReplace(e *Expect, msg *ct.MsgReplaceMessage) {
	e.Kind = "ReplaceMessage"
	e.OKProps = []string{"C09", "C12"}
	e.Writes = 0
	if s.PausedSR {
		e.fail("send-receive-paused", "C09", "C12")
	}
	ok, dc := s.AttOK(msg.OriginalMessage, msg.OriginalAttestation)
	if dc {
		e.dc("attester-config-outside-quantifier")
	} else if !ok {
		e.fail("attestation-invalid", "C09", "C01")
	}
	om, err := ref.DecodeMessage(msg.OriginalMessage)
	if err != nil {
		e.fail("short-header", "C09")
		return
	}
	if om.SrcDomain != 4 {
		e.fail("foreign-domain", "C09")
	}
	if validAddr(msg.From) && len(addrBytes(msg.From)) != 20 {
		e.dc("submitter-address-not-20-bytes") // how such an account is named in a 32-byte sender field is not fixed by the statement
	} else if !validAddr(msg.From) || !bytes.Equal(ref.Pad32(addrBytes(msg.From)), om.Sender) {
		e.fail("not-original-sender", "C09")
	}
	if len(msg.NewDestinationCaller) != 32 {
		e.dc("new-caller-not-32")
	}
	if s.HasMaxBody && uint64(len(msg.NewMessageBody)) > s.MaxBody {
		e.dc("oversize-new-body")
	}
	if ref.IsZero(om.Recipient) {
		e.dc("zero-original-recipient")
	}
	if e.Out == MustFail {
		return
	}
	e.Sent = &SentExp{Msg: ref.Message{Version: 0, SrcDomain: 4, DstDomain: om.DstDomain, Nonce: om.Nonce,
		Sender: om.Sender, Recipient: om.Recipient, Caller: msg.NewDestinationCaller, Body: msg.NewMessageBody}}
	// every emitted message has version 0 (C06), whatever the version field of the attested original says
	e.Effect = func(s *State) {}
	e.SemDiff = "nothing"
}

func trunc32(b []byte) []byte {
	if len(b) > 32 {
		return b[:32]
	}
	return b
}

func (s *State) expectReplaceDeposit(e *Expect, msg *ct.MsgReplaceDepositForBurn) {
	e.Kind = "ReplaceDepositForBurn"
	e.OKProps = []string{"C09", "C12"}
	e.Writes = 0
	if s.PausedBM || s.PausedSR {
		e.fail("paused", "C09", "C12")
	}
	ok, dc := s.AttOK(msg.OriginalMessage, msg.OriginalAttestation)
	if dc {
		e.dc("attester-config-outside-quantifier")
	} else if !ok {
		e.fail("attestation-invalid", "C09", "C01")
	}
	om, err := ref.DecodeMessage(msg.OriginalMessage)
	if err != nil {
		e.fail("short-header", "C09")
		return
	}
	bm, err := ref.DecodeBurn(om.Body)
	if err != nil {
		e.fail("body-not-burn-message", "C09")
		return
	}
	if !bytes.Equal(om.Sender, modulePadded) {
		e.fail("not-module-sent", "C09", "C05")
	}
	if validAddr(msg.From) && len(addrBytes(msg.From)) != 20 {
		e.dc("submitter-address-not-20-bytes")
	} else if !validAddr(msg.From) || !bytes.Equal(ref.Pad32(addrBytes(msg.From)), bm.Sender) {
		e.fail("not-depositor", "C09")
	}
	em := s.Emitted[om.Nonce]
	emittedHere := false
	if em != nil && em.ByModule {
		for _, v := range em.All {
			if bytes.Equal(v, msg.OriginalMessage) {
				emittedHere = true
			}
		}
	}
	if !emittedHere {
		e.dc("original-not-emitted-by-this-chain")
	}
	if !is32NonZero(msg.NewMintRecipient) {
		e.dc("new-mint-recipient-shape")
	}
	if len(msg.NewDestinationCaller) != 32 {
		e.dc("new-caller-not-32")
	}
	if s.HasMaxBody && 132 > s.MaxBody {
		e.dc("oversize-new-body")
	}
	if om.SrcDomain != 4 || ref.IsZero(om.Recipient) || om.Version != 0 {
		e.dc("original-shape")
	}
	if e.Out == MustFail {
		return
	}
	var body []byte
	if len(msg.NewMintRecipient) == 32 {
		body, _ = ref.EncodeBurn(&ref.BurnMessage{Version: bm.Version, BurnToken: bm.BurnToken, MintRecipient: msg.NewMintRecipient, Amount: bm.Amount, Sender: bm.Sender})
	}
	e.Sent = &SentExp{Msg: ref.Message{Version: 0, SrcDomain: om.SrcDomain, DstDomain: om.DstDomain, Nonce: om.Nonce,
		Sender: om.Sender, Recipient: om.Recipient, Caller: msg.NewDestinationCaller, Body: body}}
	e.DepositEv = &DepositEvExp{Nonce: om.Nonce, Amount: bm.Amount, Depositor: msg.From, MintRecipient: msg.NewMintRecipient,
		DstDomain: om.DstDomain, Messenger: om.Recipient, Caller: msg.NewDestinationCaller}
	if em != nil && emittedHere { // only a message this chain emitted has a deposit event to agree with
		e.DepositEv.BurnToken = em.BurnTokenEv
	}
	e.Effect = func(s *State) {}
	e.SemDiff = "nothing"
}

// Receive condition bits (C03).
const (
	A1NotPaused = 1 << iota
	A2Attestation
	A3Header
	A4DstDomain
	A5Version
	A6NonceUnused
	A7Caller
	B1MintNotPaused
	B2BodyLen
	B3BodyVersion
	B4Messenger
	B5Pair
	B6Mint
)

var CondNames = []string{"A1", "A2", "A3", "A4", "A5", "A6", "A7", "B1", "B2", "B3", "B4", "B5", "B6"}

func (s *State) expectReceive(e *Expect, msg *ct.MsgReceiveMessage) {
	e.Kind = "ReceiveMessage"
	e.OKProps = []string{"C03", "C12", "C01"}
	if s.PausedSR {
		e.Conds |= A1NotPaused
		e.fail("receive-paused", "C03", "C12")
	}
	ok, dc := s.AttOK(msg.Message, msg.Attestation)
	if dc {
		e.dc("attester-config-outside-quantifier")
	} else if !ok {
		e.Conds |= A2Attestation
		e.fail("attestation-invalid", "C03", "C01")
	}
	m, err := ref.DecodeMessage(msg.Message)
	if err != nil {
		e.Conds |= A3Header
		e.fail("short-header", "C03")
		return
	}
	if m.DstDomain != 4 {
		e.Conds |= A4DstDomain
		e.fail("wrong-destination-domain", "C03")
	}
	if m.Version != 0 {
		e.Conds |= A5Version
		e.fail("wrong-version", "C03")
	}
	if s.Used[nonceKey{m.SrcDomain, m.Nonce}] {
		e.Conds |= A6NonceUnused
		e.fail("nonce-used", "C03", "C02")
	}
	if !ref.IsZero(m.Caller) {
		names := Bech(m.Caller[12:32]) == msg.From
		switch {
		case !names:
			if strings.ToLower(msg.From) != msg.From && Bech(m.Caller[12:32]) == strings.ToLower(msg.From) {
				e.dc("non-canonical-submitter")
			} else {
				e.Conds |= A7Caller
				e.fail("wrong-destination-caller", "C03")
			}
		case !ref.IsZero(m.Caller[:12]):
			e.dc("caller-high-bytes-nonzero")
		}
	}
	toModule := bytes.Equal(m.Recipient, modulePadded)
	n := nonceKey{m.SrcDomain, m.Nonce}
	if !toModule {
		if e.Out == MustFail {
			return
		}
		e.Recv = &RecvExp{Caller: msg.From, SrcDomain: m.SrcDomain, Nonce: m.Nonce, Sender: m.Sender, Body: m.Body}
		e.Effect = func(s *State) { s.Used[n] = true }
		e.SemDiff = fmt.Sprintf("used[%d,%d]", n.Domain, n.Nonce)
		return
	}
	if s.PausedBM {
		e.Conds |= B1MintNotPaused
		e.fail("mint-paused", "C03", "C12")
	}
	mess, has := s.Messengers[m.SrcDomain]
	if !has || !bytes.Equal(mess, m.Sender) {
		e.Conds |= B4Messenger
		e.fail("sender-not-messenger", "C03")
	}
	bm, err := ref.DecodeBurn(m.Body)
	if err != nil {
		e.Conds |= B2BodyLen
		e.fail("body-not-132", "C03")
		return
	}
	if bm.Version != 0 {
		e.Conds |= B3BodyVersion
		e.fail("body-version", "C03")
	}
	local, linked := s.Pairs[pairKey{m.SrcDomain, string(bm.BurnToken)}]
	if !linked {
		e.Conds |= B5Pair
		e.fail("pair-not-linked", "C03")
	}
	if bm.Amount.Sign() == 0 {
		e.dc("amount-zero")
	}
	if e.Out == MustFail {
		return
	}
	e.Out = DepDependent
	denom := strings.ToLower(local)
	recip := Bech(bm.MintRecipient[12:32])
	amt := new(big.Int).Set(bm.Amount)
	e.Deps = []DepExp{{Method: "Mint", From: moduleBech(), To: recip, Denom: denom, Amount: amt}}
	e.Recv = &RecvExp{Caller: msg.From, SrcDomain: m.SrcDomain, Nonce: m.Nonce, Sender: m.Sender, Body: m.Body,
		Mint: true, MintRecip: bm.MintRecipient, Amount: amt, MintToken: denom}
	e.Effect = func(s *State) {
		s.Used[n] = true
		s.Minted.Add(s.Minted, amt)
		s.AcceptedBurnMsg++
	}
	e.SemDiff = fmt.Sprintf("used[%d,%d]", n.Domain, n.Nonce)
}
