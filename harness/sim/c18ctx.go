package sim

import (
	"context"
	"crypto/sha256"
	"fmt"
	"math/big"
	"time"

	"github.com/cosmos/cosmos-sdk/types/query"
	sdk "github.com/cosmos/cosmos-sdk/types"
	"github.com/cosmos/gogoproto/proto"

	cctp "github.com/circlefin/noble-cctp/x/cctp"
	cctpkeeper "github.com/circlefin/noble-cctp/x/cctp/keeper"
	ct "github.com/circlefin/noble-cctp/x/cctp/types"
)

type ctxKeyT struct{}

// c18ContextTwin: the Go context that an sdk.Context carries (its deadline, its cancellation, its values) is process
// state, not chain state. On one committed state, every handler, every query handler and the genesis export are called
// directly under a live context and under contexts that are already cancelled, past their deadline, about to pass it
// far in the future, or carry a foreign value; each call on its own branch of the state. Errors, responses, events and
// the exported genesis must be byte-identical to the live run.
func c18ContextTwin(rc *RunCtx) {
	e, err := StdEngine(rc, false, false, nil)
	if err != nil {
		rc.Cov.Inconclusive("c18 context twin engine: " + err.Error())
		return
	}
	e.NoModeTwin, e.NoPositionTwin = true, true
	nonce := uint64(90_000)
	for i := 0; i < 4; i++ { // some state of every kind: used nonces, a moved counter, a burn limit
		nonce++
		raw := StdInbound(nonce, UserIx, big.NewInt(int64(500+i))).Bytes()
		e.Exec(Tx{Msgs: msgs1(&ct.MsgReceiveMessage{From: Acct(OtherIx), Message: raw, Attestation: e.Attest(raw, 0)}), Note: "context twin: mint"})
	}
	e.Exec(Tx{Msgs: msgs1(&ct.MsgSendMessage{From: Acct(UserIx), DestinationDomain: 2, Recipient: Structured32(3), MessageBody: []byte("ctx")}), Note: "context twin: send"})
	e.Exec(Tx{Msgs: msgs1(&ct.MsgSetMaxBurnAmountPerMessage{From: e.M.TC, LocalToken: "uusdc", Amount: mkInt(big.NewInt(1_000_000))}), Note: "context twin: limit"})
	s := e.M
	nonce++
	fresh := StdInbound(nonce, UserIx, big.NewInt(77)).Bytes()
	sentRaw := (&InMsg{Version: 0, Src: 4, Dst: 2, Nonce: s.NextNonce - 1, Sender: padAddr(Acct(UserIx)), Recipient: Structured32(3), Caller: make([]byte, 32), Body: []byte("ctx")}).Bytes()
	batt := []sdk.Msg{
		&ct.MsgDisableAttester{From: s.AM, Attester: firstAttester(s)},
		&ct.MsgEnableAttester{From: s.AM, Attester: freshAttester(s, 1)},
		&ct.MsgUpdateSignatureThreshold{From: s.AM, Amount: s.Threshold + 1},
		&ct.MsgUpdateSignatureThreshold{From: s.AM, Amount: uint32(len(s.Attesters))},
		&ct.MsgUpdateSignatureThreshold{From: s.AM, Amount: uint32(len(s.Attesters)) + 1},
		&ct.MsgReceiveMessage{From: Acct(OtherIx), Message: fresh, Attestation: e.Attest(fresh, 0)},
		&ct.MsgDepositForBurn{From: Acct(RichIx), Amount: mkInt(big.NewInt(12)), DestinationDomain: 0, MintRecipient: Structured32(1), BurnToken: "uusdc"},
		&ct.MsgDepositForBurnWithCaller{From: Acct(RichIx), Amount: mkInt(big.NewInt(13)), DestinationDomain: 1, MintRecipient: Structured32(4), BurnToken: "uusdc", DestinationCaller: Structured32(9)},
		&ct.MsgSendMessage{From: Acct(UserIx), DestinationDomain: 2, Recipient: Structured32(3), MessageBody: []byte("ctx 2")},
		&ct.MsgReplaceMessage{From: Acct(UserIx), OriginalMessage: sentRaw, OriginalAttestation: e.Attest(sentRaw, 0), NewMessageBody: []byte("ctx 3"), NewDestinationCaller: Structured32(6)},
		&ct.MsgLinkTokenPair{From: s.TC, RemoteDomain: 44, RemoteToken: Token(2), LocalToken: "uusdc"},
		&ct.MsgUnlinkTokenPair{From: s.TC, RemoteDomain: 0, RemoteToken: Token(0), LocalToken: "uusdc"},
		&ct.MsgAddRemoteTokenMessenger{From: s.Owner, DomainId: 77, Address: Messenger(77, 0)},
		&ct.MsgRemoveRemoteTokenMessenger{From: s.Owner, DomainId: 0},
		&ct.MsgUpdateOwner{From: s.Owner, NewOwner: Acct(6)},
		&ct.MsgPauseBurningAndMinting{From: s.Pauser},
		&ct.MsgUpdateMaxMessageBodySize{From: s.Owner, MessageSize: 4000},
	}
	srv := cctpkeeper.NewMsgServerImpl(e.C.Keeper)
	qs := ct.QueryServer(*e.C.Keeper)
	digest := func(parts ...interface{}) string {
		h := sha256.New()
		for _, p := range parts {
			switch v := p.(type) {
			case proto.Message:
				if bz, err := proto.Marshal(v); err == nil {
					h.Write(bz)
				} else {
					fmt.Fprintf(h, "marshal-err:%v", err)
				}
			default:
				fmt.Fprintf(h, "|%v|", v)
			}
		}
		return fmt.Sprintf("%x", h.Sum(nil)[:8])
	}
	errStr := func(err error) string {
		if err == nil {
			return "ok"
		}
		return "err:" + err.Error()
	}
	run := func(mk func() (context.Context, context.CancelFunc)) (out []string) {
		call := func(name string, f func(ctx sdk.Context) string) {
			goCtx, cancel := mk()
			defer cancel()
			base, _ := e.C.UncachedCtx().CacheContext()
			ctx := base.WithContext(goCtx).WithEventManager(sdk.NewEventManager())
			res := "?"
			func() {
				defer func() {
					if p := recover(); p != nil {
						res = fmt.Sprintf("panic:%v", p)
					}
				}()
				res = f(ctx)
			}()
			out = append(out, name+"="+res)
		}
		call("export", func(ctx sdk.Context) string {
			gs := cctp.ExportGenesis(ctx, e.C.Keeper)
			return digest(gs, len(gs.AttesterList), len(gs.UsedNoncesList), len(gs.TokenPairList), len(gs.TokenMessengerList), len(gs.PerMessageBurnLimitList)) +
				fmt.Sprintf(" (attesters=%d used=%d pairs=%d messengers=%d limits=%d)", len(gs.AttesterList), len(gs.UsedNoncesList), len(gs.TokenPairList), len(gs.TokenMessengerList), len(gs.PerMessageBurnLimitList))
		})
		for i, m := range batt {
			m := m
			call(fmt.Sprintf("tx%d:%s", i, msgKind(m)), func(ctx sdk.Context) string {
				resp, err := callMsgServer(srv, ctx, m)
				ev := 0
				for _, x := range ctx.EventManager().Events() {
					ev += 1 + len(x.Attributes)
				}
				return errStr(err) + "/" + digest(resp) + fmt.Sprintf("/events=%d", ev)
			})
		}
		for _, p := range []*query.PageRequest{nil, {Limit: 2, CountTotal: true}, {Offset: 1, Limit: 100}} {
			p := p
			call("q:Attesters", func(ctx sdk.Context) string {
				r, err := qs.Attesters(ctx, &ct.QueryAllAttestersRequest{Pagination: p})
				return errStr(err) + "/" + digest(r)
			})
			call("q:UsedNonces", func(ctx sdk.Context) string {
				r, err := qs.UsedNonces(ctx, &ct.QueryAllUsedNoncesRequest{Pagination: p})
				return errStr(err) + "/" + digest(r)
			})
			call("q:TokenPairs", func(ctx sdk.Context) string {
				r, err := qs.TokenPairs(ctx, &ct.QueryAllTokenPairsRequest{Pagination: p})
				return errStr(err) + "/" + digest(r)
			})
			call("q:RemoteTokenMessengers", func(ctx sdk.Context) string {
				r, err := qs.RemoteTokenMessengers(ctx, &ct.QueryRemoteTokenMessengersRequest{Pagination: p})
				return errStr(err) + "/" + digest(r)
			})
			call("q:PerMessageBurnLimits", func(ctx sdk.Context) string {
				r, err := qs.PerMessageBurnLimits(ctx, &ct.QueryAllPerMessageBurnLimitsRequest{Pagination: p})
				return errStr(err) + "/" + digest(r)
			})
		}
		call("q:Roles", func(ctx sdk.Context) string {
			r, err := qs.Roles(ctx, &ct.QueryRolesRequest{})
			return errStr(err) + "/" + digest(r)
		})
		call("q:NextAvailableNonce", func(ctx sdk.Context) string {
			r, err := qs.NextAvailableNonce(ctx, &ct.QueryGetNextAvailableNonceRequest{})
			return errStr(err) + "/" + digest(r)
		})
		call("q:SignatureThreshold", func(ctx sdk.Context) string {
			r, err := qs.SignatureThreshold(ctx, &ct.QueryGetSignatureThresholdRequest{})
			return errStr(err) + "/" + digest(r)
		})
		call("q:UsedNonce", func(ctx sdk.Context) string {
			r, err := qs.UsedNonce(ctx, &ct.QueryGetUsedNonceRequest{SourceDomain: 0, Nonce: 90_001})
			return errStr(err) + "/" + digest(r)
		})
		return out
	}
	conds := []struct {
		name string
		mk   func() (context.Context, context.CancelFunc)
	}{
		{"live", func() (context.Context, context.CancelFunc) { return context.Background(), func() {} }},
		{"live-again", func() (context.Context, context.CancelFunc) { return context.Background(), func() {} }},
		{"cancelled", func() (context.Context, context.CancelFunc) {
			c, cancel := context.WithCancel(context.Background())
			cancel()
			return c, func() {}
		}},
		{"deadline-passed", func() (context.Context, context.CancelFunc) {
			return context.WithDeadline(context.Background(), time.Unix(1_000_000, 0))
		}},
		{"deadline-far", func() (context.Context, context.CancelFunc) {
			return context.WithDeadline(context.Background(), time.Now().Add(1000*time.Hour))
		}},
		{"cancelled-with-cause", func() (context.Context, context.CancelFunc) {
			c, cancel := context.WithCancelCause(context.Background())
			cancel(fmt.Errorf("client went away"))
			return c, func() {}
		}},
		{"foreign-value", func() (context.Context, context.CancelFunc) {
			return context.WithValue(context.Background(), ctxKeyT{}, "x"), func() {}
		}},
	}
	var live []string
	okCalls := 0
	for _, c := range conds {
		got := run(c.mk)
		rc.Cov.Evaluations += len(got)
		rc.Cov.Cell("C18_modes", "context-twin/"+c.name)
		if live == nil {
			live = got
			for _, l := range live {
				if len(l) > 0 && !containsStr(l, "panic:") {
					okCalls++
				}
			}
			continue
		}
		rc.Cov.Assert("C18.context-twin")
		for i := range live {
			if i >= len(got) || got[i] != live[i] {
				g := "<missing>"
				if i < len(got) {
					g = got[i]
				}
				rc.Report(Violation{Props: []string{"C18"}, Monitor: "context-twin", Sig: "C18:outcome-depends-on-go-context:" + c.name,
					Detail: fmt.Sprintf("on identical state, a direct call differs between a live Go context and a %s one: live {%s} %s {%s}", c.name, live[i], c.name, g),
					Case:   map[string]interface{}{"live": live, c.name: got}})
				break
			}
		}
	}
	rc.Cov.Extra["context_twin_calls"] = float64(len(live))
	succ := 0
	for _, l := range live {
		if containsStr(l, "=ok/") {
			succ++
		}
	}
	rc.Cov.Extra["context_twin_calls_that_succeed_live"] = float64(succ)
	if succ < 25 {
		rc.Cov.Inconclusive(fmt.Sprintf("context twin: only %d of %d calls succeed under the live context", succ, len(live)))
	}
	if okCalls < 20 {
		rc.Cov.Inconclusive(fmt.Sprintf("context twin: only %d calls completed", okCalls))
	}
}

func containsStr(s, sub string) bool {
	for i := 0; i+len(sub) <= len(s); i++ {
		if s[i:i+len(sub)] == sub {
			return true
		}
	}
	return false
}

func padAddr(a string) []byte {
	b := addrBytes(a)
	out := make([]byte, 32)
	copy(out[32-len(b):], b)
	return out
}

// callMsgServer dispatches m to the method of the message server that handles it.
func callMsgServer(srv ct.MsgServer, ctx context.Context, m sdk.Msg) (proto.Message, error) {
	switch x := m.(type) {
	case *ct.MsgDisableAttester:
		return srv.DisableAttester(ctx, x)
	case *ct.MsgEnableAttester:
		return srv.EnableAttester(ctx, x)
	case *ct.MsgUpdateSignatureThreshold:
		return srv.UpdateSignatureThreshold(ctx, x)
	case *ct.MsgReceiveMessage:
		return srv.ReceiveMessage(ctx, x)
	case *ct.MsgDepositForBurn:
		return srv.DepositForBurn(ctx, x)
	case *ct.MsgDepositForBurnWithCaller:
		return srv.DepositForBurnWithCaller(ctx, x)
	case *ct.MsgSendMessage:
		return srv.SendMessage(ctx, x)
	case *ct.MsgReplaceMessage:
		return srv.ReplaceMessage(ctx, x)
	case *ct.MsgLinkTokenPair:
		return srv.LinkTokenPair(ctx, x)
	case *ct.MsgUnlinkTokenPair:
		return srv.UnlinkTokenPair(ctx, x)
	case *ct.MsgAddRemoteTokenMessenger:
		return srv.AddRemoteTokenMessenger(ctx, x)
	case *ct.MsgRemoveRemoteTokenMessenger:
		return srv.RemoveRemoteTokenMessenger(ctx, x)
	case *ct.MsgUpdateOwner:
		return srv.UpdateOwner(ctx, x)
	case *ct.MsgPauseBurningAndMinting:
		return srv.PauseBurningAndMinting(ctx, x)
	case *ct.MsgUpdateMaxMessageBodySize:
		return srv.UpdateMaxMessageBodySize(ctx, x)
	}
	return nil, fmt.Errorf("no dispatch for %T", m)
}

// msgKind: the bare type name of a message (MsgDisableAttester -> DisableAttester).
func msgKind(m sdk.Msg) string {
	n := fmt.Sprintf("%T", m)
	for i := len(n) - 1; i >= 0; i-- {
		if n[i] == '.' {
			n = n[i+1:]
			break
		}
	}
	if len(n) > 3 && n[:3] == "Msg" {
		n = n[3:]
	}
	return n
}
