package sim

import (
	"fmt"
	"math/big"
	"math/bits"
	"sort"
	"strings"

	sdkmath "cosmossdk.io/math"
	sdk "github.com/cosmos/cosmos-sdk/types"

	ct "github.com/circlefin/noble-cctp/x/cctp/types"

	"verif/harness/chain"
	"verif/harness/ref"
)

// ---------------------------------------------------------------- C04

// c04Voucher: a local token shaped like an IBC voucher denom with upper-case hex digits.
const c04Voucher = "ibc/27394FB092D2ECCD56123C74F36E4C1F926001CEADA9CA97EA622B25F41E5EB2"

var c04SweepDomains = []uint32{6, 7, 8, 9, 10, 11, 12, 13, 16, 31, 32, 33, 63, 64, 65, 255, 256, 65535, 65536, 1 << 31}

var c04RecipientClasses = []string{"plain", "high-bytes-nonzero", "first20-differ", "self-submitter", "low20-zero", "all-zero", "module-account"}

func c04Recipient(cls string, i int) []byte {
	b := ref.Pad32(AcctBytes(i % NAccounts))
	switch cls {
	case "high-bytes-nonzero":
		for j := 0; j < 12; j++ {
			b[j] = byte(0xd0 + j)
		}
	case "low20-zero": // only the 12 padding bytes are set: the recipient is the account with the all-zero address
		b = make([]byte, 32)
		for j := 0; j < 12; j++ {
			b[j] = byte(0x71 + j + i)
		}
	case "all-zero":
		b = make([]byte, 32)
	case "module-account":
		b = append([]byte(nil), modulePadded...)
	case "first20-differ":
		// bytes [0:20] name a different universe account than bytes [12:32]
		copy(b[0:12], AcctBytes((i + 3) % NAccounts)[0:12])
	}
	return b
}

func runC04(rc *RunCtx) {
	defer ProbeHistory(rc, rc.Pick(200, 800), rc.Shard%2 == 0)
	// focused: amount class x recipient class x denom spelling, under both back-ends
	for _, double := range []bool{true, false} {
		if rc.NShards > 1 && (rc.Shard%2 == 0) != double {
			continue
		}
		e, err := StdEngine(rc, double, false, func(gs *ct.GenesisState, cfg *chain.Config) {
			// pairs installed by genesis with mixed-case local tokens: the only way an un-lowercased denom can sit in state
			gs.TokenPairList = append(gs.TokenPairList,
				ct.TokenPair{RemoteDomain: 2, RemoteToken: Token(0), LocalToken: "uUSDC"},
				ct.TokenPair{RemoteDomain: 2, RemoteToken: Token(1), LocalToken: "UUSDC"},
				ct.TokenPair{RemoteDomain: 3, RemoteToken: Token(0), LocalToken: "ueure"},
				ct.TokenPair{RemoteDomain: 3, RemoteToken: Token(1), LocalToken: ""},           // a pair imported without a local token
				ct.TokenPair{RemoteDomain: 2, RemoteToken: Token(5)[12:], LocalToken: "uusdc"}, // keyed by a bare 20-byte token: another key than the padded word
				ct.TokenPair{RemoteDomain: 5, RemoteToken: Token(1), LocalToken: c04Voucher},
				ct.TokenPair{RemoteDomain: 5, RemoteToken: Token(2), LocalToken: "factory/Noble1Creator/UTOKEN"})
			gs.PerMessageBurnLimitList = append(gs.PerMessageBurnLimitList, ct.PerMessageBurnLimit{Denom: "uusdc", Amount: sdkInt(3)}) // outbound limit only
			for _, d := range c04SweepDomains {                                                                                        // source domains outside the usual handful, for the source x amount block
				gs.TokenMessengerList = append(gs.TokenMessengerList, ct.RemoteTokenMessenger{DomainId: d, Address: Messenger(d, 0)})
				gs.TokenPairList = append(gs.TokenPairList, ct.TokenPair{RemoteDomain: d, RemoteToken: Token(0), LocalToken: "uusdc"})
			}
		})
		if err != nil {
			rc.Cov.Inconclusive(err.Error())
			continue
		}
		nonce := uint64(1 + rc.Shard*100000)
		// ... and one linked by transaction with an empty local token (the handler does not look at it)
		e.Exec(Tx{Msgs: msgs1(&ct.MsgLinkTokenPair{From: e.M.TC, RemoteDomain: 5, RemoteToken: Token(0), LocalToken: ""}), Note: "C04 link with an empty local token"})
		e.Exec(Tx{Msgs: msgs1(&ct.MsgLinkTokenPair{From: e.M.TC, RemoteDomain: 5, RemoteToken: Token(3), LocalToken: "IBC/" + strings.ToLower(c04Voucher[4:])}), Note: "C04 link a voucher-shaped local token"})
		for rep := 0; rep < rc.Pick(2, 8); rep++ {
			// the owner's maximum body size bounds outbound bodies only: receives and what their events report do not depend on it
			size := []uint64{64, 8000, 131, 0, 35, 99, 132, 1 << 40}[rep%8]
			e.Exec(Tx{Msgs: msgs1(&ct.MsgUpdateMaxMessageBodySize{From: e.M.Owner, MessageSize: size}), Note: "C04 max body size (outbound only)"})
			rc.Cov.Cell("C04_max_body_sizes", fmt.Sprint(size))
			for ai, ac := range AmountClasses {
				if !double && ac.V.BitLen() > 129 {
					if !(ac.Name == "2^255" && rep == 0) { // one 2^255 mint fits the real supply; more would overflow the bank's 256-bit ints
						continue
					}
				}
				for ci, cls := range c04RecipientClasses {
					for di, dom := range []struct {
						d   uint32
						tok int
						sp  string
					}{{0, 0, "uusdc"}, {2, 0, "uUSDC"}, {2, 1, "UUSDC"}, {3, 0, "ueure"}, {3, 1, "(empty,genesis)"}, {5, 0, "(empty,linked)"},
						{2, 5, "padded-word-of-a-20-byte-key(unlinked)"}, {5, 1, "ibc-voucher(genesis)"}, {5, 2, "factory-denom(genesis)"}, {5, 3, "ibc-voucher(linked)"}} {
						nonce++
						submitter := Acct((ai + ci + di) % NAccounts)
						recip := c04Recipient(cls, ai+ci+rep)
						if cls == "self-submitter" {
							recip = ref.Pad32(addrBytes(submitter))
						}
						in := &InMsg{Version: 0, Src: dom.d, Dst: 4, Nonce: nonce, Sender: Messenger(dom.d, 0), Recipient: modulePadded, Caller: make([]byte, 32),
							Body: BurnBody(0, Token(dom.tok), recip, ac.V, Structured32(byte(0x80+ai)))} // message sender != recipient != submitter
						raw := in.Bytes()
						tx := Tx{Msgs: msgs1(&ct.MsgReceiveMessage{From: submitter, Message: raw, Attestation: e.Attest(raw, rep%3)}), Note: "C04 " + ac.Name + "/" + cls + "/" + dom.sp}
						r := e.Exec(tx)
						rc.Cov.Cell("C04_matrix", fmt.Sprintf("%s/%s/%s/%s/%v", map[bool]string{true: "double", false: "real"}[double], ac.Name, cls, dom.sp, r.OK))
						rc.Cov.Distinct(fmt.Sprintf("c04|%v|%s|%s|%s|%v", double, ac.Name, cls, dom.sp, r.OK))
						if r.OK {
							rc.Cov.Cell("C04_minted_classes", ac.Name)
							if dom.sp != "uusdc" {
								rc.Cov.Cell("C04_mixed_case_pair_mints", dom.sp)
							}
						}
						if rc.Cov.Evaluations%200 == 5 {
							rc.Cov.Sample(map[string]interface{}{"tx": trunc(describeTx(&tx), 700), "ok": r.OK, "mint_requests": depSummary(r.Deps)})
						}
					}
				}
			}
			// a complete, valid burn message from the registered messenger that is addressed to an address which merely ends
			// in the module's 20 bytes: not the module, so it is acknowledged without any mint
			for tag := 1; tag <= 3; tag++ {
				nonce++
				in := &InMsg{Version: 0, Src: 0, Dst: 4, Nonce: nonce, Sender: Messenger(0, 0), Recipient: NearModuleRecipient(byte(16*tag + rep)), Caller: make([]byte, 32),
					Body: BurnBody(0, Token(0), ref.Pad32(AcctBytes(tag)), big.NewInt(int64(1000+tag)), Structured32(0x44))}
				raw := in.Bytes()
				r := e.Exec(Tx{Msgs: msgs1(&ct.MsgReceiveMessage{From: Acct(UserIx), Message: raw, Attestation: e.Attest(raw, 0)}), Note: "C04 burn-shaped message to a near-module recipient"})
				rc.Cov.Cell("C04_near_module", fmt.Sprintf("ok=%v/mints=%d", r.OK, len(r.Deps)))
			}
			// body version words: a burn body is version 0 in all four bytes of the word; any other word, whichever byte carries the
			// difference, is not a burn message this module knows - nothing is minted
			if rep == 0 {
				for vi, bv := range []uint32{1, 2, 13, 255, 256, 257, 0x0100, 0xff00, 0x00010000, 0x00ff0000, 0x01000000, 0x7f000000, 0x80000000, 0xffffff00, 0xffff0000, 0xff000000, 0x00010001, 0xffffffff} {
					nonce++
					in := &InMsg{Version: 0, Src: 0, Dst: 4, Nonce: nonce, Sender: Messenger(0, 0), Recipient: modulePadded, Caller: make([]byte, 32),
						Body: BurnBody(bv, Token(0), ref.Pad32(AcctBytes(vi%NAccounts)), big.NewInt(int64(3000+vi)), Structured32(0x45))}
					raw := in.Bytes()
					r := e.Exec(Tx{Msgs: msgs1(&ct.MsgReceiveMessage{From: Acct(UserIx), Message: raw, Attestation: e.Attest(raw, vi%3)}), Note: fmt.Sprintf("C04 body version word %#08x", bv)})
					rc.Cov.Cell("C04_body_version_words", fmt.Sprintf("ok=%v/mints=%d", r.OK, len(r.Deps)))
					if len(r.Deps) > 0 {
						rc.Report(Violation{Monitor: "mint-matrix", Sig: "mint-for-unknown-body-version", Props: []string{"C04", "C03"},
							Detail: fmt.Sprintf("a burn body with version word %#08x led to %d call(s) into the bank / fiat-token-factory: %s", bv, len(r.Deps), depSummary(r.Deps))})
					}
				}
			}
			// source domain x amount: what is minted does not depend on which domain the burn message comes from
			if rep == 0 {
				for di, d := range c04SweepDomains {
					for ai, ac := range AmountClasses {
						if !double && ac.V.BitLen() > 64 {
							continue
						}
						nonce++
						in := &InMsg{Version: 0, Src: d, Dst: 4, Nonce: nonce, Sender: Messenger(d, 0), Recipient: modulePadded, Caller: make([]byte, 32),
							Body: BurnBody(0, Token(0), ref.Pad32(AcctBytes((di+ai)%NAccounts)), ac.V, Structured32(byte(0x60+ai)))}
						raw := in.Bytes()
						r := e.Exec(Tx{Msgs: msgs1(&ct.MsgReceiveMessage{From: Acct(UserIx), Message: raw, Attestation: e.Attest(raw, ai%3)}), Note: fmt.Sprintf("C04 source x amount: domain %d, amount %s", d, ac.Name)})
						rc.Cov.Cell("C04_source_amount", fmt.Sprintf("%s/%v", ac.Name, r.OK))
					}
				}
			}
			// conservation so far
			c04Conservation(e)
		}
		// an accepted burn message is minted once, whatever administrative actions come between the attempts
		if rc.Shard%2 == 0 || rc.NShards == 1 {
			own := e.M.Owner
			for k := 0; k < rc.Pick(12, 40); k++ {
				nonce++
				d := uint32(k % 2)
				in := StdInbound(nonce, k%NAccounts, big.NewInt(int64(1000+k)))
				in.Src, in.Sender = d, Messenger(d, 0)
				raw := in.Bytes()
				first := e.Exec(Tx{Msgs: msgs1(&ct.MsgReceiveMessage{From: Acct(UserIx), Message: raw, Attestation: e.Attest(raw, 0)}), Note: "C04 first receive"})
				switch k % 4 {
				case 0:
					e.Exec(Tx{Msgs: msgs1(&ct.MsgRemoveRemoteTokenMessenger{From: own, DomainId: d})})
					e.Exec(Tx{Msgs: msgs1(&ct.MsgAddRemoteTokenMessenger{From: own, DomainId: d, Address: Messenger(d, 0)})})
				case 1:
					e.Exec(Tx{Msgs: msgs1(&ct.MsgUnlinkTokenPair{From: e.M.TC, RemoteDomain: d, RemoteToken: Token(0), LocalToken: "uusdc"})})
					e.Exec(Tx{Msgs: msgs1(&ct.MsgLinkTokenPair{From: e.M.TC, RemoteDomain: d, RemoteToken: Token(0), LocalToken: "uusdc"})})
				case 2:
					e.Exec(Tx{Msgs: msgs1(&ct.MsgPauseBurningAndMinting{From: e.M.Pauser})})
					e.Exec(Tx{Msgs: msgs1(&ct.MsgUnpauseBurningAndMinting{From: e.M.Pauser})})
				case 3:
					e.Restart()
				}
				second := e.Exec(Tx{Msgs: msgs1(&ct.MsgReceiveMessage{From: Acct(OtherIx), Message: raw, Attestation: e.Attest(raw, 1)}), Note: "C04 replay after administrative actions"})
				rc.Cov.Cell("C04_replays", fmt.Sprintf("kind%d/first=%v/second=%v", k%4, first.OK, second.OK))
			}
			c04Conservation(e)
		}
		// interleave with every other transaction type
		g := NewGen(e)
		g.BigAmts = double
		RunHistory(e, g, rc.Pick(500, 2500), 0)
		c04Conservation(e)
	}
	for h := 0; h < rc.Pick(1, 4); h++ {
		e, err := NewHistoryEngine(rc, GenOpts{Unpaused: true, MixedCasePair: true}, h%2 == 1, false)
		if err != nil {
			continue
		}
		g := NewGen(e)
		g.BigAmts = e.Cfg.Double
		RunHistory(e, g, rc.Pick(400, 2500), 0)
		c04Conservation(e)
	}
}

// c04Conservation: total minted as seen by the dependency probe's successful requests equals the model's sum
// over distinct accepted burn messages; checked through the ledger (supply delta) by the per-tx ledger monitor.
func c04Conservation(e *Engine) {
	e.Rc.Cov.Assert("C04.conservation")
	if e.SumMintReq == nil {
		return
	}
	// (a) total minted = sum of amounts of the accepted burn messages
	if e.SumMintReq.Cmp(e.SumAccepted) != 0 {
		e.viol([]string{"C04"}, "conservation", "mint-conservation",
			fmt.Sprintf("total minted through the module %s != sum of amounts over accepted burn messages %s", e.SumMintReq, e.SumAccepted), nil)
	}
	// (b) supply destroyed through the module = sum of burn-message amounts of the deposits
	if e.SumBurnReq.Cmp(e.SumDeposits) != 0 {
		e.viol([]string{"C05"}, "conservation", "burn-conservation",
			fmt.Sprintf("supply destroyed through the module %s != sum of burn-message amounts over outbound deposits %s", e.SumBurnReq, e.SumDeposits), nil)
	}
	// (c) the ledger agrees: supply = initial + minted - burned
	init := new(big.Int)
	for _, v := range e.Cfg.Funded {
		init.Add(init, v)
	}
	want := new(big.Int).Add(init, e.SumMintReq)
	want.Sub(want, e.SumBurnReq)
	if got := e.C.Supply(e.MintDenom()); got.Cmp(want) != 0 {
		e.viol([]string{"C04", "C05"}, "conservation", "supply-conservation",
			fmt.Sprintf("supply %s != initial %s + minted %s - burned %s", got, init, e.SumMintReq, e.SumBurnReq), nil)
	}
}

// ---------------------------------------------------------------- C08

var c08Limits = []*big.Int{big.NewInt(0), big.NewInt(1), big.NewInt(2), big.NewInt(1000000), new(big.Int).Sub(pow2(31), big.NewInt(1)), pow2(32),
	new(big.Int).Sub(pow2(63), big.NewInt(1)), pow2(63), new(big.Int).Sub(Two64, big.NewInt(1)), Two64, Two128, Two255, Max256}

var PNames = []string{"P1", "P2", "P3", "P4", "P5", "P6", "P7", "P8P9", "P10", "PFrom"}

func pmaskName(m uint32) string {
	if m == 0 {
		return "none"
	}
	var s []string
	for i, n := range PNames {
		if m&(1<<uint(i)) != 0 {
			s = append(s, n)
		}
	}
	return strings.Join(s, "+")
}

type c08Chain struct {
	e            *Engine
	limit        *big.Int
	flags        int
	bodyTooSmall bool
}

// c08Engine: a double-ledger chain with a given limit, flag state and max body size; account 4 is unboundedly rich.
func c08Engine(rc *RunCtx, limit *big.Int, flags int, maxBody *uint64, double, fold bool, limitViaTx string) (*Engine, error) {
	e, err := StdEngine(rc, double, fold, func(gs *ct.GenesisState, cfg *chain.Config) {
		if limit != nil && limitViaTx == "" {
			gs.PerMessageBurnLimitList = []ct.PerMessageBurnLimit{{Denom: "uusdc", Amount: sdkmath.NewIntFromBigInt(limit)}}
		}
		gs.SendingAndReceivingMessagesPaused.Paused = flags&1 != 0
		gs.BurningAndMintingPaused.Paused = flags&2 != 0
		gs.MaxMessageBodySize = nil
		if maxBody != nil {
			gs.MaxMessageBodySize = &ct.MaxMessageBodySize{Amount: *maxBody}
		}
		// domain 5 has no messenger, domain 3 an all-zero one
		var tm []ct.RemoteTokenMessenger
		for _, m := range gs.TokenMessengerList {
			if m.DomainId == 5 {
				continue
			}
			if m.DomainId == 3 {
				m.Address = make([]byte, 32)
			}
			tm = append(tm, m)
		}
		gs.TokenMessengerList = tm
	})
	if err != nil {
		return nil, err
	}
	e.LightQueries = false
	if limit != nil && limitViaTx != "" {
		rep := e.Exec(Tx{Msgs: msgs1(&ct.MsgSetMaxBurnAmountPerMessage{From: Acct(TCIx), LocalToken: limitViaTx, Amount: mkInt(limit)})})
		if !rep.OK {
			return nil, fmt.Errorf("could not set the limit through a transaction")
		}
	}
	return e, nil
}

func c08Deposit(e *Engine, mask uint32, withCaller bool, amt *big.Int, v int, denom string) Tx {
	from := Acct(4) // rich in the double ledger; funded in the real one
	if e.Cfg.Double == false {
		from = Acct(RichIx)
	}
	dst := uint32(v % 3) // domains 0,1,2 have messengers
	mr := Structured32(byte(0x10 + v))
	caller := Structured32(byte(0x90 + v))
	if mask&PFrom != 0 {
		from = []string{"", "notbech32", "cosmos1qqqqqqqqqqqqqqqqqqqqqqqqqqqqqqqqnrql8a", Acct(4)[:len(Acct(4))-1] + "q"}[v%4]
		if chain.Prefix() == "cosmos" && v%4 == 2 {
			from = "noble1qqqqqqqqqqqqqqqqqqqqqqqqqqqqqqqqq0vwtl"
		}
	}
	if mask&P4MintRecipient != 0 {
		mr = [][]byte{nil, make([]byte, 32), Structured32(1)[:31], append(Structured32(1), 2), {}}[v%5]
	}
	if mask&P5Messenger != 0 {
		dst = []uint32{5, 3}[v%2]
	}
	if mask&P3Denom != 0 {
		denom = []string{"ueure", "uusdc2", "", "usdc", "uu\u017fdc", "UU\u017fDC", "uusd\u0441"}[v%7]
	}
	if mask&P10Caller != 0 {
		caller = [][]byte{nil, make([]byte, 32), Structured32(1)[:31], append(Structured32(1), 2), append(Structured32(1), Structured32(2)[:8]...), append(Structured32(1), Structured32(2)...)}[v%6]
	}
	if mask&(PFrom|P8P9Deps) == 0 && v%5 == 3 {
		from = LongAcct() // a depositor whose address is 32 bytes long
	}
	if mask&P4MintRecipient == 0 && v%6 == 4 { // non-zero, though only outside the low 20 bytes
		mr = make([]byte, 32)
		mr[v%12] = byte(1 + v)
	}
	if mask&P10Caller == 0 && v%6 == 2 {
		caller = make([]byte, 32)
		caller[(v+3)%12] = byte(7 + v)
	}
	if mask&(PFrom|P8P9Deps) == 0 && v%7 == 5 {
		from = strings.ToUpper(from) // the all-upper-case bech32 spelling names the same account
	}
	if mask&P8P9Deps != 0 && v%3 == 0 && mask&PFrom == 0 {
		from = Acct(PoorIx) // cannot pay
	}
	tx := Tx{Note: fmt.Sprintf("C08 false=%s caller=%v variant=%d", pmaskName(mask), withCaller, v)}
	var a sdkmath.Int
	if amt != nil {
		a = mkInt(amt)
	}
	if withCaller {
		tx.Msgs = []sdk.Msg{&ct.MsgDepositForBurnWithCaller{From: from, Amount: a, DestinationDomain: dst, MintRecipient: mr, BurnToken: denom, DestinationCaller: caller}}
	} else {
		tx.Msgs = []sdk.Msg{&ct.MsgDepositForBurn{From: from, Amount: a, DestinationDomain: dst, MintRecipient: mr, BurnToken: denom}}
	}
	if mask&P8P9Deps != 0 && (v%3 != 0 || mask&PFrom != 0) {
		// fail the transfer (call 0) or the burn (call 1)
		tx.Fault = map[int]chain.FaultKind{v % 2: []chain.FaultKind{chain.FaultCleanErr, chain.FaultErrAfterEffect}[(v/2)%2]}
	}
	return tx
}

func runC08(rc *RunCtx) {
	// (1) exhaustive over subsets of the preconditions, both variants
	type key struct{ flags, body int }
	engines := map[key]*Engine{}
	limit := big.NewInt(1000000)
	eng := func(mask uint32) *Engine {
		k := key{}
		if mask&P6Flags != 0 {
			k.flags = 1 + int(mask>>3)%3 // one of: sr, bm, both
		}
		if mask&P7BodySize != 0 {
			k.body = 1
		}
		if engines[k] == nil {
			var mb *uint64
			if k.body == 1 {
				mb = u64p(131)
			}
			e, err := c08Engine(rc, limit, k.flags, mb, true, false, "")
			if err != nil {
				rc.Cov.Inconclusive("c08 engine: " + err.Error())
				return nil
			}
			engines[k] = e
		}
		return engines[k]
	}
	run := func(e *Engine, tx Tx, mask uint32, withCaller bool, cell string) *Report {
		rep := e.Exec(tx)
		got := uint32(0)
		if len(rep.Exp) == 1 {
			got = rep.Exp[0].Conds
		}
		if tx.Fault != nil || (mask&P8P9Deps != 0) {
			got |= mask & P8P9Deps
		}
		rc.Cov.Assert("C08.precondition-oracle")
		variant := map[bool]string{true: "with-caller", false: "plain"}[withCaller]
		if got != mask {
			rc.Cov.Cell("C08_unrealised", variant+":"+pmaskName(mask)+"->"+pmaskName(got))
		}
		rc.Cov.Cell(cell, fmt.Sprintf("%s/%s/%v", variant, pmaskName(mask), map[bool]string{true: "ok", false: "fail"}[rep.OK]))
		rc.Cov.Distinct(fmt.Sprintf("c08|%s|%d|%s|%v", variant, mask, tx.Note, rep.OK))
		if mask != 0 && rep.OK {
			e.viol([]string{"C08"}, "precondition-oracle", "C08:accepted-with-false:"+pmaskName(mask), "deposit succeeded with false preconditions "+pmaskName(mask), e.caseOf(&tx, ""))
		}
		depFailed := false
		for _, d := range rep.Deps {
			if d.Seq >= 0 && d.Err != "" {
				depFailed = true
			}
		}
		if mask == 0 && !rep.OK && rep.TxExp != DontCare && !depFailed {
			e.viol([]string{"C08"}, "precondition-oracle", "C08:rejected-with-all-true", "deposit failed although every precondition holds: "+trunc(rep.Res.Log, 300), e.caseOf(&tx, ""))
		}
		if rc.Cov.Evaluations%900 == 11 {
			rc.Cov.Sample(map[string]interface{}{"false_preconditions": pmaskName(mask), "tx": trunc(describeTx(&tx), 500), "ok": rep.OK})
		}
		return rep
	}
	idx := 0
	for _, withCaller := range []bool{false, true} {
		for mask := uint32(0); mask < 1<<10; mask++ {
			if !withCaller && mask&P10Caller != 0 {
				continue
			}
			if mask&P3Denom != 0 && mask&P2Limit != 0 {
				continue // another token has no limit configured: P2 is vacuous there
			}
			idx++
			if idx%rc.NShards != rc.Shard {
				continue
			}
			e := eng(mask)
			if e == nil {
				continue
			}
			nv := rc.Pick(2, 10)
			if bits.OnesCount32(mask) > 3 && !rc.Thorough() {
				nv = 1
			}
			if bits.OnesCount32(mask) <= 1 {
				nv = rc.Pick(10, 20) // singletons get every field-value variant
			}
			for v := 0; v < nv; v++ {
				var amt *big.Int
				switch {
				case mask&P1Amount != 0:
					amt = []*big.Int{big.NewInt(0), big.NewInt(-1), nil, new(big.Int).Neg(Max256)}[(v+int(mask))%4]
				case mask&P2Limit != 0:
					amt = []*big.Int{new(big.Int).Add(limit, big.NewInt(1)), Max256, new(big.Int).Mul(limit, big.NewInt(2))}[(v+int(mask))%3]
				default:
					amt = []*big.Int{limit, new(big.Int).Sub(limit, big.NewInt(1)), big.NewInt(1)}[(v+int(mask))%3]
				}
				if mask&P1Amount != 0 && mask&P2Limit != 0 {
					continue // amount cannot be both non-positive and above the limit
				}
				tx := c08Deposit(e, mask, withCaller, amt, v+int(mask), "uusdc")
				run(e, tx, mask, withCaller, "C08_subsets")
			}
		}
	}
	rc.Cov.Extra["exhaustive"] = true
	// (2) boundaries around every limit, installed through genesis and through the transaction (upper-case spelling)
	li := 0
	for _, via := range []string{"", "uusdc", "UUSDC", "uUsdc"} {
		for _, lim := range c08Limits {
			li++
			if li%rc.NShards != rc.Shard {
				continue
			}
			e, err := c08Engine(rc, lim, 0, nil, true, false, via)
			if err != nil {
				rc.Cov.Inconclusive(err.Error())
				continue
			}
			for _, withCaller := range []bool{false, true} {
				for _, d := range []struct {
					name string
					amt  *big.Int
					mask uint32
				}{
					{"limit-1", new(big.Int).Sub(lim, big.NewInt(1)), 0},
					{"limit", lim, 0},
					{"limit+1", new(big.Int).Add(lim, big.NewInt(1)), P2Limit},
					{"0", big.NewInt(0), P1Amount},
					{"-1", big.NewInt(-1), P1Amount},
					{"2^256-1", Max256, P2Limit},
				} {
					amt, mask := d.amt, d.mask
					if amt.BitLen() > 256 {
						continue // not representable on the wire
					}
					if d.name == "limit-1" && amt.Sign() <= 0 {
						mask = P1Amount
					}
					if d.name == "limit" && amt.Sign() == 0 {
						mask = P1Amount
					}
					if d.name == "2^256-1" && lim.Cmp(Max256) == 0 {
						mask = 0
					}
					tx := c08Deposit(e, mask, withCaller, amt, li, "uusdc")
					run(e, tx, mask, withCaller, "C08_boundaries")
					rc.Cov.Cell("C08_limit_triples", fmt.Sprintf("via=%q/limit=%s/%s", via, amountClass(lim), d.name))
				}
			}
		}
	}
	// (2a) negative limits (genesis and the token controller's transaction accept them): no positive amount is at most
	// a negative number, so every deposit is refused - in particular the amounts around the limit's magnitude
	ni := 0
	for _, via := range []string{"", "uusdc"} {
		for _, mag := range []*big.Int{big.NewInt(1), big.NewInt(2), big.NewInt(1000), new(big.Int).Sub(Two64, big.NewInt(1)), Two64, Two128} {
			ni++
			if ni%rc.NShards != rc.Shard {
				continue
			}
			lim := new(big.Int).Neg(mag)
			e, err := c08Engine(rc, lim, 0, nil, true, false, via)
			if err != nil {
				rc.Cov.Inconclusive(err.Error())
				continue
			}
			for _, withCaller := range []bool{false, true} {
				for _, amt := range []*big.Int{big.NewInt(1), new(big.Int).Sub(mag, big.NewInt(1)), mag, new(big.Int).Add(mag, big.NewInt(1)), Max256} {
					if amt.Sign() <= 0 {
						continue
					}
					run(e, c08Deposit(e, P2Limit, withCaller, amt, ni, "uusdc"), P2Limit, withCaller, "C08_negative_limits")
					rc.Cov.Cell("C08_negative_limit_cells", fmt.Sprintf("via=%q/limit=-%s/amount=%s", via, amountClass(mag), amountClass(amt)))
				}
			}
		}
	}
	// (2c) destination domain x amount: for every registered destination (the usual handful, 6..24 and a few large ids) and
	// every amount class, with the limit set to exactly that amount: amount accepted, amount + 1 refused
	{
		e, err := StdEngine(rc, true, false, func(gs *ct.GenesisState, cfg *chain.Config) {
			for d := uint32(6); d <= 24; d++ {
				gs.TokenMessengerList = append(gs.TokenMessengerList, ct.RemoteTokenMessenger{DomainId: d, Address: Messenger(d, 0)})
			}
			for _, d := range []uint32{63, 64, 255, 256, 65535, 65536, 1 << 31} {
				gs.TokenMessengerList = append(gs.TokenMessengerList, ct.RemoteTokenMessenger{DomainId: d, Address: Messenger(d, 1)})
			}
		})
		if err != nil {
			rc.Cov.Inconclusive("c08 domain x amount engine: " + err.Error())
		} else {
			var ds []uint32
			for d := range e.M.Messengers {
				ds = append(ds, d)
			}
			sort.Slice(ds, func(i, j int) bool { return ds[i] < ds[j] })
			amts := []*big.Int{big.NewInt(1), new(big.Int).Sub(pow2(31), big.NewInt(1)), pow2(32), new(big.Int).Sub(pow2(63), big.NewInt(1)), pow2(63), new(big.Int).Sub(Two64, big.NewInt(1)), Two64, Two128, Two255, new(big.Int).Sub(Max256, big.NewInt(1))}
			ci := 0
			for _, a := range amts {
				limitSet := false
				for _, d := range ds {
					ci++
					if ci%rc.NShards != rc.Shard {
						continue
					}
					if !limitSet {
						e.Exec(Tx{Msgs: msgs1(&ct.MsgSetMaxBurnAmountPerMessage{From: e.M.TC, LocalToken: "uusdc", Amount: mkInt(a)}), Note: "C08 domain x amount: limit"})
						limitSet = true
					}
					for vi, amt := range []*big.Int{a, new(big.Int).Add(a, big.NewInt(1))} {
						mask := uint32(0)
						if vi == 1 {
							mask = P2Limit
						}
						withCaller := (ci+vi)%2 == 0
						tx := c08Deposit(e, mask, withCaller, amt, 0, "uusdc")
						switch x := tx.Msgs[0].(type) {
						case *ct.MsgDepositForBurn:
							x.DestinationDomain = d
						case *ct.MsgDepositForBurnWithCaller:
							x.DestinationDomain = d
						}
						tx.Note = fmt.Sprintf("C08 domain x amount: destination %d, amount %s, limit %s", d, amountClass(amt), amountClass(a))
						run(e, tx, mask, withCaller, "C08_domain_amount")
						rc.Cov.Cell("C08_domain_amount_cells", fmt.Sprintf("d=%d/%s/%d", d, amountClass(a), vi))
					}
				}
			}
		}
	}
	// (2b) a configured limit is the limit until the token controller sets another one: registry maintenance in between
	// (every pair of the token unlinked, pairs linked and unlinked again, messengers, attesters, roles, flags, sizes,
	// limits of other tokens) leaves limit accepted and limit + 1 rejected
	for mi, lim := range []*big.Int{big.NewInt(1), big.NewInt(777), Two64} {
		for vi, via := range []string{"", "uusdc"} {
			if (mi*2+vi)%rc.NShards != rc.Shard {
				continue
			}
			e, err := c08Engine(rc, lim, 0, nil, true, false, via)
			if err != nil {
				rc.Cov.Inconclusive(err.Error())
				continue
			}
			probe := func(step string) {
				for _, withCaller := range []bool{false, true} {
					run(e, c08Deposit(e, P2Limit, withCaller, new(big.Int).Add(lim, big.NewInt(1)), 3*mi, "uusdc"), P2Limit, withCaller, "C08_maintenance")
					run(e, c08Deposit(e, 0, withCaller, lim, 3*mi, "uusdc"), 0, withCaller, "C08_maintenance")
				}
				rc.Cov.Cell("C08_maintenance_steps", step)
			}
			admin := func(step string, m sdk.Msg) {
				e.Exec(Tx{Msgs: msgs1(m), Note: "C08 maintenance: " + step})
				probe(step)
			}
			probe("start")
			type pk struct {
				d uint32
				t string
			}
			var pairs []pk
			for k := range e.M.Pairs {
				pairs = append(pairs, pk{k.Domain, k.Token})
			}
			sort.Slice(pairs, func(i, j int) bool {
				return pairs[i].d < pairs[j].d || (pairs[i].d == pairs[j].d && pairs[i].t < pairs[j].t)
			})
			for _, k := range pairs {
				lt := e.M.Pairs[pairKey{k.d, k.t}]
				admin("unlink-pair", &ct.MsgUnlinkTokenPair{From: e.M.TC, RemoteDomain: k.d, RemoteToken: []byte(k.t), LocalToken: lt})
			}
			admin("link-pair", &ct.MsgLinkTokenPair{From: e.M.TC, RemoteDomain: 1, RemoteToken: Token(0), LocalToken: "uusdc"})
			admin("link-pair-other-token", &ct.MsgLinkTokenPair{From: e.M.TC, RemoteDomain: 2, RemoteToken: Token(1), LocalToken: "ueure"})
			admin("unlink-pair-again", &ct.MsgUnlinkTokenPair{From: e.M.TC, RemoteDomain: 1, RemoteToken: Token(0), LocalToken: "uusdc"})
			admin("unlink-pair-other-token", &ct.MsgUnlinkTokenPair{From: e.M.TC, RemoteDomain: 2, RemoteToken: Token(1), LocalToken: "ueure"})
			admin("limit-of-another-token", &ct.MsgSetMaxBurnAmountPerMessage{From: e.M.TC, LocalToken: "ueure", Amount: mkInt(big.NewInt(5))})
			admin("limit-of-a-longer-name", &ct.MsgSetMaxBurnAmountPerMessage{From: e.M.TC, LocalToken: "uusdc2", Amount: mkInt(Max256)})
			admin("remove-messenger", &ct.MsgRemoveRemoteTokenMessenger{From: e.M.Owner, DomainId: 2})
			admin("add-messenger", &ct.MsgAddRemoteTokenMessenger{From: e.M.Owner, DomainId: 2, Address: Messenger(2, 1)})
			admin("add-messenger-new-domain", &ct.MsgAddRemoteTokenMessenger{From: e.M.Owner, DomainId: 5, Address: Messenger(5, 0)})
			admin("body-size", &ct.MsgUpdateMaxMessageBodySize{From: e.M.Owner, MessageSize: 4000})
			admin("enable-attester", &ct.MsgEnableAttester{From: e.M.AM, Attester: AttesterPool[7].Spell(0)})
			admin("disable-attester", &ct.MsgDisableAttester{From: e.M.AM, Attester: AttesterPool[7].Spell(0)})
			e.Exec(Tx{Msgs: msgs1(&ct.MsgPauseBurningAndMinting{From: e.M.Pauser}), Note: "C08 maintenance: pause"})
			e.Exec(Tx{Msgs: msgs1(&ct.MsgUnpauseBurningAndMinting{From: e.M.Pauser}), Note: "C08 maintenance: unpause"})
			probe("unpause-burning")
			admin("new-token-controller", &ct.MsgUpdateTokenController{From: e.M.Owner, NewTokenController: Acct(OtherIx)})
			admin("new-pauser", &ct.MsgUpdatePauser{From: e.M.Owner, NewPauser: Acct(OtherIx)})
			admin("same-limit-again", &ct.MsgSetMaxBurnAmountPerMessage{From: e.M.TC, LocalToken: "uusdc", Amount: mkInt(lim)})
		}
	}
	// (3) max body size boundary
	for bi, mb := range []*uint64{nil, u64p(0), u64p(131), u64p(132), u64p(133), u64p(8000), u64p(1<<31 - 1), u64p(1 << 31), u64p(1 << 32), u64p(1 << 40),
		u64p(1<<63 - 1), u64p(1 << 63), u64p(1<<63 + 1), u64p(^uint64(0))} {
		if bi%rc.NShards != rc.Shard {
			continue
		}
		gmb := mb
		if bi%2 == 1 && mb != nil {
			gmb = u64p(8000) // installed by the owner's transaction instead of genesis
		}
		e, err := c08Engine(rc, nil, 0, gmb, true, false, "")
		if err != nil {
			continue
		}
		if gmb != mb {
			if rep := e.Exec(Tx{Msgs: msgs1(&ct.MsgUpdateMaxMessageBodySize{From: e.M.Owner, MessageSize: *mb}), Note: "C08 body size by transaction"}); !rep.OK {
				rc.Cov.Inconclusive("could not set the max body size through a transaction")
				continue
			}
		}
		rc.Cov.Cell("C08_bodysize_values", fmt.Sprintf("%v", func() interface{} {
			if mb == nil {
				return "unset"
			}
			return *mb
		}()))
		mask := uint32(0)
		if mb != nil && *mb < 132 {
			mask = P7BodySize
		}
		for v := 0; v < 4; v++ {
			run(e, c08Deposit(e, mask, v%2 == 0, big.NewInt(int64(5+v)), v, "uusdc"), mask, v%2 == 0, "C08_bodysize")
		}
	}
	// (4) denom spelled with another case under a case-folding ledger: amount = limit+1 must be rejected whichever way P3 is read
	if rc.Shard == 0 {
		for _, via := range []string{"", "UUSDC"} {
			e, err := c08Engine(rc, big.NewInt(500), 0, nil, true, true, via)
			if err != nil {
				continue
			}
			for _, dn := range []string{"UUSDC", "uUsdc", "Uusdc"} {
				for _, withCaller := range []bool{false, true} {
					tx := c08Deposit(e, P2Limit, withCaller, big.NewInt(501), 1, dn)
					rep := e.Exec(tx)
					rc.Cov.Assert("C08.case-variant-over-limit-rejected")
					rc.Cov.Cell("C08_fold", dn+"/over-limit/"+map[bool]string{true: "ok", false: "fail"}[rep.OK])
					tx2 := c08Deposit(e, 0, withCaller, big.NewInt(500), 1, dn)
					rep2 := e.Exec(tx2)
					rc.Cov.Cell("C08_fold", dn+"/at-limit/"+map[bool]string{true: "ok", false: "fail"}[rep2.OK])
				}
			}
		}
	}
	ProbeHistory(rc, rc.Pick(240, 900), rc.Shard%2 == 0)
	// (5) real keepers: natural P8/P9 failures
	if rc.Shard%2 == 1 || rc.NShards == 1 {
		for _, paused := range []bool{false, true} {
			e, err := StdEngine(rc, false, false, func(gs *ct.GenesisState, cfg *chain.Config) { cfg.FTFPaused = paused })
			if err != nil {
				continue
			}
			for v := 0; v < rc.Pick(20, 100); v++ {
				from := Acct(v % NAccounts)
				bal := e.C.Balance(AcctBytes(v%NAccounts), e.MintDenom())
				amt := []*big.Int{bal, new(big.Int).Add(bal, big.NewInt(1)), big.NewInt(1)}[v%3]
				tx := Tx{Msgs: msgs1(&ct.MsgDepositForBurn{From: from, Amount: mkInt(amt), DestinationDomain: 0, MintRecipient: Structured32(3), BurnToken: "uusdc"}), Note: "C08 real-ledger"}
				rep := e.Exec(tx)
				rc.Cov.Cell("C08_real", fmt.Sprintf("paused=%v/amt-vs-balance=%d/%v", paused, amt.Cmp(bal), rep.OK))
			}
		}
	}
}

func init() {
	Register(&Check{
		ID: "C04", Level: "exploration",
		Rule:   "module-addressed receives over amount class (1 .. 2^256-1) x mint-recipient class (plain, non-zero high 12 bytes, bytes[0:20] != bytes[12:32], submitter) x linked denom spelling (uusdc, genesis-installed uUSDC/UUSDC, non-minting ueure) with message sender != recipient != submitter, on the ledger double (all amounts) and the real bank+fiat-token-factory, interleaved with hostile histories of every other transaction type; oracles: every Mint request (also in failed txs) equals {module, bech32(body[48:68]), lower(local token), BE256(body[68:100])}, exactly one per successful module receive and none elsewhere, typed events carry the same values, ledger deltas and supply conservation. distinct = (back-end, amount class, recipient class, denom, outcome) + (model state, tx shape, outcome).",
		Shards: func(t string) int { return map[string]int{"quick": 2, "thorough": 16}[t] },
		Run:    runC04,
		Floors: func(c *Cov, tier string) []string {
			var miss []string
			if n := c.Matrix["C04_body_version_words"]["ok=false/mints=0"]; n < 18 {
				miss = append(miss, fmt.Sprintf("body version words refused without a mint: %d", n))
			}
			for _, ac := range AmountClasses {
				if c.Matrix["C04_minted_classes"][ac.Name] == 0 {
					miss = append(miss, "amount class never minted: "+ac.Name)
				}
			}
			if len(c.Matrix["C04_mixed_case_pair_mints"]) == 0 {
				miss = append(miss, "no mint through a genesis-installed mixed-case pair")
			}
			return miss
		},
	})
	Register(&Check{
		ID: "C08", Level: "exploration",
		Rule:   "every subset of the ten deposit preconditions (both variants) made false on real chains (ledger double so that amounts up to 2^256-1 are payable; dependency failures by fault injection and by a penniless depositor), each with several field values; for every limit in {1,2,10^6,2^64,2^255,2^256-1}, installed via genesis and via the transaction with lower/upper/mixed-case spelling, amounts limit-1, limit, limit+1, 0, -1, 2^256-1; max body size in {absent,0,131,132,133,8000}; case-variant denoms at limit and limit+1 under a case-folding ledger; natural failures of the real keepers. Oracle: success iff the subset is empty. distinct = (variant, subset, field values, outcome).",
		Shards: func(t string) int { return map[string]int{"quick": 4, "thorough": 16}[t] },
		Prefix: func(string, int) string { return "noble" },
		Run:    runC08,
		Floors: func(c *Cov, tier string) []string {
			var miss []string
			if len(c.Matrix["C08_subsets"]) < 800 {
				miss = append(miss, fmt.Sprintf("subset cells: %d", len(c.Matrix["C08_subsets"])))
			}
			if c.Matrix["C08_subsets"]["plain/none/ok"] == 0 || c.Matrix["C08_subsets"]["with-caller/none/ok"] == 0 {
				miss = append(miss, "empty subset never succeeded")
			}
			if len(c.Matrix["C08_domain_amount_cells"]) < 400 {
				miss = append(miss, fmt.Sprintf("destination x amount cells: %d", len(c.Matrix["C08_domain_amount_cells"])))
			}
			if len(c.Matrix["C08_negative_limit_cells"]) < 30 {
				miss = append(miss, fmt.Sprintf("negative-limit cells: %d", len(c.Matrix["C08_negative_limit_cells"])))
			}
			if c.Matrix["C08_maintenance_steps"]["unlink-pair"] == 0 || len(c.Matrix["C08_maintenance_steps"]) < 15 {
				miss = append(miss, fmt.Sprintf("limit-survives-maintenance steps: %d kinds", len(c.Matrix["C08_maintenance_steps"])))
			}
			if len(c.Matrix["C08_limit_triples"]) < 110 {
				miss = append(miss, fmt.Sprintf("limit boundary cells: %d", len(c.Matrix["C08_limit_triples"])))
			}
			if n := len(c.Matrix["C08_unrealised"]); n > 0 {
				miss = append(miss, fmt.Sprintf("%d subsets not realised as intended: %v", n, firstKeys(c.Matrix["C08_unrealised"], 4)))
			}
			return miss
		},
	})
}
