package sim

import (
	sdk "github.com/cosmos/cosmos-sdk/types"
	"github.com/cosmos/gogoproto/proto"
	"google.golang.org/protobuf/encoding/protowire"

	ct "github.com/circlefin/noble-cctp/x/cctp/types"
)

// AbsentField wraps a request so that one of its fields is left out of the wire encoding altogether (a typed
// struct always writes its non-nullable custom-type fields, e.g. an amount, even when they are nil - only raw wire
// bytes can omit them). The decoder on the chain's side then leaves the field at its zero value. Everything but the
// transaction encoder sees the inner request (Unwrap).
type AbsentField struct {
	sdk.Msg
	Field protowire.Number
}

func (a AbsentField) XXX_MessageName() string { return proto.MessageName(a.Msg) }

func (a AbsentField) Marshal() ([]byte, error) {
	bz, err := proto.Marshal(a.Msg)
	if err != nil {
		return nil, err
	}
	var out []byte
	for len(bz) > 0 {
		num, typ, n := protowire.ConsumeTag(bz)
		if n < 0 {
			return nil, protowire.ParseError(n)
		}
		m := protowire.ConsumeFieldValue(num, typ, bz[n:])
		if m < 0 {
			return nil, protowire.ParseError(m)
		}
		if num != a.Field {
			out = append(out, bz[:n+m]...)
		}
		bz = bz[n+m:]
	}
	return out, nil
}

func (a AbsentField) Unwrap() sdk.Msg { return a.Msg }

// unwrapMsgs returns the inner requests of any wrapped messages (and whether there were any).
func unwrapMsgs(ms []sdk.Msg) ([]sdk.Msg, bool) {
	any := false
	out := make([]sdk.Msg, len(ms))
	for i, m := range ms {
		if w, ok := m.(AbsentField); ok {
			out[i], any = w.Unwrap(), true
		} else {
			out[i] = m
		}
	}
	return out, any
}

// SetMaxAbsentAmount: a burn-limit request whose amount field is not on the wire at all.
func SetMaxAbsentAmount(from, token string) sdk.Msg {
	return AbsentField{Msg: &ct.MsgSetMaxBurnAmountPerMessage{From: from, LocalToken: token}, Field: 3}
}
