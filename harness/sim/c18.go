package sim

import (
	"bytes"
	"context"
	"crypto/sha256"
	"encoding/hex"
	"fmt"
	"math/big"
	"os"
	"runtime"
	"sort"
	"strings"
	"sync"
	"time"

	abci "github.com/cometbft/cometbft/abci/types"
	"github.com/cosmos/cosmos-sdk/types/query"
	"github.com/cosmos/gogoproto/proto"

	"github.com/circlefin/noble-cctp/x/cctp/keeper"
	ct "github.com/circlefin/noble-cctp/x/cctp/types"
	sdk "github.com/cosmos/cosmos-sdk/types"

	"verif/harness/chain"
	"verif/harness/ref"
)

// runTranscript executes history hid (a pure function of (seed, hid)) on a fresh instance and
// returns the per-transaction digests of everything observable: code, codespace, response
// bytes, event bytes, app hash; and finally the raw dump hash of all stores. Logs excluded.
func runTranscript(seed int64, hid, nTx int, yield func()) (digests []string, viol []Violation, inc []string) {
	return runTranscriptR(seed, hid, nTx, yield, 0)
}

// runTranscriptR: restartEvery > 0 additionally re-opens the node on the same database every so many
// transactions; a restart must be unobservable, so the transcript has to be identical.
func runTranscriptR(seed int64, hid, nTx int, yield func(), restartEvery int) (digests []string, viol []Violation, inc []string) {
	rc := &RunCtx{ID: "C18", Tier: "quick", Seed: seed, Cov: NewCov()}
	rc.Rand = newRand(seed*7919 + int64(hid)*104729 + 5)
	gs := GenGenesis(rc.Rand, GenOpts{Unpaused: hid%2 == 0, WellFormed: true})
	// registry entries of a width only a genesis file can hold (remote tokens and messengers that are not 32 bytes)
	gs.TokenPairList = append(gs.TokenPairList,
		ct.TokenPair{RemoteDomain: 90, RemoteToken: Structured32(0x21)[:20], LocalToken: "uusdc"},
		ct.TokenPair{RemoteDomain: 90, RemoteToken: append(Structured32(0x22), 1), LocalToken: "uusdc"},
		ct.TokenPair{RemoteDomain: 91, RemoteToken: nil, LocalToken: "uusdc"},
		ct.TokenPair{RemoteDomain: 91, RemoteToken: Structured32(0x23)[:1], LocalToken: "ueure"})
	gs.TokenMessengerList = append(gs.TokenMessengerList, ct.RemoteTokenMessenger{DomainId: 90, Address: Structured32(0x24)[:20]})
	f, allow := DefaultFunding(rc.Rand, hid%3 == 1)
	tcfg := chain.Config{Genesis: gs, Funded: f, Allowance: allow, Double: hid%3 == 1, Yield: yield}
	// block times and proposers vary, the initial height does not: with an initial height above 1 the IAVL root hash of
	// a store differs between a node that was re-opened and one that was not although the stored key/value pairs are
	// identical (store-level behaviour below the module; the transcripts compare app hashes across restarts)
	headerStyle(&tcfg, 1)
	e, err := NewEngine(rc, tcfg)
	if err != nil {
		return nil, nil, []string{"transcript engine: " + err.Error()}
	}
	e.LightQueries = hid%2 == 0
	modAddr := append([]byte(nil), ct.ModuleAddress...)
	padded := append([]byte(nil), ct.PaddedModuleAddress...)
	g := NewGen(e)
	for i := 0; i < nTx; i++ {
		tx := g.Next()
		rep := e.Exec(tx)
		g.Learn(tx, rep)
		h := sha256.New()
		fmt.Fprintf(h, "%d|%s|gas=%d|", rep.Res.Code, rep.Res.Codespace, rep.Res.GasUsed)
		h.Write(rep.Res.Data)
		if !rep.Res.IsPanic() {
			h.Write([]byte(rep.Res.Log)) // the error text returned to the submitter (panic logs carry goroutine ids: excluded)
		}
		for _, ev := range rep.Res.Events {
			h.Write([]byte(ev.Type))
			for _, a := range ev.Attributes {
				h.Write([]byte(a.Key))
				h.Write([]byte{0})
				h.Write([]byte(a.Value))
				h.Write([]byte{1})
			}
		}
		h.Write(e.C.AppHash)
		digests = append(digests, hex.EncodeToString(h.Sum(nil))[:10])
		if i == nTx/2 || (restartEvery > 0 && i%restartEvery == restartEvery-1) {
			e.Restart()
		}
	}
	fh := chain.HashDump(e.C.DumpAll())
	digests = append(digests, "final:"+hex.EncodeToString(fh[:])[:16])
	if !bytes.Equal(modAddr, ct.ModuleAddress) || !bytes.Equal(padded, ct.PaddedModuleAddress) {
		viol = append(viol, Violation{Props: []string{"C18"}, Monitor: "global-snapshot", Sig: "C18:package-variable-mutated", Detail: "types.ModuleAddress / types.PaddedModuleAddress changed during a history"})
	}
	return digests, rc.Viol, rc.Cov.Inconcl
}

// c18ExtremesTranscript: a fixed history on the standard chain (ledger double, so every amount is payable): for every
// amount class and the values around 2^31, 2^32, 2^63 and 2^64 one mint to a user, a burn limit of exactly that amount
// and a deposit of exactly that amount by the same user. Every process must produce the same transcript, whatever its
// node-local settings (GOMAXPROCS, time zone, telemetry on or off).
func c18ExtremesTranscript(seed int64) (digests []string, viol []Violation, inc []string) {
	rc := &RunCtx{ID: "C18", Tier: "quick", Seed: seed, Cov: NewCov()}
	rc.Rand = newRand(seed*31 + 9)
	gs := StdGenesis()
	f, allow := DefaultFunding(rc.Rand, true)
	cfg := chain.Config{Genesis: gs, Funded: f, Allowance: allow, Double: true}
	headerStyle(&cfg, 1)
	e, err := NewEngine(rc, cfg)
	if err != nil {
		return nil, nil, []string{"extremes transcript engine: " + err.Error()}
	}
	var amts []*big.Int
	for _, c := range AmountClasses {
		amts = append(amts, c.V)
	}
	for _, sh := range []uint{31, 32, 63} {
		amts = append(amts, new(big.Int).Sub(pow2(sh), big.NewInt(1)), pow2(sh), new(big.Int).Add(pow2(sh), big.NewInt(1)))
	}
	digest := func(rep *Report) {
		h := sha256.New()
		fmt.Fprintf(h, "%d|%s|", rep.Res.Code, rep.Res.Codespace)
		h.Write(rep.Res.Data)
		if !rep.Res.IsPanic() {
			h.Write([]byte(rep.Res.Log))
		}
		for _, ev := range rep.Res.Events {
			h.Write([]byte(ev.Type))
			for _, a := range ev.Attributes {
				h.Write([]byte(a.Key + "\x00" + a.Value + "\x01"))
			}
		}
		h.Write(e.C.AppHash)
		digests = append(digests, hex.EncodeToString(h.Sum(nil))[:10])
	}
	nonce := uint64(880_000)
	for i, a := range amts {
		nonce++
		raw := StdInbound(nonce, UserIx, a).Bytes()
		digest(e.Exec(Tx{Msgs: msgs1(&ct.MsgReceiveMessage{From: Acct(OtherIx), Message: raw, Attestation: e.Attest(raw, i%3)}), Note: "C18 extremes: mint " + amountClass(a)}))
		digest(e.Exec(Tx{Msgs: msgs1(&ct.MsgSetMaxBurnAmountPerMessage{From: e.M.TC, LocalToken: "uusdc", Amount: mkInt(a)}), Note: "C18 extremes: limit " + amountClass(a)}))
		if i%2 == 0 {
			digest(e.Exec(Tx{Msgs: msgs1(&ct.MsgDepositForBurn{From: Acct(UserIx), Amount: mkInt(a), DestinationDomain: uint32(i % 3), MintRecipient: Structured32(byte(i + 1)), BurnToken: "uusdc"}), Note: "C18 extremes: deposit " + amountClass(a)}))
		} else {
			digest(e.Exec(Tx{Msgs: msgs1(&ct.MsgDepositForBurnWithCaller{From: Acct(UserIx), Amount: mkInt(a), DestinationDomain: uint32(i % 3), MintRecipient: Structured32(byte(i + 1)), BurnToken: "uusdc", DestinationCaller: Structured32(byte(i + 9))}), Note: "C18 extremes: deposit " + amountClass(a)}))
		}
	}
	fh := chain.HashDump(e.C.DumpAll())
	digests = append(digests, "final:"+hex.EncodeToString(fh[:])[:16])
	return digests, rc.Viol, rc.Cov.Inconcl
}

// c18SlowNodeTwin: the same short history (mints, deposits in both variants, both replacements, a refused receive)
// on two identical instances; on the second every call into the bank / fiat-token-factory takes 130 ms, as on a
// loaded node. Result codes, response bytes, events, the gas the transaction used and the app hash must be the same:
// how fast a node is is not chain state.
func c18SlowNodeTwin(rc *RunCtx) {
	run := func(delay time.Duration) (out []string, viol []Violation, inc []string) {
		r2 := &RunCtx{ID: "C18", Tier: "quick", Seed: rc.Seed, Cov: NewCov()}
		r2.Rand = newRand(rc.Seed*53 + 11)
		gs := StdGenesis()
		f, allow := DefaultFunding(r2.Rand, false)
		cfg := chain.Config{Genesis: gs, Funded: f, Allowance: allow}
		headerStyle(&cfg, 1)
		e, err := NewEngine(r2, cfg)
		if err != nil {
			return nil, nil, []string{"slow-node twin engine: " + err.Error()}
		}
		e.NoModeTwin, e.NoPositionTwin = true, true
		e.C.Deps.Delay = delay
		rec := func(rep *Report) *Report {
			ev := 0
			for _, x := range rep.Res.Events {
				ev += len(x.Attributes)
			}
			out = append(out, fmt.Sprintf("code=%d/%s data=%x events=%d/%d gas=%d app=%x", rep.Res.Code, rep.Res.Codespace, sha256.Sum256(rep.Res.Data), len(rep.Res.Events), ev, rep.Res.GasUsed, e.C.AppHash[:6]))
			return rep
		}
		nonce := uint64(70_000)
		var sent [][]byte
		for i := 0; i < 3; i++ {
			nonce++
			raw := StdInbound(nonce, UserIx, big.NewInt(int64(1000+i))).Bytes()
			rec(e.Exec(Tx{Msgs: msgs1(&ct.MsgReceiveMessage{From: Acct(OtherIx), Message: raw, Attestation: e.Attest(raw, 0)}), Note: "slow-node twin: mint"}))
			var dep sdk.Msg = &ct.MsgDepositForBurn{From: Acct(RichIx), Amount: mkInt(big.NewInt(int64(10 + i))), DestinationDomain: uint32(i % 3), MintRecipient: Structured32(byte(i + 1)), BurnToken: "uusdc"}
			if i == 1 {
				dep = &ct.MsgDepositForBurnWithCaller{From: Acct(RichIx), Amount: mkInt(big.NewInt(int64(10 + i))), DestinationDomain: 1, MintRecipient: Structured32(4), BurnToken: "uusdc", DestinationCaller: Structured32(9)}
			}
			if rep := rec(e.Exec(Tx{Msgs: msgs1(dep), Note: "slow-node twin: deposit"})); rep.OK && len(rep.Sent) == 1 {
				sent = append(sent, rep.Sent[0])
			}
		}
		for _, o := range sent {
			rec(e.Exec(Tx{Msgs: msgs1(&ct.MsgReplaceDepositForBurn{From: Acct(RichIx), OriginalMessage: o, OriginalAttestation: e.Attest(o, 0), NewDestinationCaller: Structured32(7), NewMintRecipient: Structured32(8)}), Note: "slow-node twin: replace deposit"}))
		}
		if rep := rec(e.Exec(Tx{Msgs: msgs1(&ct.MsgSendMessage{From: Acct(UserIx), DestinationDomain: 2, Recipient: Structured32(3), MessageBody: []byte("twin")}), Note: "slow-node twin: send"})); rep.OK && len(rep.Sent) == 1 {
			rec(e.Exec(Tx{Msgs: msgs1(&ct.MsgReplaceMessage{From: Acct(UserIx), OriginalMessage: rep.Sent[0], OriginalAttestation: e.Attest(rep.Sent[0], 0), NewMessageBody: []byte("twin 2"), NewDestinationCaller: Structured32(6)}), Note: "slow-node twin: replace"}))
		}
		raw := StdInbound(nonce, UserIx, big.NewInt(5)).Bytes() // the last nonce again: refused
		rec(e.Exec(Tx{Msgs: msgs1(&ct.MsgReceiveMessage{From: Acct(OtherIx), Message: raw, Attestation: e.Attest(raw, 0)}), Note: "slow-node twin: replay"}))
		return out, r2.Viol, r2.Cov.Inconcl
	}
	fast, v1, i1 := run(0)
	slow, v2, i2 := run(130 * time.Millisecond)
	for _, x := range append(v1, v2...) {
		rc.Report(x)
	}
	for _, x := range append(i1, i2...) {
		rc.Cov.Inconclusive(x)
	}
	rc.Cov.Assert("C18.slow-node-twin")
	rc.Cov.Cell("C18_modes", "slow-node-twin")
	rc.Cov.Extra["slow_node_twin_txs"] = float64(len(fast))
	for i := range fast {
		if i >= len(slow) || fast[i] != slow[i] {
			s := "<missing>"
			if i < len(slow) {
				s = slow[i]
			}
			rc.Report(Violation{Props: []string{"C18"}, Monitor: "slow-node-twin", Sig: "C18:outcome-depends-on-node-speed",
				Detail: fmt.Sprintf("transaction %d of the twin history differs between a fast and a slow node (dependency calls delayed by 130 ms): fast {%s} slow {%s}", i, fast[i], s),
				Case:   map[string]interface{}{"fast": fast, "slow": slow}})
			break
		}
	}
}

// resultDigest: everything a submitter or an indexer sees of one transaction, without block-level values.
func resultDigest(r *chain.TxResult) string {
	h := sha256.New()
	fmt.Fprintf(h, "%d|%s|", r.Code, r.Codespace)
	h.Write(r.Data)
	if !r.IsPanic() {
		h.Write([]byte(r.Log))
	}
	for _, ev := range r.Events {
		h.Write([]byte(ev.Type))
		for _, a := range ev.Attributes {
			h.Write([]byte(a.Key))
			h.Write([]byte{0})
			h.Write([]byte(a.Value))
			h.Write([]byte{1})
		}
	}
	return hex.EncodeToString(h.Sum(nil))[:12]
}

// c18BlockPartition: the transactions of history hid are delivered once one block each (through the engine, which
// records the bytes) and then again, to a fresh instance with the same genesis, packed into blocks of k
// transactions. Results and events of every transaction and the final raw state must not depend on the partition:
// nothing but committed state - no per-block or per-process memory - may flow from one transaction to the next.
func c18BlockPartition(rc *RunCtx, seed int64, hid, nTx int, ks []int) {
	sub := &RunCtx{ID: "C18", Tier: "quick", Seed: seed, Cov: NewCov()}
	sub.Rand = newRand(seed*7919 + int64(hid)*104729 + 5)
	gs := GenGenesis(sub.Rand, GenOpts{Unpaused: hid%2 == 0, WellFormed: true})
	f, allow := DefaultFunding(sub.Rand, hid%3 == 1)
	cfg := chain.Config{Genesis: gs, Funded: f, Allowance: allow, Double: hid%3 == 1}
	e, err := NewEngine(sub, cfg)
	if err != nil {
		rc.Cov.Inconclusive("block-partition engine: " + err.Error())
		return
	}
	e.LightQueries = true
	e.RecordBlocks = true
	g := NewGen(e)
	pg := &ProdGen{E: e, G: g}
	for i := 0; i < nTx; i++ {
		var tx Tx
		if i%3 == 0 { // plenty of successful producers and receives, so that consecutive transactions interact
			var m interface{} = nil
			switch sub.Rand.Intn(4) {
			case 0:
				tx = Tx{Msgs: msgs1(pg.ValidDeposit(sub.Rand.Intn(2) == 0, 0))}
			case 1:
				tx = Tx{Msgs: msgs1(pg.ValidSend(sub.Rand.Intn(2) == 0))}
			case 2:
				tx = Tx{Msgs: msgs1(g.Inbound(false))}
			default:
				tx = g.Next()
			}
			_ = m
		} else {
			tx = g.Next()
		}
		g.Learn(tx, e.Exec(tx))
	}
	for _, v := range sub.Viol {
		rc.Report(v)
	}
	var txs [][]byte
	for _, b := range e.BlockLog {
		txs = append(txs, b...)
	}
	refFinal := chain.HashDump(e.C.DumpAll())
	for ki, k := range ks {
		cfg2 := cfg
		if ki%2 == 1 { // another initial height, block times, proposers and block hashes as well
			cfg2.InitialHeight = 7_000_001
			cfg2.Header = func(req *abci.RequestFinalizeBlock) {
				req.Time = time.Date(2031, 5, 17, 23, 59, 59, 0, time.UTC).Add(time.Duration(req.Height) * 6 * time.Second)
				req.ProposerAddress = bytes.Repeat([]byte{byte(req.Height)}, 20)
				req.Hash = bytes.Repeat([]byte{byte(req.Height >> 3)}, 32)
			}
		}
		c, err := chain.New(cfg2)
		if err != nil {
			rc.Cov.Inconclusive("block-partition replay chain: " + err.Error())
			continue
		}
		var got []chain.TxResult
		for i := 0; i < len(txs); i += k {
			j := i + k
			if j > len(txs) {
				j = len(txs)
			}
			res, err := c.DeliverBlock(txs[i:j])
			if err != nil {
				rc.Cov.Inconclusive("block-partition replay: " + err.Error())
				break
			}
			got = append(got, res...)
		}
		rc.Cov.Cell("C18_modes", fmt.Sprintf("block-partition-%d", k))
		rc.Cov.Assert("C18.block-partition-invariance")
		rc.Cov.Evaluations += len(got)
		rc.Cov.Distinct(fmt.Sprintf("c18|%d|partition%d|%d", hid, k, rc.Shard))
		if len(got) != len(e.ResLog) {
			continue
		}
		for i := range got {
			if a, b := resultDigest(&e.ResLog[i]), resultDigest(&got[i]); a != b {
				rc.Report(Violation{Props: []string{"C18"}, Monitor: "block-partition", Sig: "C18:block-partition-diverged",
					Detail: fmt.Sprintf("history %d: transaction #%d gives a different result when the same transactions are packed %d to a block: one-per-block code=%d log=%q, packed code=%d log=%q",
						hid, i, k, e.ResLog[i].Code, trunc(e.ResLog[i].Log, 200), got[i].Code, trunc(got[i].Log, 200)),
					Case: map[string]interface{}{"history": hid, "tx_index": i, "block_size": k, "tx_hex": hex.EncodeToString(txs[i])}})
				break
			}
		}
		if fh := chain.HashDump(c.DumpAll()); fh != refFinal {
			rc.Report(Violation{Props: []string{"C18"}, Monitor: "block-partition", Sig: "C18:block-partition-final-state",
				Detail: fmt.Sprintf("history %d: final raw state differs when the same transactions are packed %d to a block", hid, k)})
		}
	}
}

// queryTranscript: the answers (or error texts) of a fixed battery of queries against e's committed state - every
// list query without pagination, with count_total, with page sizes around and above the default 100, and the scalar
// queries.
func queryTranscript(e *Engine) []string {
	var out []string
	pages := []*query.PageRequest{nil, {CountTotal: true}, {Limit: 1000}, {Limit: 101, CountTotal: true}, {Limit: 3, CountTotal: true}, {Limit: 100}, {Offset: 1, Limit: 500, CountTotal: true}}
	for _, q := range queryMethods {
		var reqs []proto.Message
		switch q.Kind {
		case "none":
			reqs = []proto.Message{nil}
		case "page":
			for _, p := range pages {
				switch q.Name {
				case "Attesters":
					reqs = append(reqs, &ct.QueryAllAttestersRequest{Pagination: p})
				case "PerMessageBurnLimits":
					reqs = append(reqs, &ct.QueryAllPerMessageBurnLimitsRequest{Pagination: p})
				case "TokenPairs":
					reqs = append(reqs, &ct.QueryAllTokenPairsRequest{Pagination: p})
				case "UsedNonces":
					reqs = append(reqs, &ct.QueryAllUsedNoncesRequest{Pagination: p})
				case "RemoteTokenMessengers":
					reqs = append(reqs, &ct.QueryRemoteTokenMessengersRequest{Pagination: p})
				}
			}
		default:
			continue
		}
		for i, req := range reqs {
			var bz []byte
			if req != nil {
				bz, _ = proto.Marshal(req)
			}
			r, err := e.C.App.Query(context.Background(), &abci.RequestQuery{Path: "/circle.cctp.v1.Query/" + q.Name, Data: bz})
			h := sha256.New()
			if err != nil {
				fmt.Fprintf(h, "err:%v", err)
			} else {
				fmt.Fprintf(h, "%d|%s|", r.Code, r.Log)
				h.Write(r.Value)
			}
			out = append(out, fmt.Sprintf("%s#%d:%x", q.Name, i, h.Sum(nil)[:6]))
		}
	}
	return out
}

// c18QueryIndependence: what a query answers depends on the committed state only - not on how many other instances
// are being queried at the same moment, nor on requests (valid, refused or malformed) served earlier in the process.
func c18QueryIndependence(rc *RunCtx) {
	mk := func() *Engine {
		sub := &RunCtx{ID: "C18", Tier: "quick", Seed: rc.Seed, Cov: NewCov()}
		sub.Rand = newRand(rc.Seed*31 + 77)
		gs := GenGenesis(sub.Rand, GenOpts{Unpaused: true, WellFormed: true})
		for i := 0; i < 130; i++ { // more used nonces than a default page
			gs.UsedNoncesList = append(gs.UsedNoncesList, ct.Nonce{SourceDomain: 9, Nonce: uint64(1000 + i)})
		}
		f, allow := DefaultFunding(sub.Rand, false)
		tcfg := chain.Config{Genesis: gs, Funded: f, Allowance: allow}
		headerStyle(&tcfg, 1)
		e, err := NewEngine(sub, tcfg)
		if err != nil {
			return nil
		}
		e.LightQueries = true
		g := NewGen(e)
		for i := 0; i < 40; i++ {
			tx := g.Next()
			g.Learn(tx, e.Exec(tx))
		}
		return e
	}
	ref0 := mk()
	if ref0 == nil {
		rc.Cov.Inconclusive("query independence: engine")
		return
	}
	want := queryTranscript(ref0)
	cmp := func(mode string, got []string) {
		rc.Cov.Assert("C18.query-independence")
		rc.Cov.Evaluations += len(got)
		rc.Cov.Cell("C18_modes", "query-independence:"+mode)
		for i := range want {
			if i >= len(got) || got[i] != want[i] {
				g := "<missing>"
				if i < len(got) {
					g = got[i]
				}
				rc.Report(Violation{Props: []string{"C18"}, Monitor: "query-independence", Sig: "C18:query-answer-depends-on-process-history:" + mode,
					Detail: fmt.Sprintf("the same query on the same committed state answered differently (%s): first %s, now %s", mode, want[i], g)})
				return
			}
		}
	}
	// (1) many instances queried at the same moment
	n := 24
	engs := make([]*Engine, n)
	for i := range engs {
		engs[i] = mk()
	}
	outs := make([][]string, n)
	var wg sync.WaitGroup
	start := make(chan struct{})
	for i := range engs {
		if engs[i] == nil {
			continue
		}
		wg.Add(1)
		go func(i int) {
			defer wg.Done()
			<-start
			for rep := 0; rep < 3; rep++ {
				outs[i] = queryTranscript(engs[i])
			}
		}(i)
	}
	close(start)
	wg.Wait()
	for i := range outs {
		if outs[i] != nil {
			cmp("concurrent-instances", outs[i])
		}
	}
	// (2) after refused and malformed requests served by other instances of this process
	noise := engs[0]
	if noise != nil {
		bad := []*query.PageRequest{{Key: []byte{1}, Offset: 1, CountTotal: true}, {Key: []byte{1}, Offset: 2, Limit: 1000}, {Key: []byte{0xff, 0xff}, Limit: 1000, CountTotal: true}, {Offset: 1 << 62, Limit: 1 << 62, CountTotal: true}, {Key: []byte("zz"), Offset: 9, Limit: 101}}
		for k := 0; k < 40; k++ {
			p := bad[k%len(bad)]
			_ = noise.C.Query("UsedNonces", &ct.QueryAllUsedNoncesRequest{Pagination: p}, nil)
			_ = noise.C.Query("Attesters", &ct.QueryAllAttestersRequest{Pagination: p}, nil)
			_ = noise.C.Query("TokenPairs", &ct.QueryAllTokenPairsRequest{Pagination: p}, nil)
			_ = noise.C.Query("RemoteTokenMessengers", &ct.QueryRemoteTokenMessengersRequest{Pagination: p}, nil)
			_ = noise.C.Query("PerMessageBurnLimits", &ct.QueryAllPerMessageBurnLimitsRequest{Pagination: p}, nil)
			_ = noise.C.QueryRaw("UsedNonces", []byte{0xff, 0xff, 0xff}, nil)
		}
	}
	if fresh := mk(); fresh != nil {
		cmp("after-refused-requests", queryTranscript(fresh))
	}
	cmp("same-instance-again", queryTranscript(ref0))
}

// c18RepeatBranches: every single-condition rejection of a receive and of a deposit (and the accepting case) is
// executed on a fresh instance, then the identical sequence again on another fresh instance of the same process:
// results must be identical - a rejection path must not leave anything behind in the process.
func c18RepeatBranches(rc *RunCtx) {
	run := func() []string {
		sub := &RunCtx{ID: "C18", Tier: "quick", Seed: rc.Seed, Cov: NewCov(), Shard: 0, NShards: 1}
		sub.Rand = newRand(rc.Seed*17 + 3)
		var out []string
		for flags := 0; flags < 4; flags++ {
			e, err := c03Engine(sub, flags&1 != 0, flags&2 != 0)
			if err != nil {
				return nil
			}
			e.LightQueries = true
			fresh := uint64(300000 + flags*1000)
			masks := []uint32{0, A2Attestation, A3Header, A4DstDomain, A5Version, A6NonceUnused, A7Caller, B2BodyLen, B3BodyVersion, B4Messenger, B5Pair, B6Mint}
			for _, mask := range masks {
				for _, module := range []bool{true, false} {
					for v := 0; v < 3; v++ {
						nm := normaliseMask(mask, module)
						tx := c03Case{mask: nm, module: module, variant: v}.build(e, &fresh)
						rep := e.Exec(tx)
						out = append(out, resultDigest(&rep.Res))
					}
				}
			}
			// deposits: each precondition falsified alone, and the accepting case
			for _, pm := range []uint32{0, P1Amount, P2Limit, P3Denom, P4MintRecipient, P5Messenger, P7BodySize, P10Caller, PFrom} {
				for _, wc := range []bool{false, true} {
					if !wc && pm == P10Caller {
						continue
					}
					amt := big.NewInt(5)
					if pm == P1Amount {
						amt = big.NewInt(0)
					}
					tx := c08Deposit(e, pm&^P7BodySize, wc, amt, int(pm%7), "uusdc")
					rep := e.Exec(tx)
					out = append(out, resultDigest(&rep.Res))
				}
			}
			// unauthorised administrative requests of every type
			for ti, at := range adminTypes {
				rep := e.Exec(Tx{Msgs: msgs1(at.Make(e.M, Acct(UserIx), ti)), Note: "C18 repeat: unauthorised " + at.Name})
				out = append(out, resultDigest(&rep.Res))
			}
		}
		return out
	}
	a, b, c := run(), run(), run()
	rc.Cov.Assert("C18.repeat-branches")
	rc.Cov.Cell("C18_modes", "repeat-rejection-branches")
	rc.Cov.Evaluations += len(a) + len(b) + len(c)
	for i := range a {
		if i >= len(b) || i >= len(c) || a[i] != b[i] || a[i] != c[i] {
			rc.Report(Violation{Props: []string{"C18"}, Monitor: "repeat-branches", Sig: "C18:same-sequence-differs-within-a-process",
				Detail: fmt.Sprintf("request #%d of a fixed sequence of accepted and rejected requests gives another result the second or third time it is executed, on a fresh instance, in the same process", i)})
			return
		}
	}
}

func c18Params(tier string) (H, nTx int) {
	if tier == "thorough" {
		return 16, 1200
	}
	return 8, 300
}

func runC18(rc *RunCtx) {
	H, nTx := c18Params(rc.Tier)
	rec := func(hid int, mode string, d []string, v []Violation, inc []string) {
		rc.Cov.Extra[fmt.Sprintf("T|%03d|%s|shard%d", hid, mode, rc.Shard)] = strings.Join(d, ",")
		rc.Cov.Evaluations += len(d)
		rc.Cov.Cell("C18_modes", mode)
		rc.Cov.Distinct(fmt.Sprintf("c18|%d|%s|%d", hid, mode, rc.Shard))
		for _, x := range v {
			rc.Report(x)
		}
		for _, x := range inc {
			rc.Cov.Inconclusive(x)
		}
	}
	if subMode() == "race" {
		c18Race(rc, H, nTx)
		return
	}
	// (00) on every other shard the high-s battery is the very first thing the process does; everywhere it is also the last
	if rc.Shard%2 == 0 {
		c18HighSBattery(rc, "first", rec)
	}
	defer c18HighSBattery(rc, "last", rec)
	// (0) on a third of the shards, before anything else ran in the process: every rejection branch, three times over
	if rc.Shard%3 == 1 {
		c18RepeatBranches(rc)
	}
	// (a) first thing in a fresh process
	hid := rc.Shard % H
	d, v, inc := runTranscript(rc.Seed, hid, nTx, nil)
	rec(hid, "fresh-process", d, v, inc)
	// (b) after unrelated histories on other instances in this process
	for k := 1; k <= 3; k++ {
		hb := (hid + k) % H
		d, v, inc := runTranscript(rc.Seed, hb, nTx, nil)
		rec(hb, "after-unrelated-histories", d, v, inc)
	}
	// (b') with a node restart every few transactions (memory retained outside the store would show)
	for k, every := range []int{3, 11} {
		hb := (hid + 2*k) % H
		d, v, inc := runTranscriptR(rc.Seed, hb, nTx, nil, every)
		rec(hb, fmt.Sprintf("restart-every-%d", every), d, v, inc)
	}
	// (b00) a fast and a slow node
	if rc.Shard%3 == 2 || rc.NShards < 3 {
		c18SlowNodeTwin(rc)
	}
	// (b01) live, cancelled and expired Go contexts on one state
	if rc.Shard%3 == 1 || rc.NShards < 3 {
		c18ContextTwin(rc)
	}
	// (b0) the fixed extremes history, in every process
	{
		d, v, inc := c18ExtremesTranscript(rc.Seed)
		rec(900, "fixed-extremes", d, v, inc)
	}
	// (b+) the same transactions packed 2, 7 and all-in-one to a block
	c18BlockPartition(rc, rc.Seed, (hid+1)%H, nTx, []int{2, 7, 1 << 30, 1})
	// (b++) query answers are independent of concurrent instances and of requests served earlier in the process
	if rc.Shard%3 == 0 {
		c18QueryIndependence(rc)
	}
	// (b'') the exported verifier and decoders called repeatedly and concurrently with the same arguments
	c18RepeatCalls(rc)
	// (c) concurrently with other instances on other goroutines
	var wg sync.WaitGroup
	type out struct {
		hid int
		d   []string
		v   []Violation
		inc []string
	}
	outs := make([]out, 8)
	for k := 0; k < 8; k++ {
		wg.Add(1)
		go func(k int) {
			defer wg.Done()
			hc := (hid + 4 + k/2) % H // replicas in pairs: the same history on two instances at the same moment
			d, v, inc := runTranscript(rc.Seed, hc, nTx, runtime.Gosched)
			outs[k] = out{hc, d, v, inc}
		}(k)
	}
	wg.Wait()
	for k, o := range outs {
		rc.Cov.Extra[fmt.Sprintf("T|%03d|concurrent-%d|shard%d", o.hid, k, rc.Shard)] = strings.Join(o.d, ",")
		rc.Cov.Evaluations += len(o.d)
		rc.Cov.Cell("C18_modes", "concurrent")
		rc.Cov.Distinct(fmt.Sprintf("c18|%d|conc%d|%d", o.hid, k, rc.Shard))
		for _, x := range o.v {
			rc.Report(x)
		}
		for _, x := range o.inc {
			rc.Cov.Inconclusive(x)
		}
	}
	rc.Cov.Extra[fmt.Sprintf("env|shard%d", rc.Shard)] = fmt.Sprintf("GOMAXPROCS=%d pid=%d TZ=%s", runtime.GOMAXPROCS(0), os.Getpid(), os.Getenv("TZ"))
}

// c18Race: concurrent independent instances + parallel query bursts against committed state, under the race detector.
func c18Race(rc *RunCtx, H, nTx int) {
	var wg sync.WaitGroup
	n := 6
	for k := 0; k < n; k++ {
		wg.Add(1)
		go func(k int) {
			defer wg.Done()
			runTranscript(rc.Seed, (rc.Shard*n+k)%H, nTx/3, runtime.Gosched)
		}(k)
	}
	wg.Wait()
	rc.Cov.Cell("C18_modes", "race:concurrent-instances")
	// parallel queries (readers under RLock, block execution under Lock — the node's ABCI mutex pattern)
	sub := &RunCtx{ID: "C18", Tier: rc.Tier, Seed: rc.Seed, Cov: NewCov(), Rand: newRand(rc.Seed + 99)}
	e, err := NewHistoryEngine(sub, GenOpts{Unpaused: true, RichRegistry: true}, false, false)
	if err != nil {
		rc.Cov.Inconclusive(err.Error())
		return
	}
	g := NewGen(e)
	var mu sync.RWMutex
	for round := 0; round < 6; round++ {
		mu.Lock()
		e.C.Store.Disabled = false
		for i := 0; i < 25; i++ {
			tx := g.Next()
			g.Learn(tx, e.Exec(tx))
		}
		e.C.Store.Disabled = true
		mu.Unlock()
		var qg sync.WaitGroup
		for q := 0; q < 8; q++ {
			qg.Add(1)
			go func(q int) {
				defer qg.Done()
				mu.RLock()
				defer mu.RUnlock()
				for j := 0; j < 30; j++ {
					qm := queryMethods[(q*7+j)%len(queryMethods)]
					_ = e.C.QueryRaw(qm.Name, nil, nil)
				}
			}(q)
		}
		qg.Wait()
	}
	rc.Cov.Cell("C18_modes", "race:parallel-queries")
	rc.Cov.Evaluations += 6 * 8 * 30
	rc.Cov.Distinct("race-pass")
	rc.Cov.Distinct("race-pass-queries")
}

func c18Post(c *Cov, tier string) []Violation {
	byHid := map[string]map[string]string{}
	for k, v := range c.Extra {
		if !strings.HasPrefix(k, "T|") {
			continue
		}
		p := strings.Split(k, "|")
		if byHid[p[1]] == nil {
			byHid[p[1]] = map[string]string{}
		}
		byHid[p[1]][p[2]+"/"+p[3]], _ = v.(string)
	}
	var out []Violation
	hids := make([]string, 0, len(byHid))
	for h := range byHid {
		hids = append(hids, h)
	}
	sort.Strings(hids)
	compared := 0
	for _, h := range hids {
		modes := byHid[h]
		var names []string
		for n := range modes {
			names = append(names, n)
		}
		sort.Strings(names)
		ref := modes[names[0]]
		for _, n := range names[1:] {
			compared++
			if modes[n] != ref {
				a, b := strings.Split(ref, ","), strings.Split(modes[n], ",")
				idx := 0
				for idx < len(a) && idx < len(b) && a[idx] == b[idx] {
					idx++
				}
				out = append(out, Violation{Props: []string{"C18"}, Monitor: "replay-comparator", Sig: "C18:transcript-diverged",
					Detail: fmt.Sprintf("history %s: replays %q and %q diverge at transaction %d of %d (digest of code, response bytes, event bytes and app hash)", h, names[0], n, idx, len(a)),
					Case:   map[string]string{"history": h, "a": names[0], "b": n, "first_difference": fmt.Sprint(idx)}, Shard: -1})
				break
			}
		}
	}
	c.Extra["transcripts_compared"] = float64(compared)
	c.Extra["histories"] = float64(len(byHid))
	// keep the evidence small: drop the raw transcripts, keep one sample
	for k := range c.Extra {
		if strings.HasPrefix(k, "T|") {
			if len(c.Samples) < 2 {
				s, _ := c.Extra[k].(string)
				c.Sample(map[string]string{"transcript": k, "per_tx_digests": trunc(s, 400)})
			}
			delete(c.Extra, k)
		}
	}
	return out
}

func init() {
	Register(&Check{
		ID: "C18", Level: "exploration",
		Rule:   "replay comparator: each history (a pure function of (seed, id); 300 tx quick / 1200 thorough, incl. a restart) is executed (a) as the first thing in a fresh process, (b) in other processes with different GOMAXPROCS/TZ after unrelated histories on other instances, (c) concurrently with seven other instances on other goroutines with a yield at every store access; per-transaction digests of result code, response bytes, event bytes and app hash plus the final raw dump hash must be identical across all replays; package variables ModuleAddress / PaddedModuleAddress are snapshotted; race detector (-race build) over concurrent independent instances and over parallel query bursts against committed state (readers under RLock, block execution under Lock), reports counted from the race log and attributed to the module only when a racing frame lies in noble-cctp. distinct = (history, replay mode, process).",
		Shards: func(t string) int { h, _ := c18Params(t); return h },
		Prefix: func(string, int) string { return "noble" },
		Run:    runC18,
		Post:   c18Post,
		ShardEnv: func(tier string, shard int) []string {
			return []string{fmt.Sprintf("GOMAXPROCS=%d", []int{1, 2, 4, 16, 3, 8, 5, 12}[shard%8]), "TZ=" + []string{"UTC", "Asia/Tokyo", "America/New_York"}[shard%3], fmt.Sprintf("VERIF_NOISE=%d", shard*shard)}
		},
		Extra: func(tier string) []ExtraPass {
			if tier == "thorough" {
				return []ExtraPass{{Build: "race", Mode: "race", N: 5}}
			}
			return []ExtraPass{{Build: "race", Mode: "race", N: 1}}
		},
		Floors: func(c *Cov, tier string) []string {
			var miss []string
			h, _ := c18Params(tier)
			if v, _ := c.Extra["histories"].(float64); int(v) < h {
				miss = append(miss, fmt.Sprintf("histories compared: %v of %d", v, h))
			}
			if v, _ := c.Extra["transcripts_compared"].(float64); v < float64(3*h) {
				miss = append(miss, fmt.Sprintf("transcript comparisons: %v", v))
			}
			if v, _ := c.Extra["race_log_parsed"].(bool); !v {
				miss = append(miss, "race pass did not run")
			}
			for _, m := range []string{"high-s-battery-last", "slow-node-twin", "context-twin/live", "context-twin/cancelled", "context-twin/deadline-passed", "fixed-extremes", "fresh-process", "after-unrelated-histories", "restart-every-3", "restart-every-11", "concurrent", "race:concurrent-instances", "race:parallel-queries"} {
				if c.Matrix["C18_modes"][m] == 0 {
					miss = append(miss, "mode not exercised: "+m)
				}
			}
			return miss
		},
		Assumptions: []string{"wall-clock dependence is visible only if it manifests within the seconds between replays", "SDK-internal races (BaseApp.Query concurrent with Commit, shared interface registries) are avoided by the harness, not attributed to the module"},
	})
}

// c18HighSBattery: three honest attestations in which one signature is given in its other (high-s) encoding, each
// verified twice in a row. The list of results is recorded as a transcript: it must be the same whether the battery is
// the first thing a process does or the last, and the two verifications of one attestation must agree.
func c18HighSBattery(rc *RunCtx, phase string, rec func(hid int, mode string, d []string, v []Violation, inc []string)) {
	keys := ref.SortByAddr(AttesterPool[:3])
	var attesters []ct.Attester
	for i, k := range keys {
		attesters = append(attesters, ct.Attester{Attester: k.Spell(i)})
	}
	var out []string
	var viol []Violation
	for c := 0; c < 3; c++ {
		msg := structured(60+c, byte(7*c+1))
		att := ref.HonestAttestation(msg, keys[:2], c%2)
		copy(att[65*(c%2):], ref.HighSTwin(att[65*(c%2):65*(c%2)+65]))
		var pair [2]string
		for k := 0; k < 2; k++ {
			err := keeper.VerifyAttestationSignatures(msg, append([]byte(nil), att...), attesters, 2)
			pair[k] = "<nil>"
			if err != nil {
				pair[k] = err.Error()
			}
			out = append(out, fmt.Sprintf("%x", sha256.Sum256([]byte(pair[k])))[:10])
		}
		rc.Cov.Assert("C18.repeat-call-determinism")
		if pair[0] != pair[1] {
			viol = append(viol, Violation{Props: []string{"C18"}, Monitor: "repeat-call-determinism", Sig: "C18:verifier-result-varies",
				Detail: fmt.Sprintf("VerifyAttestationSignatures returned different results for identical arguments (an attestation with one high-s signature): %q vs %q", pair[0], pair[1]),
				Case:   map[string]string{"message": hex.EncodeToString(msg), "attestation": hex.EncodeToString(att), "threshold": "2"}})
		}
	}
	rec(902, "high-s-battery-"+phase, out, viol, nil)
}

// c18RepeatCalls: the exported verifier, given the same (message, attestation, attesters, threshold), must return
// the same result - including the error text - on every call, from any goroutine.
func c18RepeatCalls(rc *RunCtx) {
	r := rc.Rand
	keys := AttesterPool[:5]
	var attesters []ct.Attester
	for i, k := range keys {
		attesters = append(attesters, ct.Attester{Attester: k.Spell(i)})
	}
	for c := 0; c < rc.Pick(12, 40); c++ {
		t := 2 + c%3
		signers := ref.SortByAddr(keys)[:t]
		msg := structured(50+c, byte(c))
		att := ref.HonestAttestation(msg, signers, 0)
		// several independent faults in one attestation
		for f := 0; f < 1+c%3; f++ {
			att = MutateBytes(r, []string{"flip-v", "zero-r", "zero-s", "r-ge-n", "sign-other-bytes", "swap-non-enabled-key"}[(c+f)%6], (c+f)%t, msg, att, signers, AttesterPool[9])
		}
		if c%4 == 0 { // two different recovery failures
			att[64] = 9
			for i := 65; i < 129 && i < len(att); i++ {
				att[i] = 0
			}
		}
		results := make([]string, 400)
		var wg sync.WaitGroup
		for g := 0; g < 8; g++ {
			wg.Add(1)
			go func(g int) {
				defer wg.Done()
				for i := g; i < len(results); i += 8 {
					err := keeper.VerifyAttestationSignatures(msg, append([]byte(nil), att...), attesters, uint32(t))
					if err == nil {
						results[i] = "<nil>"
					} else {
						results[i] = err.Error()
					}
				}
			}(g)
		}
		wg.Wait()
		rc.Cov.Assert("C18.repeat-call-determinism")
		rc.Cov.Evaluations += len(results)
		rc.Cov.Distinct(fmt.Sprintf("repeat|%d|%d", c, t))
		for _, x := range results[1:] {
			if x != results[0] {
				rc.Report(Violation{Props: []string{"C18"}, Monitor: "repeat-call-determinism", Sig: "C18:verifier-result-varies",
					Detail: fmt.Sprintf("VerifyAttestationSignatures returned different results for identical arguments: %q vs %q", results[0], x),
					Case:   map[string]string{"message": hex.EncodeToString(msg), "attestation": hex.EncodeToString(att), "threshold": fmt.Sprint(t)}})
				break
			}
		}
	}
	// well-formed attestations in which several signers at once are not enabled (rotated-out sets, outsiders): whichever
	// of them a diagnostic names, it must be the same one every time
	outs := AttesterPool[5:10]
	for c := 0; c < rc.Pick(10, 30); c++ {
		t := 2 + c%4
		var pool []*ref.Key
		nOut := 2 + c%3
		if nOut > t {
			nOut = t
		}
		perm := r.Perm(len(outs))
		for i := 0; i < nOut; i++ {
			pool = append(pool, outs[perm[i]])
		}
		permIn := r.Perm(len(keys))
		for i := 0; len(pool) < t; i++ {
			pool = append(pool, keys[permIn[i]])
		}
		signers := ref.SortByAddr(pool)
		msg := structured(70+c, byte(3*c))
		att := ref.HonestAttestation(msg, signers, c%3)
		results := make([]string, 400)
		var wg sync.WaitGroup
		for g := 0; g < 8; g++ {
			wg.Add(1)
			go func(g int) {
				defer wg.Done()
				for i := g; i < len(results); i += 8 {
					err := keeper.VerifyAttestationSignatures(msg, append([]byte(nil), att...), attesters, uint32(t))
					if err == nil {
						results[i] = "<nil>"
					} else {
						results[i] = err.Error()
					}
				}
			}(g)
		}
		wg.Wait()
		rc.Cov.Assert("C18.repeat-call-determinism")
		rc.Cov.Evaluations += len(results)
		rc.Cov.Distinct(fmt.Sprintf("repeat-outsiders|%d|%d|%d", c, t, nOut))
		for _, x := range results[1:] {
			if x != results[0] {
				rc.Report(Violation{Props: []string{"C18"}, Monitor: "repeat-call-determinism", Sig: "C18:verifier-result-varies",
					Detail: fmt.Sprintf("VerifyAttestationSignatures returned different results for identical arguments (%d of %d signers not enabled): %q vs %q", nOut, t, results[0], x),
					Case:   map[string]string{"message": hex.EncodeToString(msg), "attestation": hex.EncodeToString(att), "threshold": fmt.Sprint(t)}})
				break
			}
		}
	}
	rc.Cov.Cell("C18_modes", "repeat-calls")
}
