package sim

import (
	"bytes"
	"fmt"
	"math/big"
	"sort"
	"strings"

	sdk "github.com/cosmos/cosmos-sdk/types"
	"github.com/cosmos/gogoproto/proto"
	protov2 "google.golang.org/protobuf/proto"

	ct "github.com/circlefin/noble-cctp/x/cctp/types"

	"verif/harness/chain"
	"verif/harness/ref"
)

// ---------------------------------------------------------------- the 18 privileged transaction types

type adminType struct {
	Name string
	Role string // owner | pending | am | pauser | tc
	// Make builds a message with arguments that are valid on state s (so that the holder succeeds).
	Make func(s *State, from string, v int) sdk.Msg
}

func firstAttester(s *State) string {
	a := sortedStrings(s.Attesters)
	if len(a) == 0 {
		return AttesterPool[0].Spell(0)
	}
	return a[0]
}

func freshAttester(s *State, v int) string {
	for i := range AttesterPool {
		k := AttesterPool[(i+v)%len(AttesterPool)]
		en := false
		for st := 0; st < 4; st++ {
			if s.Attesters[k.Spell(st)] {
				en = true
			}
		}
		if !en {
			return k.Spell(v % 4)
		}
	}
	return AttesterPool[0].Spell(0)
}

var adminTypes = []adminType{
	{"UpdateOwner", "owner", func(s *State, f string, v int) sdk.Msg {
		return &ct.MsgUpdateOwner{From: f, NewOwner: Acct((v + 5) % NAccounts)}
	}},
	{"AcceptOwner", "pending", func(s *State, f string, v int) sdk.Msg { return &ct.MsgAcceptOwner{From: f} }},
	{"UpdateAttesterManager", "owner", func(s *State, f string, v int) sdk.Msg {
		return &ct.MsgUpdateAttesterManager{From: f, NewAttesterManager: Acct((v + 5) % NAccounts)}
	}},
	{"UpdatePauser", "owner", func(s *State, f string, v int) sdk.Msg {
		return &ct.MsgUpdatePauser{From: f, NewPauser: Acct((v + 5) % NAccounts)}
	}},
	{"UpdateTokenController", "owner", func(s *State, f string, v int) sdk.Msg {
		return &ct.MsgUpdateTokenController{From: f, NewTokenController: Acct((v + 5) % NAccounts)}
	}},
	{"UpdateMaxMessageBodySize", "owner", func(s *State, f string, v int) sdk.Msg {
		return &ct.MsgUpdateMaxMessageBodySize{From: f, MessageSize: []uint64{0, 1, 131, 132, 133, 8000, 1 << 40, uint64(4000 + v), 1 << 63, ^uint64(0)}[v%10]}
	}},
	{"AddRemoteTokenMessenger", "owner", func(s *State, f string, v int) sdk.Msg {
		for _, d := range []uint32{77, 78, 79, 80, 81, 82, 83} {
			if _, ok := s.Messengers[d]; !ok {
				return &ct.MsgAddRemoteTokenMessenger{From: f, DomainId: d, Address: Messenger(d, v%2)}
			}
		}
		return &ct.MsgAddRemoteTokenMessenger{From: f, DomainId: 99, Address: Messenger(99, 0)}
	}},
	{"RemoveRemoteTokenMessenger", "owner", func(s *State, f string, v int) sdk.Msg {
		ds := sortedDomains(s.Messengers)
		d := uint32(0)
		if len(ds) > 0 {
			d = ds[len(ds)-1]
		}
		return &ct.MsgRemoveRemoteTokenMessenger{From: f, DomainId: d}
	}},
	{"EnableAttester", "am", func(s *State, f string, v int) sdk.Msg {
		return &ct.MsgEnableAttester{From: f, Attester: freshAttester(s, v)}
	}},
	{"DisableAttester", "am", func(s *State, f string, v int) sdk.Msg {
		return &ct.MsgDisableAttester{From: f, Attester: firstAttester(s)}
	}},
	{"UpdateSignatureThreshold", "am", func(s *State, f string, v int) sdk.Msg {
		t := s.Threshold + 1
		if int(t) > len(s.Attesters) {
			t = 1
		}
		return &ct.MsgUpdateSignatureThreshold{From: f, Amount: t}
	}},
	{"PauseBurningAndMinting", "pauser", func(s *State, f string, v int) sdk.Msg { return &ct.MsgPauseBurningAndMinting{From: f} }},
	{"UnpauseBurningAndMinting", "pauser", func(s *State, f string, v int) sdk.Msg { return &ct.MsgUnpauseBurningAndMinting{From: f} }},
	{"PauseSendingAndReceivingMessages", "pauser", func(s *State, f string, v int) sdk.Msg { return &ct.MsgPauseSendingAndReceivingMessages{From: f} }},
	{"UnpauseSendingAndReceivingMessages", "pauser", func(s *State, f string, v int) sdk.Msg {
		return &ct.MsgUnpauseSendingAndReceivingMessages{From: f}
	}},
	{"LinkTokenPair", "tc", func(s *State, f string, v int) sdk.Msg {
		for d := uint32(40); d < 60; d++ {
			if _, ok := s.Pairs[pairKey{d, string(Token(2))}]; !ok {
				return &ct.MsgLinkTokenPair{From: f, RemoteDomain: d, RemoteToken: Token(2), LocalToken: []string{"uusdc", "UUSDC", "factory/" + f + "/utoken", "uusdc"}[v%4]}
			}
		}
		return &ct.MsgLinkTokenPair{From: f, RemoteDomain: 61, RemoteToken: Token(2), LocalToken: "uusdc"}
	}},
	{"UnlinkTokenPair", "tc", func(s *State, f string, v int) sdk.Msg {
		var ks []pairKey
		for k := range s.Pairs {
			ks = append(ks, k)
		}
		sort.Slice(ks, func(i, j int) bool {
			if ks[i].Domain != ks[j].Domain {
				return ks[i].Domain < ks[j].Domain
			}
			return ks[i].Token < ks[j].Token
		})
		if len(ks) == 0 {
			return &ct.MsgUnlinkTokenPair{From: f, RemoteDomain: 0, RemoteToken: Token(0), LocalToken: "uusdc"}
		}
		k := ks[len(ks)-1]
		return &ct.MsgUnlinkTokenPair{From: f, RemoteDomain: k.Domain, RemoteToken: []byte(k.Token), LocalToken: s.Pairs[k]}
	}},
	{"SetMaxBurnAmountPerMessage", "tc", func(s *State, f string, v int) sdk.Msg {
		return &ct.MsgSetMaxBurnAmountPerMessage{From: f, LocalToken: []string{"uusdc", "UUSDC", "ueure", "factory/" + f + "/utoken", "ibc/" + f, f}[v%6], Amount: mkInt(big.NewInt(int64(1000 + v)))}
	}},
}

var roleNames = []string{"owner", "pending", "am", "pauser", "tc"}

func holdingName(h int) string {
	if h == 0 {
		return "none"
	}
	var s []string
	for i, r := range roleNames {
		if h&(1<<uint(i)) != 0 {
			s = append(s, r)
		}
	}
	return strings.Join(s, "+")
}

// c10Chain: submitter S = account 4 holds exactly the roles in h; the other slots go to accounts 0..3
// (pending: account 7 or none).
// c10GenesisVariants: genesis states that validation accepts and transactions cannot always reach; who may do what
// does not depend on them.
var c10GenesisVariants = []string{"standard", "threshold-above-the-attester-count", "both-flags-paused", "no-attesters", "body-size-0-and-limit-0", "empty-registries"}

func c10Chain(rc *RunCtx, h int, otherPending bool, variant int) (*Engine, error) {
	S := Acct(UserIx)
	e, err := StdEngine(rc, false, false, func(gs *ct.GenesisState, cfg *chain.Config) {
		switch c10GenesisVariants[variant%len(c10GenesisVariants)] {
		case "threshold-above-the-attester-count":
			gs.SignatureThreshold = &ct.SignatureThreshold{Amount: uint32(len(gs.AttesterList) + 1 + variant%2)}
		case "both-flags-paused":
			gs.BurningAndMintingPaused.Paused, gs.SendingAndReceivingMessagesPaused.Paused = true, true
		case "no-attesters":
			gs.AttesterList = nil
		case "body-size-0-and-limit-0":
			gs.MaxMessageBodySize = &ct.MaxMessageBodySize{Amount: 0}
			gs.PerMessageBurnLimitList = []ct.PerMessageBurnLimit{{Denom: "uusdc", Amount: sdkInt(0)}}
		case "empty-registries":
			gs.TokenPairList, gs.TokenMessengerList, gs.UsedNoncesList = nil, nil, nil
		}
		if h&1 != 0 {
			gs.Owner = S
		}
		if h&4 != 0 {
			gs.AttesterManager = S
		}
		if h&8 != 0 {
			gs.Pauser = S
		}
		if h&16 != 0 {
			gs.TokenController = S
		}
	})
	if err != nil {
		return nil, err
	}
	e.LightQueries = false
	if h&2 != 0 {
		if rep := e.Exec(Tx{Msgs: msgs1(&ct.MsgUpdateOwner{From: e.M.Owner, NewOwner: S}), Note: "c10 prepare pending"}); !rep.OK {
			return nil, fmt.Errorf("cannot prepare pending owner")
		}
	} else if otherPending {
		if rep := e.Exec(Tx{Msgs: msgs1(&ct.MsgUpdateOwner{From: e.M.Owner, NewOwner: Acct(OtherIx)}), Note: "c10 prepare other pending"}); !rep.OK {
			return nil, fmt.Errorf("cannot prepare pending owner")
		}
	}
	return e, nil
}

func runC10(rc *RunCtx) {
	S := Acct(UserIx)
	cell := 0
	for ti, at := range adminTypes {
		for h := 0; h < 32; h++ {
			cell++
			if cell%rc.NShards != rc.Shard {
				continue
			}
			for rep := 0; rep < rc.Pick(1, 3); rep++ {
				variant := (h/2 + ti + rep) % len(c10GenesisVariants)
				if h%2 == 0 && rep == 0 {
					variant = 0 // half of the table on the standard genesis
				}
				e, err := c10Chain(rc, h, (h+ti+rep)%2 == 0, variant)
				if err != nil {
					rc.Cov.Inconclusive("c10 chain: " + err.Error())
					continue
				}
				m := at.Make(e.M, S, ti+h+rep)
				tx := Tx{Msgs: msgs1(m), Note: fmt.Sprintf("C10 %s by holder-of{%s}", at.Name, holdingName(h))}
				r := e.Exec(tx)
				holds := h&(1<<uint(indexOf(roleNames, at.Role))) != 0
				rc.Cov.Assert("C10.authorisation-oracle")
				rc.Cov.Cell("C10_table", fmt.Sprintf("%s/%s/%v", at.Name, holdingName(h), map[bool]string{true: "ok", false: "fail"}[r.OK]))
				rc.Cov.Distinct(fmt.Sprintf("c10|%s|%d|%v", at.Name, h, r.OK))
				rc.Cov.Cell("C10_genesis_variants", c10GenesisVariants[variant]+"/"+map[bool]string{true: "holder", false: "non-holder"}[holds]+"/"+okWord(r.OK))
				if r.OK != holds && r.TxExp != DontCare && !(holds && r.TxExp == MustFail) {
					// also reported by the engine with the model's reason; this signature names the cell
					e.viol([]string{"C10"}, "authorisation-oracle", fmt.Sprintf("C10:%s:role=%s:holds=%v:ok=%v", at.Name, at.Role, holds, r.OK),
						fmt.Sprintf("%s submitted by an account holding {%s}: success=%v, expected %v", at.Name, holdingName(h), r.OK, holds), e.caseOf(&tx, ""))
				}
				if cell%97 == 0 {
					rc.Cov.Sample(map[string]interface{}{"type": at.Name, "submitter_holds": holdingName(h), "succeeded": r.OK, "tx": describeMsg(m)})
				}
			}
		}
	}
	rc.Cov.Extra["exhaustive"] = true
	// roles that genesis leaves blank have no holder at all: every privileged request of every account is refused,
	// whichever subset of the four roles is blank (the owner, when there is one, holds only the owner role)
	for blank := 1; blank < 16; blank++ {
		if blank%rc.NShards != rc.Shard {
			continue
		}
		e, err := StdEngine(rc, false, false, func(gs *ct.GenesisState, cfg *chain.Config) {
			if blank&1 != 0 {
				gs.Owner = ""
			}
			if blank&2 != 0 {
				gs.AttesterManager = ""
			}
			if blank&4 != 0 {
				gs.Pauser = ""
			}
			if blank&8 != 0 {
				gs.TokenController = ""
			}
		})
		if err != nil {
			rc.Cov.Inconclusive("c10 blank-role chain: " + err.Error())
			continue
		}
		for ti, at := range adminTypes {
			holder := map[string]string{"owner": e.M.Owner, "am": e.M.AM, "pauser": e.M.Pauser, "tc": e.M.TC, "pending": e.M.Pending}[at.Role]
			if holder != "" {
				continue
			}
			for fi, from := range []string{S, Acct(OwnerIx), Acct(AMIx), Nobody()} {
				tx := Tx{Msgs: msgs1(at.Make(e.M, from, ti+fi)), Note: fmt.Sprintf("C10 %s while the %s role is blank (blank mask %04b)", at.Name, at.Role, blank)}
				r := e.Exec(tx)
				rc.Cov.Assert("C10.blank-role-has-no-holder")
				rc.Cov.Cell("C10_blank_roles", fmt.Sprintf("%s/blank=%04b/%v", at.Name, blank, map[bool]string{true: "ok", false: "fail"}[r.OK]))
				if r.OK {
					e.viol([]string{"C10"}, "authorisation-oracle", fmt.Sprintf("C10:%s:role=%s:blank:ok", at.Name, at.Role),
						fmt.Sprintf("%s succeeded although the %s role has no holder", at.Name, at.Role), e.caseOf(&tx, ""))
				}
			}
		}
	}
	// requests whose argument equals what is already in force (a write that would change nothing) still need the role
	if rc.Shard == 2%rc.NShards {
		for flags := 0; flags < 4; flags++ {
			e, err := StdEngine(rc, false, false, func(gs *ct.GenesisState, cfg *chain.Config) {
				gs.SendingAndReceivingMessagesPaused.Paused = flags&1 != 0
				gs.BurningAndMintingPaused.Paused = flags&2 != 0
				gs.PerMessageBurnLimitList = []ct.PerMessageBurnLimit{{Denom: "uusdc", Amount: sdkInt(500)}}
			})
			if err != nil {
				continue
			}
			s := e.M
			noops := []func(f string) sdk.Msg{
				func(f string) sdk.Msg { return &ct.MsgUpdateOwner{From: f, NewOwner: s.Owner} },
				func(f string) sdk.Msg { return &ct.MsgUpdateAttesterManager{From: f, NewAttesterManager: s.AM} },
				func(f string) sdk.Msg { return &ct.MsgUpdatePauser{From: f, NewPauser: s.Pauser} },
				func(f string) sdk.Msg { return &ct.MsgUpdateTokenController{From: f, NewTokenController: s.TC} },
				func(f string) sdk.Msg { return &ct.MsgUpdateMaxMessageBodySize{From: f, MessageSize: s.MaxBody} },
				func(f string) sdk.Msg { return &ct.MsgUpdateSignatureThreshold{From: f, Amount: s.Threshold} },
				func(f string) sdk.Msg { return &ct.MsgPauseBurningAndMinting{From: f} },
				func(f string) sdk.Msg { return &ct.MsgUnpauseBurningAndMinting{From: f} },
				func(f string) sdk.Msg { return &ct.MsgPauseSendingAndReceivingMessages{From: f} },
				func(f string) sdk.Msg { return &ct.MsgUnpauseSendingAndReceivingMessages{From: f} },
				func(f string) sdk.Msg {
					return &ct.MsgSetMaxBurnAmountPerMessage{From: f, LocalToken: "uusdc", Amount: mkInt(big.NewInt(500))}
				},
				func(f string) sdk.Msg {
					return &ct.MsgAddRemoteTokenMessenger{From: f, DomainId: 0, Address: s.Messengers[0]}
				},
				func(f string) sdk.Msg {
					return &ct.MsgLinkTokenPair{From: f, RemoteDomain: 0, RemoteToken: Token(0), LocalToken: "uusdc"}
				},
				func(f string) sdk.Msg { return &ct.MsgEnableAttester{From: f, Attester: firstAttester(s)} },
				func(f string) sdk.Msg { return &ct.MsgRemoveRemoteTokenMessenger{From: f, DomainId: 4242} },
				func(f string) sdk.Msg {
					return &ct.MsgUnlinkTokenPair{From: f, RemoteDomain: 4242, RemoteToken: Token(0), LocalToken: "uusdc"}
				},
				func(f string) sdk.Msg { return &ct.MsgDisableAttester{From: f, Attester: AttesterPool[9].Spell(0)} },
			}
			for ni, mk := range noops {
				for fi, from := range []string{S, Acct(OtherIx), s.Owner, s.AM, s.Pauser, s.TC} {
					m := mk(from)
					r := e.Exec(Tx{Msgs: msgs1(m), Note: "C10 request that would change nothing"})
					rc.Cov.Assert("C10.no-op-requests-need-the-role")
					rc.Cov.Cell("C10_noop_requests", fmt.Sprintf("%s/submitter%d/%s", shapeMsg(m), fi, okWord(r.OK)))
					_ = ni
				}
			}
		}
	}
	// arguments that name an existing entry under another spelling (another hex spelling of an enabled attester's key, a
	// denom in another letter case, a 20-byte form of a padded token, a blank around it): whatever a handler makes of such
	// an argument, it makes it for the role's holder only - every other submitter is refused and changes nothing
	if rc.Shard == 3%rc.NShards {
		e, err := StdEngine(rc, false, false, func(gs *ct.GenesisState, cfg *chain.Config) {
			gs.PerMessageBurnLimitList = []ct.PerMessageBurnLimit{{Denom: "uusdc", Amount: sdkInt(500)}}
			gs.TokenPairList = append(gs.TokenPairList, ct.TokenPair{RemoteDomain: 9, RemoteToken: Token(5), LocalToken: "uusdc"})
		})
		if err == nil {
			s := e.M
			var aliases []string
			for _, id := range sortedStrings(s.Attesters) {
				if b, ok := ref.ParseAttesterString(id); ok {
					for _, k := range AttesterPool {
						if string(k.Pub) == string(b) {
							for st := 0; st < 4; st++ {
								if sp := k.Spell(st); sp != id {
									aliases = append(aliases, sp)
								}
							}
						}
					}
					bare := strings.TrimPrefix(strings.TrimPrefix(id, "0x"), "0X")
					aliases = append(aliases, "0x0"+bare, "00"+bare, " "+id, id+" ", "0x"+strings.ToUpper(bare[:64])+bare[64:])
				}
			}
			var reqs []func(f string) sdk.Msg
			for _, a := range aliases {
				a := a
				reqs = append(reqs, func(f string) sdk.Msg { return &ct.MsgDisableAttester{From: f, Attester: a} },
					func(f string) sdk.Msg { return &ct.MsgEnableAttester{From: f, Attester: a} })
			}
			for _, tok := range []string{"UUSDC", "uUsdc", " uusdc", "uusdc ", "Uusdc"} {
				tok := tok
				reqs = append(reqs,
					func(f string) sdk.Msg {
						return &ct.MsgSetMaxBurnAmountPerMessage{From: f, LocalToken: tok, Amount: mkInt(big.NewInt(7))}
					},
					func(f string) sdk.Msg {
						return &ct.MsgUnlinkTokenPair{From: f, RemoteDomain: 0, RemoteToken: Token(0), LocalToken: tok}
					},
					func(f string) sdk.Msg {
						return &ct.MsgLinkTokenPair{From: f, RemoteDomain: 0, RemoteToken: Token(0), LocalToken: tok}
					})
			}
			reqs = append(reqs,
				func(f string) sdk.Msg {
					return &ct.MsgUnlinkTokenPair{From: f, RemoteDomain: 9, RemoteToken: Token(5)[12:], LocalToken: "uusdc"}
				},
				func(f string) sdk.Msg {
					return &ct.MsgLinkTokenPair{From: f, RemoteDomain: 9, RemoteToken: Token(5)[12:], LocalToken: "uusdc"}
				},
				func(f string) sdk.Msg { return &ct.MsgUpdateOwner{From: f, NewOwner: strings.ToUpper(s.Owner)} },
				func(f string) sdk.Msg { return &ct.MsgUpdateAttesterManager{From: f, NewAttesterManager: strings.ToUpper(s.AM)} },
				func(f string) sdk.Msg { return &ct.MsgUpdatePauser{From: f, NewPauser: strings.ToUpper(s.Pauser)} },
				func(f string) sdk.Msg { return &ct.MsgUpdateTokenController{From: f, NewTokenController: strings.ToUpper(s.TC)} })
			roleOf := func(m sdk.Msg) string {
				switch m.(type) {
				case *ct.MsgDisableAttester, *ct.MsgEnableAttester:
					return s.AM
				case *ct.MsgSetMaxBurnAmountPerMessage, *ct.MsgUnlinkTokenPair, *ct.MsgLinkTokenPair:
					return s.TC
				}
				return s.Owner
			}
			for _, mk := range reqs {
				for fi, from := range []string{S, Acct(OtherIx), s.Owner, s.AM, s.Pauser, s.TC, Nobody()} {
					m := mk(from)
					if from == roleOf(m) {
						continue // what the holder's request does is judged by the model in the owning checks
					}
					tx := Tx{Msgs: msgs1(m), Note: "C10 request naming an existing entry under another spelling, by an account without the role"}
					r := e.Exec(tx)
					rc.Cov.Assert("C10.other-spellings-need-the-role")
					rc.Cov.Cell("C10_other_spellings", fmt.Sprintf("%s/submitter%d/%s", msgKind(m), fi, okWord(r.OK)))
					if r.OK {
						e.viol([]string{"C10"}, "authorisation-oracle", "C10:"+msgKind(m)+":other-spelling:non-holder:ok",
							msgKind(m)+" succeeded for an account that does not hold the role", e.caseOf(&tx, ""))
					}
				}
			}
		}
	}
	// many rotations of one role slot: after each, the new holder is served and the previous one refused
	for slot := 0; slot < 4; slot++ {
		if slot%rc.NShards != rc.Shard {
			continue
		}
		e, err := StdEngine(rc, false, false, nil)
		if err != nil {
			continue
		}
		for rot := 0; rot < rc.Pick(14, 40); rot++ {
			nw := Acct(4 + rot%3)
			var upd []sdk.Msg
			var probe func(from string) sdk.Msg
			var old string
			switch slot {
			case 0:
				old = e.M.Owner
				upd = []sdk.Msg{&ct.MsgUpdateOwner{From: old, NewOwner: nw}, &ct.MsgAcceptOwner{From: nw}}
				probe = func(from string) sdk.Msg {
					return &ct.MsgUpdateMaxMessageBodySize{From: from, MessageSize: uint64(8000 + rot)}
				}
			case 1:
				old = e.M.AM
				upd = []sdk.Msg{&ct.MsgUpdateAttesterManager{From: e.M.Owner, NewAttesterManager: nw}}
				probe = func(from string) sdk.Msg {
					return &ct.MsgUpdateSignatureThreshold{From: from, Amount: uint32(1 + rot%3)}
				}
			case 2:
				old = e.M.Pauser
				upd = []sdk.Msg{&ct.MsgUpdatePauser{From: e.M.Owner, NewPauser: nw}}
				probe = func(from string) sdk.Msg {
					if rot%2 == 0 {
						return &ct.MsgPauseBurningAndMinting{From: from}
					}
					return &ct.MsgUnpauseBurningAndMinting{From: from}
				}
			default:
				old = e.M.TC
				upd = []sdk.Msg{&ct.MsgUpdateTokenController{From: e.M.Owner, NewTokenController: nw}}
				probe = func(from string) sdk.Msg {
					return &ct.MsgSetMaxBurnAmountPerMessage{From: from, LocalToken: "uusdc", Amount: mkInt(big.NewInt(int64(100 + rot)))}
				}
			}
			for _, m := range upd {
				e.Exec(Tx{Msgs: msgs1(m), Note: fmt.Sprintf("C10 rotation %d of the %s slot", rot+1, roleNames[[]int{0, 2, 3, 4}[slot]])})
			}
			if old != nw {
				r1 := e.Exec(Tx{Msgs: msgs1(probe(old)), Note: "C10 previous holder after many rotations"})
				rc.Cov.Cell("C10_many_rotations", fmt.Sprintf("slot%d/previous-holder/%s", slot, okWord(r1.OK)))
			}
			r2 := e.Exec(Tx{Msgs: msgs1(probe(nw)), Note: "C10 new holder after many rotations"})
			rc.Cov.Cell("C10_many_rotations", fmt.Sprintf("slot%d/new-holder/%s", slot, okWord(r2.OK)))
		}
	}
	// keyless module accounts (authority, gov, the module itself, ...) and remarkable addresses are ordinary outsiders
	if rc.Shard == 1%rc.NShards {
		if e, err := StdEngine(rc, false, false, nil); err == nil {
			e.Exec(Tx{Msgs: msgs1(&ct.MsgUpdateOwner{From: e.M.Owner, NewOwner: Acct(OtherIx)}), Note: "C10 special submitters: a pending owner exists"})
			for ti, at := range adminTypes {
				for si, sp := range SpecialAccounts() {
					tx := Tx{Msgs: msgs1(at.Make(e.M, sp, ti+si)), Note: "C10 " + at.Name + " by a module account / remarkable address"}
					r := e.Exec(tx)
					rc.Cov.Assert("C10.special-submitters-unauthorised")
					rc.Cov.Cell("C10_special_submitters", fmt.Sprintf("%s/%v", at.Name, map[bool]string{true: "ok", false: "fail"}[r.OK]))
					if r.OK {
						e.viol([]string{"C10"}, "authorisation-oracle", fmt.Sprintf("C10:%s:special-submitter:ok", at.Name),
							fmt.Sprintf("%s succeeded for submitter %s, which holds no role", at.Name, sp), e.caseOf(&tx, ""))
					}
				}
			}
		}
	}
	// neighbours of the role holders: addresses that differ from a holder's in one bit, in two bytes changed alike, in a
	// compensating pair, in two bytes exchanged, reversed, complemented - none of them holds the role
	if rc.Shard == 2%rc.NShards {
		if e, err := StdEngine(rc, false, false, nil); err == nil {
			e.Exec(Tx{Msgs: msgs1(&ct.MsgUpdateOwner{From: e.M.Owner, NewOwner: Acct(OtherIx)}), Note: "C10 near holders: a pending owner exists"})
			for ti, at := range adminTypes {
				holder := map[string]string{"owner": e.M.Owner, "am": e.M.AM, "pauser": e.M.Pauser, "tc": e.M.TC, "pending": e.M.Pending}[at.Role]
				if !validAddr(holder) {
					continue
				}
				for k := 0; k < rc.Pick(60, 480); k++ {
					from := Bech(nearAddr(addrBytes(holder), k+ti*5))
					tx := Tx{Msgs: msgs1(at.Make(e.M, from, ti+k)), Note: "C10 " + at.Name + " by a neighbour of the role holder"}
					r := e.Exec(tx)
					rc.Cov.Assert("C10.near-holders-unauthorised")
					rc.Cov.Cell("C10_near_holders", fmt.Sprintf("%s/%v", at.Name, map[bool]string{true: "ok", false: "fail"}[r.OK]))
					if r.OK {
						e.viol([]string{"C10"}, "authorisation-oracle", fmt.Sprintf("C10:%s:near-holder:ok", at.Name),
							fmt.Sprintf("%s succeeded for submitter %s, a neighbour of the holder %s", at.Name, from, holder), e.caseOf(&tx, ""))
					}
				}
			}
		}
	}
	// previous holder immediately after each kind of role update; and an upper-case spelled outsider
	if rc.Shard == 0 {
		for ui := 0; ui < 5; ui++ {
			e, err := StdEngine(rc, false, false, nil)
			if err != nil {
				continue
			}
			old := map[int]string{0: e.M.Owner, 1: e.M.Owner, 2: e.M.AM, 3: e.M.Pauser, 4: e.M.TC}[ui]
			nw := Acct(OtherIx)
			switch ui {
			case 0, 1:
				e.Exec(Tx{Msgs: msgs1(&ct.MsgUpdateOwner{From: e.M.Owner, NewOwner: nw})})
				e.Exec(Tx{Msgs: msgs1(&ct.MsgAcceptOwner{From: nw})})
			case 2:
				e.Exec(Tx{Msgs: msgs1(&ct.MsgUpdateAttesterManager{From: e.M.Owner, NewAttesterManager: nw})})
			case 3:
				e.Exec(Tx{Msgs: msgs1(&ct.MsgUpdatePauser{From: e.M.Owner, NewPauser: nw})})
			case 4:
				e.Exec(Tx{Msgs: msgs1(&ct.MsgUpdateTokenController{From: e.M.Owner, NewTokenController: nw})})
			}
			role := []string{"owner", "owner", "am", "pauser", "tc"}[ui]
			for ti, at := range adminTypes {
				if at.Role != role {
					continue
				}
				for _, from := range []string{old, strings.ToUpper(Acct(RichIx)), strings.ToUpper(nw), nw} {
					r := e.Exec(Tx{Msgs: msgs1(at.Make(e.M, from, ti)), Note: "C10 previous holder / spelling"})
					who := "new-holder"
					if from == old {
						who = "previous-holder"
					} else if from != nw {
						who = "upper-case"
					}
					rc.Cov.Cell("C10_previous_holder", fmt.Sprintf("%s/%s/%s/%v", role, at.Name, who, r.OK))
				}
			}
		}
		// accounts whose address bytes merely resemble the holder's (zero-extended to 32 bytes, prefix-extended,
		// truncated) are other accounts
		if e, err := StdEngine(rc, false, false, nil); err == nil {
			for ti, at := range adminTypes {
				if at.Role == "pending" {
					e.Exec(Tx{Msgs: msgs1(&ct.MsgUpdateOwner{From: e.M.Owner, NewOwner: Acct(OtherIx)})})
				}
				holder := map[string]string{"owner": e.M.Owner, "am": e.M.AM, "pauser": e.M.Pauser, "tc": e.M.TC, "pending": e.M.Pending}[at.Role]
				hb := addrBytes(holder)
				for li, look := range [][]byte{append(append([]byte{}, hb...), make([]byte, 12)...), append(append([]byte{}, hb...), 1, 2, 3), hb[:19], append(make([]byte, 12), hb...)} {
					r := e.Exec(Tx{Msgs: msgs1(at.Make(e.M, Bech(look), ti)), Note: "C10 look-alike submitter"})
					rc.Cov.Cell("C10_lookalike", fmt.Sprintf("%s/shape%d/%v", at.Name, li, r.OK))
				}
			}
		}
		// a role update that is rolled back (a later message of the same transaction fails) must change nothing:
		// the would-be holder is still refused, the real holder still served
		for ui := 0; ui < 4; ui++ {
			e, err := StdEngine(rc, false, false, nil)
			if err != nil {
				continue
			}
			nw := Acct(OtherIx)
			role := []string{"owner", "am", "pauser", "tc"}[ui]
			var upd []sdk.Msg
			switch ui {
			case 0:
				upd = []sdk.Msg{&ct.MsgUpdateOwner{From: e.M.Owner, NewOwner: nw}, &ct.MsgAcceptOwner{From: nw}}
			case 1:
				upd = []sdk.Msg{&ct.MsgUpdateAttesterManager{From: e.M.Owner, NewAttesterManager: nw}}
			case 2:
				upd = []sdk.Msg{&ct.MsgUpdatePauser{From: e.M.Owner, NewPauser: nw}}
			case 3:
				upd = []sdk.Msg{&ct.MsgUpdateTokenController{From: e.M.Owner, NewTokenController: nw}}
			}
			upd = append(upd, &ct.MsgRemoveRemoteTokenMessenger{From: Nobody(), DomainId: 0})
			e.Exec(Tx{Msgs: upd, Note: "C10 rolled-back role update"})
			for ti, at := range adminTypes {
				if at.Role != role {
					continue
				}
				old := map[string]string{"owner": e.M.Owner, "am": e.M.AM, "pauser": e.M.Pauser, "tc": e.M.TC}[role]
				r1 := e.Exec(Tx{Msgs: msgs1(at.Make(e.M, nw, ti)), Note: "C10 would-be holder after a rolled-back update"})
				r2 := e.Exec(Tx{Msgs: msgs1(at.Make(e.M, old, ti)), Note: "C10 real holder after a rolled-back update"})
				rc.Cov.Cell("C10_rolled_back_update", fmt.Sprintf("%s/%s/would-be=%v/real=%v", role, at.Name, r1.OK, r2.OK))
			}
		}
		// signer annotation: the registry's signers of every message type are exactly [From]
		c, err := chain.New(chain.Config{Genesis: StdGenesis()})
		if err == nil {
			for _, m := range allMsgTypes {
				mm := proto.Clone(m)
				setFrom(mm, Acct(3))
				signers, _, err := c.Cdc.GetMsgV1Signers(mm)
				rc.Cov.Assert("C10.signer-annotation")
				if err != nil || len(signers) != 1 || Bech(signers[0]) != Acct(3) {
					rc.Report(Violation{Props: []string{"C10"}, Monitor: "signer-annotation", Sig: "signer:" + proto.MessageName(m),
						Detail: fmt.Sprintf("%s: registry signers = %x (err %v), expected exactly [From]", proto.MessageName(m), signers, err)})
				}
			}
		}
	}
	ProbeHistory(rc, rc.Pick(240, 900), false)
	for h := 0; h < rc.Pick(1, 3); h++ {
		e, err := NewHistoryEngine(rc, GenOpts{}, false, false)
		if err == nil {
			RunHistory(e, NewGen(e), rc.Pick(300, 1500), 0)
		}
	}
	_ = protov2.Marshal
	_ = ref.Pad32
}

func indexOf(l []string, s string) int {
	for i, x := range l {
		if x == s {
			return i
		}
	}
	return -1
}

func setFrom(m proto.Message, from string) {
	switch x := m.(type) {
	case interface{ GetFrom() string }:
		_ = x
	}
	// all 25 messages have `From` as field 1
	bz := append([]byte{0x0a, byte(len(from))}, from...)
	_ = proto.Unmarshal(bz, m)
}

// ---------------------------------------------------------------- C11 closure

type roleState struct {
	owner, pending, am, pauser, tc int // account indices; pending -1 = none
}

func (s roleState) key() string {
	return fmt.Sprintf("%d/%d/%d/%d/%d", s.owner, s.pending, s.am, s.pauser, s.tc)
}

func roleStateOf(m *State) roleState {
	p := -1
	if m.HasPending {
		p = AcctIndex(m.Pending)
	}
	return roleState{AcctIndex(m.Owner), p, AcctIndex(m.AM), AcctIndex(m.Pauser), AcctIndex(m.TC)}
}

func c11Chain(rc *RunCtx, s roleState) (*Engine, error) {
	e, err := StdEngine(rc, false, false, func(gs *ct.GenesisState, cfg *chain.Config) {
		gs.Owner, gs.AttesterManager, gs.Pauser, gs.TokenController = Acct(s.owner), Acct(s.am), Acct(s.pauser), Acct(s.tc)
	})
	if err != nil {
		return nil, err
	}
	e.LightQueries = true
	if s.pending >= 0 {
		if rep := e.Exec(Tx{Msgs: msgs1(&ct.MsgUpdateOwner{From: Acct(s.owner), NewOwner: Acct(s.pending)}), Note: "c11 prepare"}); !rep.OK {
			return nil, fmt.Errorf("prepare pending failed")
		}
	}
	return e, nil
}

var c11BadAddrs = []string{"", "notbech32", "cosmos1qqqqqqqqqqqqqqqqqqqqqqqqqqqqqqqqnrql8a", "é", "noble1"}

func runC11(rc *RunCtx) {
	U := rc.Pick(3, 4)
	states := 0
	transitions := 0
	si := 0
	for o := 0; o < U; o++ {
		for p := -1; p < U; p++ {
			for a := 0; a < U; a++ {
				for pa := 0; pa < U; pa++ {
					for t := 0; t < U; t++ {
						si++
						if si%rc.NShards != rc.Shard {
							continue
						}
						st := roleState{o, p, a, pa, t}
						states++
						rc.Cov.Cell("C11_states", "visited")
						var e *Engine
						get := func() *Engine {
							if e == nil || roleStateOf(e.M) != st {
								ne, err := c11Chain(rc, st)
								if err != nil {
									rc.Cov.Inconclusive("c11 chain: " + err.Error())
									return nil
								}
								e = ne
							}
							return e
						}
						step := func(m sdk.Msg, kind string) {
							en := get()
							if en == nil {
								return
							}
							r := en.Exec(Tx{Msgs: msgs1(m), Note: "C11 closure from " + st.key()})
							transitions++
							rc.Cov.Assert("C11.lifecycle-automaton")
							rc.Cov.Cell("C11_transitions", kind+"/"+map[bool]string{true: "ok", false: "fail"}[r.OK])
							rc.Cov.Distinct(fmt.Sprintf("c11|%s|%s|%v", st.key(), shapeMsg(m), r.OK))
						}
						for s := 0; s < U; s++ {
							step(&ct.MsgAcceptOwner{From: Acct(s)}, "AcceptOwner")
							for n := 0; n < U; n++ {
								step(&ct.MsgUpdateOwner{From: Acct(s), NewOwner: Acct(n)}, "UpdateOwner")
								step(&ct.MsgUpdateAttesterManager{From: Acct(s), NewAttesterManager: Acct(n)}, "UpdateAttesterManager")
								step(&ct.MsgUpdatePauser{From: Acct(s), NewPauser: Acct(n)}, "UpdatePauser")
								step(&ct.MsgUpdateTokenController{From: Acct(s), NewTokenController: Acct(n)}, "UpdateTokenController")
							}
						}
						// one representative of each other transaction type (every 4th state in quick)
						if rc.Thorough() || si%4 == 0 {
							en := get()
							if en != nil {
								g := NewGen(en)
								pg := &ProdGen{E: en, G: g}
								for _, at := range adminTypes[5:] {
									role := map[string]string{"owner": en.M.Owner, "am": en.M.AM, "pauser": en.M.Pauser, "tc": en.M.TC}[at.Role]
									step(at.Make(get().M, role, si), "other:"+at.Name)
								}
								step(pg.ValidSend(false), "other:SendMessage")
								step(pg.ValidSend(true), "other:SendMessageWithCaller")
								step(pg.ValidDeposit(false, 0), "other:DepositForBurn")
								step(pg.ValidDeposit(true, 0), "other:DepositForBurnWithCaller")
								step(g.Inbound(false), "other:ReceiveMessage")
								if get() == en {
									if m := pg.Replacement("own-message"); m != nil {
										step(m, "other:ReplaceMessage")
									}
									if m := pg.Replacement("own-deposit"); m != nil {
										step(m, "other:ReplaceDepositForBurn")
									}
								}
							}
						}
						// malformed new-holder strings (owner submits)
						if si%9 == 0 {
							for bi, bad := range append(c11BadAddrs, strings.ToUpper(Acct(1)), Bech(Structured32(3)), Bech([]byte{}), Bech(make([]byte, 256)), Bech(make([]byte, 255)), " "+Acct(1), Acct(1)+" ") {
								step(&ct.MsgUpdateAttesterManager{From: Acct(o), NewAttesterManager: bad}, fmt.Sprintf("bad-address-%d", bi))
								step(&ct.MsgUpdatePauser{From: Acct(o), NewPauser: bad}, fmt.Sprintf("bad-address-%d", bi))
								step(&ct.MsgUpdateTokenController{From: Acct(o), NewTokenController: bad}, fmt.Sprintf("bad-address-%d", bi))
								step(&ct.MsgUpdateOwner{From: Acct(o), NewOwner: bad}, fmt.Sprintf("bad-address-%d", bi))
							}
						}
					}
				}
			}
		}
	}
	rc.Cov.Extra["states"] = float64(states)
	rc.Cov.Extra["transitions"] = float64(transitions)
	rc.Cov.Extra["exhaustive"] = true
	rc.Cov.Sample(map[string]interface{}{"universe_accounts": U, "state_shape": "(owner, pending|none, attester manager, pauser, token controller)",
		"actions_per_state": "every role transaction x every submitter x every new holder, accept by every account, one representative of the other 20 types"})
	// a nominee named in another spelling of its address (bech32 also accepts the all-upper-case form): the slot holds
	// what the owner wrote; accepting, re-accepting and acting afterwards are tried in both spellings
	if rc.Shard == 3%rc.NShards {
		for v := 0; v < 4; v++ {
			e, err := StdEngine(rc, false, false, nil)
			if err != nil {
				continue
			}
			e.LightQueries = true
			x := Acct(OtherIx)
			up := strings.ToUpper(x)
			named, first, second := up, x, up
			if v%2 == 1 {
				named, first, second = x, up, x
			}
			seq := []sdk.Msg{
				&ct.MsgUpdateOwner{From: e.M.Owner, NewOwner: named},
				&ct.MsgAcceptOwner{From: first},
				&ct.MsgAcceptOwner{From: first},
				&ct.MsgAcceptOwner{From: second},
				&ct.MsgAcceptOwner{From: second},
				&ct.MsgAcceptOwner{From: first},
				&ct.MsgUpdatePauser{From: first, NewPauser: Acct(UserIx)},
				&ct.MsgUpdatePauser{From: second, NewPauser: Acct(UserIx)},
			}
			if v >= 2 { // the same with a role instead of the ownership
				seq = []sdk.Msg{
					&ct.MsgUpdatePauser{From: e.M.Owner, NewPauser: named},
					&ct.MsgPauseBurningAndMinting{From: first},
					&ct.MsgUnpauseBurningAndMinting{From: second},
					&ct.MsgPauseBurningAndMinting{From: second},
					&ct.MsgUpdateAttesterManager{From: e.M.Owner, NewAttesterManager: named},
					&ct.MsgUpdateSignatureThreshold{From: first, Amount: 1},
					&ct.MsgUpdateSignatureThreshold{From: second, Amount: 2},
				}
			}
			for _, m := range seq {
				r := e.Exec(Tx{Msgs: msgs1(m), Note: "C11 nominee / holder named in another spelling of its address"})
				rc.Cov.Cell("C11_transitions", fmt.Sprintf("other-spelling/v%d/%s/%s", v, shapeMsg(m), okWord(r.OK)))
			}
			if _, _, _, err := e.ExportImport(); err != nil {
				rc.Cov.Inconclusive("export/import: " + err.Error())
			}
		}
	}
	// role transactions submitted by keyless module accounts and remarkable addresses, with and without a pending owner
	if rc.Shard == 2%rc.NShards {
		for pend := 0; pend < 2; pend++ {
			e, err := StdEngine(rc, false, false, nil)
			if err != nil {
				continue
			}
			e.LightQueries = true
			if pend == 1 {
				e.Exec(Tx{Msgs: msgs1(&ct.MsgUpdateOwner{From: e.M.Owner, NewOwner: Acct(OtherIx)}), Note: "C11 special submitters: pending owner"})
			}
			for si, sp := range SpecialAccounts() {
				nw := Acct(si % NAccounts)
				for _, m := range []sdk.Msg{&ct.MsgUpdateOwner{From: sp, NewOwner: nw}, &ct.MsgAcceptOwner{From: sp}, &ct.MsgUpdateAttesterManager{From: sp, NewAttesterManager: nw},
					&ct.MsgUpdatePauser{From: sp, NewPauser: nw}, &ct.MsgUpdateTokenController{From: sp, NewTokenController: nw}, &ct.MsgUpdateOwner{From: sp, NewOwner: sp}} {
					r := e.Exec(Tx{Msgs: msgs1(m), Note: "C11 role transaction by a module account / remarkable address"})
					rc.Cov.Cell("C11_transitions", "special-submitter:"+shapeMsg(m)+"/"+map[bool]string{true: "ok", false: "fail"}[r.OK])
				}
			}
		}
	}
	// lifecycle starts in which genesis leaves some roles without a holder: they stay blank (queries, export) until the
	// owner - if there is one - assigns them; the same closure of role transactions is applied from each such start
	for blank := 1; blank < 16; blank++ {
		if blank%rc.NShards != rc.Shard {
			continue
		}
		e, err := StdEngine(rc, false, false, func(gs *ct.GenesisState, cfg *chain.Config) {
			gs.Owner, gs.AttesterManager, gs.Pauser, gs.TokenController = Acct(0), Acct(1), Acct(2), Acct(1)
			if blank&1 != 0 {
				gs.Owner = ""
			}
			if blank&2 != 0 {
				gs.AttesterManager = ""
			}
			if blank&4 != 0 {
				gs.Pauser = ""
			}
			if blank&8 != 0 {
				gs.TokenController = ""
			}
		})
		if err != nil {
			rc.Cov.Inconclusive("c11 blank-role chain: " + err.Error())
			continue
		}
		e.LightQueries = true
		rc.Cov.Cell("C11_blank_starts", fmt.Sprintf("%04b", blank))
		step := func(m sdk.Msg, kind string) {
			r := e.Exec(Tx{Msgs: msgs1(m), Note: fmt.Sprintf("C11 closure from a start with blank roles (mask %04b)", blank)})
			rc.Cov.Cell("C11_transitions", "blank-start:"+kind+"/"+map[bool]string{true: "ok", false: "fail"}[r.OK])
		}
		// refused requests first, so that the genesis roles are compared with the queries and the export untouched
		step(&ct.MsgAcceptOwner{From: Acct(2)}, "AcceptOwner")
		if _, _, _, err := e.ExportImport(); err != nil {
			rc.Cov.Inconclusive("export/import: " + err.Error())
		}
		for sb := 0; sb < 3; sb++ {
			step(&ct.MsgAcceptOwner{From: Acct(sb)}, "AcceptOwner")
			for n := 0; n < 3; n++ {
				step(&ct.MsgUpdateAttesterManager{From: Acct(sb), NewAttesterManager: Acct(n)}, "UpdateAttesterManager")
				step(&ct.MsgUpdatePauser{From: Acct(sb), NewPauser: Acct(n)}, "UpdatePauser")
				step(&ct.MsgUpdateTokenController{From: Acct(sb), NewTokenController: Acct(n)}, "UpdateTokenController")
				step(&ct.MsgUpdateOwner{From: Acct(sb), NewOwner: Acct(n)}, "UpdateOwner")
			}
		}
	}
	ProbeHistory(rc, rc.Pick(240, 900), false)
	// multi-step random walks (supersession, replayed accept)
	for w := 0; w < rc.Pick(1, 4); w++ {
		e, err := StdEngine(rc, false, false, nil)
		if err != nil {
			continue
		}
		r := rc.Rand
		for i := 0; i < rc.Pick(300, 2000); i++ {
			var m sdk.Msg
			switch r.Intn(6) {
			case 0, 1:
				m = &ct.MsgUpdateOwner{From: Acct(r.Intn(3)), NewOwner: Acct(r.Intn(3))}
			case 2, 3:
				m = &ct.MsgAcceptOwner{From: Acct(r.Intn(3))}
			case 4:
				m = &ct.MsgUpdatePauser{From: Acct(r.Intn(3)), NewPauser: Acct(r.Intn(3))}
			default:
				m = &ct.MsgUpdateAttesterManager{From: Acct(r.Intn(3)), NewAttesterManager: Acct(r.Intn(3))}
			}
			e.Exec(Tx{Msgs: msgs1(m), Note: "C11 walk"})
		}
	}
}

// ---------------------------------------------------------------- C12 matrix

var c12Flows = []string{"send", "send-with-caller", "deposit", "deposit-with-caller", "replace", "replace-deposit", "receive-other", "receive-mint", "receive-other-long", "send-long", "receive-near-module", "send-to-messenger", "send-with-caller-to-messenger", "replace-to-messenger",
	"replace-deposit-same-recipient", "replace-deposit-unchanged", "replace-unchanged",
	"receive-other-by-pauser-as-caller", "receive-mint-by-pauser-as-caller", "send-by-pauser", "receive-other-by-owner-as-caller", "receive-mint-by-owner-as-caller", "send-by-owner",
	"receive-other-by-am-as-caller", "receive-mint-by-am-as-caller", "send-by-am", "receive-other-by-tc-as-caller", "receive-mint-by-tc-as-caller", "send-by-tc"}

// attesterIdentifierStructure: identifiers of which one is a string prefix of another, continued by '/', by a character
// that sorts below '/' ('-', '!', '.', ' ') or above it ('0', 'z'). Each is an entry of its own: a disable naming a
// string that is not enabled is refused and removes nothing; a disable naming an enabled one removes exactly that one,
// whatever order the entries were enabled in. (The engine's outcome oracle and state tap judge every step.)
func attesterIdentifierStructure(rc *RunCtx, cell string) {
	stems := []string{"1234", "0xab", AttesterPool[8].Spell(0)}
	tails := []string{"/56", "/", "-1", "!", ".", " 1", "0", "z", "//", "/0x"}
	for order := 0; order < 3; order++ {
		e, err := StdEngine(rc, false, false, func(gs *ct.GenesisState, cfg *chain.Config) {
			gs.SignatureThreshold = &ct.SignatureThreshold{Amount: 1}
		})
		if err != nil {
			rc.Cov.Inconclusive("identifier structure: " + err.Error())
			return
		}
		e.LightQueries = false
		am := e.M.AM
		step := func(m sdk.Msg, kind string) {
			r := e.Exec(Tx{Msgs: msgs1(m), Note: "attester identifier structure: " + kind})
			rc.Cov.Cell(cell, kind+"/"+okWord(r.OK))
		}
		for _, stem := range stems {
			var ids []string
			for _, t := range tails {
				ids = append(ids, stem+t)
			}
			switch order {
			case 1: // the stem first
				ids = append([]string{stem}, ids...)
			case 2: // the stem last, continuations in reverse
				for l, r := 0, len(ids)-1; l < r; l, r = l+1, r-1 {
					ids[l], ids[r] = ids[r], ids[l]
				}
				ids = append(ids, stem)
			}
			for _, id := range ids {
				step(&ct.MsgEnableAttester{From: am, Attester: id}, "enable")
			}
			if order == 0 {
				step(&ct.MsgDisableAttester{From: am, Attester: stem}, "disable-a-prefix-that-is-not-enabled")
			}
			step(&ct.MsgDisableAttester{From: am, Attester: stem + "/5"}, "disable-an-unknown-continuation")
			step(&ct.MsgDisableAttester{From: am, Attester: stem + "-"}, "disable-an-unknown-continuation")
			e.FullQueryCheck(nil, []uint64{1, 4, 100})
			for i, id := range ids {
				if i%2 == order%2 {
					step(&ct.MsgDisableAttester{From: am, Attester: id}, "disable-an-enabled-entry")
				}
			}
			if order != 0 {
				step(&ct.MsgDisableAttester{From: am, Attester: stem}, "disable-the-stem-again")
			}
			e.FullQueryCheck(nil, []uint64{1, 4, 100})
		}
	}
}

// adminAvailable: an administrative request that the model expects to succeed must succeed whatever the flags are.
func adminAvailable(e *Engine, tx *Tx, r *Report, sr, bm bool) {
	e.Rc.Cov.Assert("C12.admin-available-while-paused")
	e.Rc.Cov.Cell("C12_admin_args", fmt.Sprintf("sr=%v,bm=%v/%s/%s", sr, bm, kindsOf(r), okWord(r.OK)))
	if !r.OK && r.TxExp == MustSucceed {
		e.viol([]string{"C12"}, "pause-matrix", fmt.Sprintf("C12:admin-unavailable:%s:sr=%v:bm=%v", kindsOf(r), sr, bm),
			fmt.Sprintf("administrative request refused with flags sr=%v bm=%v although it is valid: %s", sr, bm, trunc(r.Res.Log, 200)), e.caseOf(tx, ""))
	}
}

func runC12(rc *RunCtx) {
	defer ProbeHistory(rc, rc.Pick(200, 800), false)
	// the pauser's four transactions do not depend on the attester configuration: one key under two spellings with
	// threshold 2, a single attester, a threshold above the set, no attesters at all
	for v := 0; v < 7; v++ {
		if v%rc.NShards != rc.Shard {
			continue
		}
		e, err := StdEngine(rc, false, false, func(gs *ct.GenesisState, cfg *chain.Config) {
			switch v {
			case 4: // the pauser is recorded in the all-upper-case spelling of its address (genesis)
				gs.Pauser = strings.ToUpper(gs.Pauser)
			case 5: // the pauser also holds the owner and the attester-manager role
				gs.Pauser, gs.AttesterManager = gs.Owner, gs.Owner
			case 0:
				gs.AttesterList = []ct.Attester{{Attester: AttesterPool[0].Spell(0)}, {Attester: AttesterPool[0].Spell(1)}}
				gs.SignatureThreshold = &ct.SignatureThreshold{Amount: 2}
			case 1:
				gs.AttesterList = []ct.Attester{{Attester: AttesterPool[0].Spell(2)}}
				gs.SignatureThreshold = &ct.SignatureThreshold{Amount: 1}
			case 2:
				gs.AttesterList = []ct.Attester{{Attester: AttesterPool[0].Spell(2)}, {Attester: AttesterPool[1].Spell(3)}}
				gs.SignatureThreshold = &ct.SignatureThreshold{Amount: 5}
			case 3:
				gs.AttesterList = nil
				gs.SignatureThreshold = nil
			}
		})
		if err != nil {
			rc.Cov.Inconclusive("c12 attester-config chain: " + err.Error())
			continue
		}
		if v == 6 { // ... or appointed in that spelling by the owner while a flag is set
			e.Exec(Tx{Msgs: msgs1(&ct.MsgPauseBurningAndMinting{From: e.M.Pauser}), Note: "C12 pause before the pauser is replaced"})
			e.Exec(Tx{Msgs: msgs1(&ct.MsgUpdatePauser{From: e.M.Owner, NewPauser: strings.ToUpper(Acct(OtherIx))}), Note: "C12 pauser appointed in the upper-case spelling"})
		}
		for rep := 0; rep < 2; rep++ {
			for _, m := range []sdk.Msg{&ct.MsgPauseSendingAndReceivingMessages{From: e.M.Pauser}, &ct.MsgUnpauseSendingAndReceivingMessages{From: e.M.Pauser},
				&ct.MsgPauseBurningAndMinting{From: e.M.Pauser}, &ct.MsgUnpauseBurningAndMinting{From: e.M.Pauser},
				&ct.MsgSendMessage{From: Acct(UserIx), DestinationDomain: 0, Recipient: Structured32(3), MessageBody: []byte("after unpause")}} {
				r := e.Exec(Tx{Msgs: msgs1(m), Note: fmt.Sprintf("C12 pause transactions under attester configuration %d", v)})
				rc.Cov.Cell("C12_attester_configs", fmt.Sprintf("config%d/%s/%s", v, shapeMsg(m), okWord(r.OK)))
			}
		}
	}
	nonce := uint64(50000)
	for round := 0; round < rc.Pick(2, 8); round++ {
		if round%rc.NShards != rc.Shard {
			continue
		}
		e, err := StdEngine(rc, round%2 == 1, false, nil)
		if err != nil {
			rc.Cov.Inconclusive(err.Error())
			continue
		}
		g := NewGen(e)
		pg := &ProdGen{E: e, G: g}
		// seed originals while unpaused
		e.Exec(Tx{Msgs: msgs1(pg.ValidSend(false))})
		e.Exec(Tx{Msgs: msgs1(pg.ValidDeposit(false, 0))})
		e.Exec(Tx{Msgs: msgs1(pg.ValidSend(true))})
		e.Exec(Tx{Msgs: msgs1(pg.ValidDeposit(true, 0))})
		e.Exec(Tx{Msgs: msgs1(&ct.MsgSendMessage{From: Acct(UserIx), DestinationDomain: 1, Recipient: e.M.Messengers[1], MessageBody: []byte("seed for replace-to-messenger")})})
		setFlags := func(sr, bm bool) {
			if e.M.PausedSR != sr {
				if sr {
					e.Exec(Tx{Msgs: msgs1(&ct.MsgPauseSendingAndReceivingMessages{From: e.M.Pauser})})
				} else {
					e.Exec(Tx{Msgs: msgs1(&ct.MsgUnpauseSendingAndReceivingMessages{From: e.M.Pauser})})
				}
			}
			if e.M.PausedBM != bm {
				if bm {
					e.Exec(Tx{Msgs: msgs1(&ct.MsgPauseBurningAndMinting{From: e.M.Pauser})})
				} else {
					e.Exec(Tx{Msgs: msgs1(&ct.MsgUnpauseBurningAndMinting{From: e.M.Pauser})})
				}
			}
		}
		flow := func(name, phase string) {
			var m sdk.Msg
			switch name {
			case "send":
				m = pg.ValidSend(false)
			case "send-with-caller":
				m = pg.ValidSend(true)
			case "deposit":
				m = pg.ValidDeposit(false, 0)
			case "deposit-with-caller":
				m = pg.ValidDeposit(true, 0)
			case "replace":
				m = pg.Replacement("own-message")
			case "replace-deposit":
				m = pg.Replacement("own-deposit")
			case "replace-deposit-same-recipient":
				m = pg.Replacement("own-deposit-same-recipient")
			case "replace-deposit-unchanged":
				m = pg.Replacement("own-deposit-unchanged")
			case "replace-unchanged":
				m = pg.Replacement("own-message-unchanged")
			case "receive-other":
				nonce++
				in := &InMsg{Version: 0, Src: 1, Dst: 4, Nonce: nonce, Sender: Structured32(1), Recipient: Structured32(2), Caller: make([]byte, 32), Body: []byte("hi")}
				raw := in.Bytes()
				m = &ct.MsgReceiveMessage{From: Acct(UserIx), Message: raw, Attestation: e.Attest(raw, 0)}
			case "send-to-messenger":
				m = &ct.MsgSendMessage{From: Acct(UserIx), DestinationDomain: 1, Recipient: e.M.Messengers[1], MessageBody: []byte("to the messenger")}
			case "send-with-caller-to-messenger":
				m = &ct.MsgSendMessageWithCaller{From: Acct(UserIx), DestinationDomain: 2, Recipient: e.M.Messengers[2], MessageBody: []byte("x"), DestinationCaller: Structured32(5)}
			case "replace-to-messenger":
				for _, n := range sortedNonces(e.M.Emitted) {
					c := e.M.Emitted[n]
					if !c.ByModule {
						if d, err := ref.DecodeMessage(c.Original); err == nil && bytes.Equal(d.Recipient, e.M.Messengers[d.DstDomain]) {
							m = &ct.MsgReplaceMessage{From: Bech(c.Sender[12:32]), OriginalMessage: c.Original, OriginalAttestation: e.Attest(c.Original, 0), NewMessageBody: []byte("again"), NewDestinationCaller: make([]byte, 32)}
						}
					}
				}
				if m == nil {
					return
				}
			case "receive-near-module":
				nonce++
				in := StdInbound(nonce, 1, big.NewInt(9))
				in.Recipient = NearModuleRecipient(byte(nonce))
				raw := in.Bytes()
				m = &ct.MsgReceiveMessage{From: Acct(UserIx), Message: raw, Attestation: e.Attest(raw, 0)}
			case "receive-other-long":
				nonce++
				in := &InMsg{Version: 0, Src: 1, Dst: 4, Nonce: nonce, Sender: Structured32(1), Recipient: Structured32(2), Caller: make([]byte, 32), Body: structured(7000, 3)}
				raw := in.Bytes()
				m = &ct.MsgReceiveMessage{From: Acct(UserIx), Message: raw, Attestation: e.Attest(raw, 2)}
			case "send-long":
				m = &ct.MsgSendMessage{From: Acct(UserIx), DestinationDomain: 1, Recipient: Structured32(8), MessageBody: structured(7999, 1)}
			case "receive-mint":
				nonce++
				raw := StdInbound(nonce, 1, big.NewInt(7)).Bytes()
				m = &ct.MsgReceiveMessage{From: Acct(UserIx), Message: raw, Attestation: e.Attest(raw, 1)}
			default:
				// the same flows submitted by a role holder, relaying a message that names that holder as its destination caller
				for role, holder := range map[string]string{"pauser": e.M.Pauser, "owner": e.M.Owner, "am": e.M.AM, "tc": e.M.TC} {
					if !strings.Contains(name, "-by-"+role) {
						continue
					}
					if !validAddr(holder) || len(addrBytes(holder)) > 32 {
						return
					}
					switch {
					case strings.HasPrefix(name, "send-by-"):
						m = &ct.MsgSendMessage{From: holder, DestinationDomain: 1, Recipient: Structured32(8), MessageBody: []byte("from a role holder")}
					case strings.HasPrefix(name, "receive-other-by-"):
						nonce++
						in := &InMsg{Version: 0, Src: 1, Dst: 4, Nonce: nonce, Sender: Structured32(1), Recipient: Structured32(2), Caller: ref.Pad32(addrBytes(holder)), Body: []byte("for you only")}
						raw := in.Bytes()
						m = &ct.MsgReceiveMessage{From: holder, Message: raw, Attestation: e.Attest(raw, 0)}
					default:
						nonce++
						in := StdInbound(nonce, 1, big.NewInt(7))
						in.Caller = ref.Pad32(addrBytes(holder))
						raw := in.Bytes()
						m = &ct.MsgReceiveMessage{From: holder, Message: raw, Attestation: e.Attest(raw, 1)}
					}
				}
			}
			if m == nil {
				rc.Cov.Inconclusive("c12: no original for " + name)
				return
			}
			sr, bm := e.M.PausedSR, e.M.PausedBM
			r := e.Exec(Tx{Msgs: msgs1(m), Note: "C12 " + name + " " + phase})
			blocked := sr || (bm && (strings.HasPrefix(name, "deposit") || strings.HasPrefix(name, "replace-deposit") || strings.HasPrefix(name, "receive-mint")))
			rc.Cov.Assert("C12.pause-matrix")
			rc.Cov.Cell("C12_matrix", fmt.Sprintf("sr=%v,bm=%v/%s/%s/%v", sr, bm, name, phase, map[bool]string{true: "ok", false: "fail"}[r.OK]))
			rc.Cov.Distinct(fmt.Sprintf("c12|%v|%v|%s|%s|%v", sr, bm, name, phase, r.OK))
			if r.OK == blocked && r.TxExp != DontCare && !(r.TxExp == MustFail && !blocked) {
				dir := "blocked-by-a-flag-not-naming-it"
				if r.OK {
					dir = "ran-while-paused"
				}
				e.viol([]string{"C12"}, "pause-matrix", fmt.Sprintf("C12:%s:%s:sr=%v:bm=%v", dir, name, sr, bm),
					fmt.Sprintf("flow %s with flags sr=%v bm=%v (%s): success=%v, expected %v: %s", name, sr, bm, phase, r.OK, !blocked, trunc(r.Res.Log, 200)), nil)
			}
		}
		for fs := 0; fs < 4; fs++ {
			sr, bm := fs&1 != 0, fs&2 != 0
			setFlags(sr, bm)
			for _, f := range c12Flows {
				flow(f, "before")
			}
			// redundant pause (idempotent), then again
			if sr {
				e.Exec(Tx{Msgs: msgs1(&ct.MsgPauseSendingAndReceivingMessages{From: e.M.Pauser}), Note: "redundant pause"})
			}
			if bm {
				e.Exec(Tx{Msgs: msgs1(&ct.MsgPauseBurningAndMinting{From: e.M.Pauser}), Note: "redundant pause"})
			}
			for _, f := range c12Flows {
				flow(f, "after-redundant-pause")
			}
			// all 18 admin actions stay available in this flag state
			for ti, at := range adminTypes {
				if strings.Contains(at.Name, "ause") || at.Name == "AcceptOwner" || at.Name == "UpdateOwner" || at.Name == "UpdatePauser" {
					continue
				}
				role := map[string]string{"owner": e.M.Owner, "am": e.M.AM, "pauser": e.M.Pauser, "tc": e.M.TC}[at.Role]
				tx := Tx{Msgs: msgs1(at.Make(e.M, role, ti+fs)), Note: "C12 admin while paused"}
				r := e.Exec(tx)
				rc.Cov.Cell("C12_admin", fmt.Sprintf("sr=%v,bm=%v/%s/%v", sr, bm, at.Name, r.OK))
				adminAvailable(e, &tx, r, sr, bm)
			}
			// argument values at their boundaries: body sizes around a burn message, thresholds 1..n, limits 0 / 1 / huge
			for _, size := range []uint64{0, 1, 131, 132, 133, 8000, 1 << 40, 4000} {
				tx := Tx{Msgs: msgs1(&ct.MsgUpdateMaxMessageBodySize{From: e.M.Owner, MessageSize: size}), Note: "C12 admin while paused: body size"}
				adminAvailable(e, &tx, e.Exec(tx), sr, bm)
			}
			for _, lim := range []*big.Int{big.NewInt(0), big.NewInt(1), Max256, big.NewInt(1_000_000)} {
				tx := Tx{Msgs: msgs1(&ct.MsgSetMaxBurnAmountPerMessage{From: e.M.TC, LocalToken: "uusdc", Amount: mkInt(lim)}), Note: "C12 admin while paused: burn limit"}
				adminAvailable(e, &tx, e.Exec(tx), sr, bm)
			}
			for t := uint32(1); t <= uint32(len(e.M.Attesters)); t++ {
				if t == e.M.Threshold {
					continue
				}
				tx := Tx{Msgs: msgs1(&ct.MsgUpdateSignatureThreshold{From: e.M.AM, Amount: t}), Note: "C12 admin while paused: threshold"}
				adminAvailable(e, &tx, e.Exec(tx), sr, bm)
			}
			e.Exec(Tx{Msgs: msgs1(&ct.MsgUpdateSignatureThreshold{From: e.M.AM, Amount: 2}), Note: "C12 restore threshold"})
			e.Exec(Tx{Msgs: msgs1(&ct.MsgUpdateMaxMessageBodySize{From: e.M.Owner, MessageSize: 8000}), Note: "C12 restore body size"})
			// ownership hand-over and pauser update while paused
			own := e.M.Owner
			r1 := e.Exec(Tx{Msgs: msgs1(&ct.MsgUpdateOwner{From: own, NewOwner: Acct(OtherIx)})})
			r2 := e.Exec(Tx{Msgs: msgs1(&ct.MsgAcceptOwner{From: Acct(OtherIx)})})
			e.Exec(Tx{Msgs: msgs1(&ct.MsgUpdateOwner{From: Acct(OtherIx), NewOwner: own})})
			e.Exec(Tx{Msgs: msgs1(&ct.MsgAcceptOwner{From: own})})
			r3 := e.Exec(Tx{Msgs: msgs1(&ct.MsgUpdatePauser{From: own, NewPauser: e.M.Pauser})})
			rc.Cov.Cell("C12_admin", fmt.Sprintf("sr=%v,bm=%v/UpdateOwner/%v", sr, bm, r1.OK))
			rc.Cov.Cell("C12_admin", fmt.Sprintf("sr=%v,bm=%v/AcceptOwner/%v", sr, bm, r2.OK))
			rc.Cov.Cell("C12_admin", fmt.Sprintf("sr=%v,bm=%v/UpdatePauser/%v", sr, bm, r3.OK))
			// pause/unpause attempts by every account
			for i := 0; i < NAccounts; i++ {
				for k := 0; k < 4; k++ {
					if Acct(i) == e.M.Pauser {
						continue
					}
					m := []sdk.Msg{&ct.MsgPauseBurningAndMinting{From: Acct(i)}, &ct.MsgUnpauseBurningAndMinting{From: Acct(i)},
						&ct.MsgPauseSendingAndReceivingMessages{From: Acct(i)}, &ct.MsgUnpauseSendingAndReceivingMessages{From: Acct(i)}}[k]
					e.Exec(Tx{Msgs: msgs1(m), Note: "C12 pause attempt by non-pauser"})
				}
			}
			// unpause restores the previous behaviour
			setFlags(false, false)
			for _, f := range c12Flows {
				flow(f, "after-unpause")
			}
		}
		// pauser toggles in every order
		for k := 0; k < 16; k++ {
			m := []sdk.Msg{&ct.MsgPauseBurningAndMinting{From: e.M.Pauser}, &ct.MsgUnpauseBurningAndMinting{From: e.M.Pauser},
				&ct.MsgPauseSendingAndReceivingMessages{From: e.M.Pauser}, &ct.MsgUnpauseSendingAndReceivingMessages{From: e.M.Pauser}}[(k*7+k/4)%4]
			e.Exec(Tx{Msgs: msgs1(m), Note: "C12 toggle"})
		}
	}
	// flags absent in the genesis handed to InitChain: initialisation defaults them to paused
	if rc.Shard == 0 {
		for k := 0; k < 4; k++ {
			e, err := StdEngine(rc, false, false, func(gs *ct.GenesisState, cfg *chain.Config) {
				if k&1 != 0 {
					gs.BurningAndMintingPaused = nil
				}
				if k&2 != 0 {
					gs.SendingAndReceivingMessagesPaused = nil
				}
			})
			if err != nil {
				rc.Cov.Inconclusive(err.Error())
				continue
			}
			pg := &ProdGen{E: e, G: NewGen(e)}
			r := e.Exec(Tx{Msgs: msgs1(pg.ValidDeposit(false, 0)), Note: "C12 absent flags"})
			rc.Cov.Cell("C12_absent_flags", fmt.Sprintf("bm-absent=%v,sr-absent=%v/deposit-ok=%v", k&1 != 0, k&2 != 0, r.OK))
			r = e.Exec(Tx{Msgs: msgs1(pg.ValidSend(false)), Note: "C12 absent flags"})
			rc.Cov.Cell("C12_absent_flags", fmt.Sprintf("bm-absent=%v,sr-absent=%v/send-ok=%v", k&1 != 0, k&2 != 0, r.OK))
		}
	}
	for h := 0; h < rc.Pick(1, 3); h++ {
		e, err := NewHistoryEngine(rc, GenOpts{}, false, false)
		if err == nil {
			RunHistory(e, NewGen(e), rc.Pick(300, 1500), 0)
		}
	}
}

// ---------------------------------------------------------------- C13 closure

func runC13(rc *RunCtx) {
	K := rc.Pick(4, 5)
	states, transitions := 0, 0
	si := 0
	for subset := 1; subset < 1<<uint(K); subset++ {
		var keys []int
		for i := 0; i < K; i++ {
			if subset&(1<<uint(i)) != 0 {
				keys = append(keys, i)
			}
		}
		for tt := 1; tt <= 2*len(keys)+1; tt++ {
			// tt <= len(keys): one spelling per key; above: the first key additionally enabled under a second spelling
			dup := tt > len(keys)
			t := tt
			if dup {
				t = tt - len(keys)
			}
			si++
			if si%rc.NShards != rc.Shard {
				continue
			}
			states++
			byTx := si%3 == 0 // the state is reached by transactions from a genesis without attesters and without a threshold
			mk := func() *Engine {
				if byTx {
					e, err := StdEngine(rc, false, false, func(gs *ct.GenesisState, cfg *chain.Config) {
						gs.AttesterList = nil
						gs.SignatureThreshold = nil
					})
					if err != nil {
						rc.Cov.Inconclusive(err.Error())
						return nil
					}
					am := e.M.AM
					for _, k := range keys {
						e.Exec(Tx{Msgs: msgs1(&ct.MsgEnableAttester{From: am, Attester: AttesterPool[k].Spell(k % 4)}), Note: "C13 bootstrap from an empty attester set"})
					}
					if dup {
						e.Exec(Tx{Msgs: msgs1(&ct.MsgEnableAttester{From: am, Attester: AttesterPool[keys[0]].Spell((keys[0] + 1) % 4)}), Note: "C13 bootstrap from an empty attester set"})
					}
					e.Exec(Tx{Msgs: msgs1(&ct.MsgUpdateSignatureThreshold{From: am, Amount: uint32(t)}), Note: "C13 bootstrap threshold"})
					rc.Cov.Cell("C13_start_built", "by-transactions-from-empty-genesis")
					return e
				}
				rc.Cov.Cell("C13_start_built", "by-genesis")
				e, err := StdEngine(rc, false, false, func(gs *ct.GenesisState, cfg *chain.Config) {
					// the attester rules do not depend on the pause flags: every flag combination in turn
					gs.SendingAndReceivingMessagesPaused.Paused = (si/3)%4&1 != 0
					gs.BurningAndMintingPaused.Paused = (si/3)%4&2 != 0
					gs.AttesterList = nil
					for _, k := range keys {
						gs.AttesterList = append(gs.AttesterList, ct.Attester{Attester: AttesterPool[k].Spell(k % 4)})
					}
					if dup {
						gs.AttesterList = append(gs.AttesterList, ct.Attester{Attester: AttesterPool[keys[0]].Spell((keys[0] + 1) % 4)})
					}
					gs.SignatureThreshold = &ct.SignatureThreshold{Amount: uint32(t)}
				})
				if err != nil {
					rc.Cov.Inconclusive(err.Error())
					return nil
				}
				return e
			}
			var e *Engine
			startHash := ""
			step := func(m sdk.Msg, kind string) {
				if e == nil || e.M.Hash() != startHash {
					e = mk()
					if e == nil {
						return
					}
					startHash = e.M.Hash()
				}
				r := e.Exec(Tx{Msgs: msgs1(m), Note: fmt.Sprintf("C13 closure from subset=%b t=%d second-spelling=%v", subset, t, dup)})
				transitions++
				rc.Cov.Assert("C13.action-oracle")
				rc.Cov.Cell("C13_transitions", kind+"/"+map[bool]string{true: "ok", false: "fail"}[r.OK])
				rc.Cov.Distinct(fmt.Sprintf("c13|%b|%d|%v|%s|%v", subset, t, dup, shapeMsg(m), r.OK))
			}
			am := Acct(AMIx)
			for k := 0; k < K; k++ {
				for st := 0; st < 4; st++ {
					step(&ct.MsgEnableAttester{From: am, Attester: AttesterPool[k].Spell(st)}, "enable")
					step(&ct.MsgDisableAttester{From: am, Attester: AttesterPool[k].Spell(st)}, "disable")
				}
			}
			step(&ct.MsgDisableAttester{From: am, Attester: AttesterPool[9].Spell(0)}, "disable-unknown")
			// an identifier that is a proper string prefix of an enabled key's spelling names a different entry
			pre := AttesterPool[keys[0]].Spell(keys[0] % 4)[:42]
			step(&ct.MsgDisableAttester{From: am, Attester: pre}, "disable-prefix-of-enabled")
			if e != nil || true {
				en := mk()
				if en != nil {
					r1 := en.Exec(Tx{Msgs: msgs1(&ct.MsgEnableAttester{From: am, Attester: pre}), Note: "C13 enable a prefix-identifier"})
					r2 := en.Exec(Tx{Msgs: msgs1(&ct.MsgDisableAttester{From: am, Attester: pre}), Note: "C13 disable the prefix-identifier again"})
					rc.Cov.Cell("C13_transitions", fmt.Sprintf("prefix-identifier/enable=%v/disable=%v", r1.OK, r2.OK))
				}
			}
			// identifiers longer than a full 0x-prefixed key: an extension of an enabled spelling names a different (unknown)
			// entry, and two long identifiers that agree on their first 132 characters are different entries
			full := AttesterPool[keys[0]].Spell(keys[0] % 4)
			step(&ct.MsgDisableAttester{From: am, Attester: full + "02"}, "disable-extension-of-enabled")
			if en := mk(); en != nil {
				long := AttesterPool[keys[0]].Spell(0)
				for st := 0; st < 4; st++ {
					if sp := AttesterPool[keys[0]].Spell(st); len(sp) == 132 {
						long = sp
					}
				}
				r1 := en.Exec(Tx{Msgs: msgs1(&ct.MsgEnableAttester{From: am, Attester: long + "01"}), Note: "C13 enable a long identifier"})
				r2 := en.Exec(Tx{Msgs: msgs1(&ct.MsgDisableAttester{From: am, Attester: long + "02"}), Note: "C13 disable an unknown identifier sharing 132 leading characters with an enabled one"})
				r3 := en.Exec(Tx{Msgs: msgs1(&ct.MsgEnableAttester{From: am, Attester: long + "02"}), Note: "C13 enable the second long identifier"})
				r4 := en.Exec(Tx{Msgs: msgs1(&ct.MsgDisableAttester{From: am, Attester: long + "01"}), Note: "C13 disable the first long identifier"})
				rc.Cov.Cell("C13_transitions", fmt.Sprintf("long-identifier-siblings/enable=%v/disable-sibling=%v/enable-sibling=%v/disable=%v", r1.OK, r2.OK, r3.OK, r4.OK))
			}
			// a string that joins two enabled identifiers is one (unknown) identifier, not a list
			if len(keys) >= 2 {
				a, b := AttesterPool[keys[0]].Spell(keys[0]%4), AttesterPool[keys[1]].Spell(keys[1]%4)
				for _, sep := range []string{",", ", ", ";", " ", "\n", "|", "/"} {
					step(&ct.MsgDisableAttester{From: am, Attester: a + sep + b}, "disable-joined-identifiers")
				}
				step(&ct.MsgDisableAttester{From: am, Attester: a + "," + a}, "disable-joined-identifiers")
			}
			for nt := 0; nt <= len(keys)+2; nt++ {
				step(&ct.MsgUpdateSignatureThreshold{From: am, Amount: uint32(nt)}, "set-threshold")
			}
			step(&ct.MsgUpdateSignatureThreshold{From: am, Amount: 0xffffffff}, "set-threshold")
			for _, w := range WrapThresholds {
				step(&ct.MsgUpdateSignatureThreshold{From: am, Amount: w}, "set-threshold-wrap")
			}
			// by a non-manager
			step(&ct.MsgDisableAttester{From: Acct(OwnerIx), Attester: AttesterPool[keys[0]].Spell(keys[0] % 4)}, "disable-by-non-manager")
			step(&ct.MsgUpdateSignatureThreshold{From: Acct(OwnerIx), Amount: 1}, "threshold-by-non-manager")
		}
	}
	// identifiers that a lenient hex reader accepts and a strict one refuses (odd number of digits, trailing garbage,
	// blanks): once enabled they are entries like any other - they count towards n, and disabling one is refused at the
	// threshold and when it is the last entry
	if rc.Shard == 1%rc.NShards {
		oddIDs := []string{"0x4a1b2", "4a1b2", "0x12zz", "12zz", "0x1", "0X0g", " 0x12", "0x12 ", "0x12\n", "0x04" + strings.Repeat("ab", 64) + "z", "0x04" + strings.Repeat("cd", 63) + "c", "zz", "0xzz", "0x", "x"}
		for gi := 0; gi < 2; gi++ {
			e, err := StdEngine(rc, false, false, func(gs *ct.GenesisState, cfg *chain.Config) {
				gs.AttesterList = []ct.Attester{{Attester: AttesterPool[0].Spell(0)}, {Attester: AttesterPool[1].Spell(1)}}
				if gi == 1 { // only odd identifiers, installed by genesis
					gs.AttesterList = []ct.Attester{{Attester: oddIDs[0]}}
				}
				gs.SignatureThreshold = &ct.SignatureThreshold{Amount: 1}
			})
			if err != nil {
				rc.Cov.Inconclusive("odd identifiers: " + err.Error())
				continue
			}
			am := e.M.AM
			ostep := func(m sdk.Msg, kind string) bool {
				r := e.Exec(Tx{Msgs: msgs1(m), Note: fmt.Sprintf("C13 odd identifiers (%d enabled, threshold %d): %s", len(e.M.Attesters), e.M.Threshold, kind)})
				rc.Cov.Cell("C13_odd_identifiers", kind+"/"+okWord(r.OK))
				return r.OK
			}
			if gi == 1 {
				ostep(&ct.MsgDisableAttester{From: am, Attester: oddIDs[0]}, "disable-the-last-entry")
			}
			for _, id := range oddIDs {
				ostep(&ct.MsgEnableAttester{From: am, Attester: id}, "enable")
				if !e.M.Attesters[id] {
					continue
				}
				n := uint32(len(e.M.Attesters))
				ostep(&ct.MsgUpdateSignatureThreshold{From: am, Amount: n}, "threshold-n")
				ostep(&ct.MsgDisableAttester{From: am, Attester: id}, "disable-at-threshold")
				for other := range e.M.Attesters {
					if other != id {
						ostep(&ct.MsgDisableAttester{From: am, Attester: other}, "disable-another-at-threshold")
						break
					}
				}
				if n > 1 {
					ostep(&ct.MsgUpdateSignatureThreshold{From: am, Amount: n - 1}, "threshold-n-1")
					if gi == 0 || len(id)%2 == 0 {
						ostep(&ct.MsgDisableAttester{From: am, Attester: id}, "disable-below-threshold")
					}
				}
			}
			e.FullQueryCheck(nil, []uint64{1, 3, 100})
		}
	}
	if rc.Shard == 0 {
		attesterIdentifierStructure(rc, "C13_identifier_structure")
	}
	// a large attester set (more entries than any page or batch size a list reader might use): the count that the
	// threshold is compared with must stay exact
	if rc.Shard == 0 {
		big := ref.KeyPool(136)
		e, err := StdEngine(rc, false, false, func(gs *ct.GenesisState, cfg *chain.Config) {
			gs.AttesterList = nil
			for i := 0; i < 125; i++ {
				gs.AttesterList = append(gs.AttesterList, ct.Attester{Attester: big[i].Spell(i % 4)})
			}
			gs.SignatureThreshold = &ct.SignatureThreshold{Amount: 1}
		})
		if err != nil {
			rc.Cov.Inconclusive("large attester set: " + err.Error())
		} else {
			e.LightQueries = true
			am := e.M.AM
			lstep := func(m sdk.Msg, kind string) {
				r := e.Exec(Tx{Msgs: msgs1(m), Note: fmt.Sprintf("C13 large attester set (%d enabled, threshold %d)", len(e.M.Attesters), e.M.Threshold)})
				rc.Cov.Cell("C13_large_set", fmt.Sprintf("%s/%s", kind, okWord(r.OK)))
			}
			for i := 125; i < 134; i++ {
				lstep(&ct.MsgEnableAttester{From: am, Attester: big[i].Spell(i % 4)}, "enable")
				n := uint32(len(e.M.Attesters))
				lstep(&ct.MsgUpdateSignatureThreshold{From: am, Amount: n + 1}, "threshold-n+1")
				lstep(&ct.MsgUpdateSignatureThreshold{From: am, Amount: n}, "threshold-n")
				lstep(&ct.MsgDisableAttester{From: am, Attester: big[i].Spell(i % 4)}, "disable-at-threshold")
				lstep(&ct.MsgDisableAttester{From: am, Attester: big[0].Spell(0)}, "disable-first-at-threshold")
				lstep(&ct.MsgUpdateSignatureThreshold{From: am, Amount: n - 1}, "threshold-n-1")
				if i%3 == 0 { // shrink and regrow across the boundary
					lstep(&ct.MsgDisableAttester{From: am, Attester: big[i].Spell(i % 4)}, "disable")
					lstep(&ct.MsgUpdateSignatureThreshold{From: am, Amount: n}, "threshold-n-after-disable")
					lstep(&ct.MsgEnableAttester{From: am, Attester: big[i].Spell(i % 4)}, "re-enable")
				}
			}
			e.FullQueryCheck(nil, []uint64{1, 64, 127, 128, 129, 200})
		}
	}
	rc.Cov.Extra["states"] = float64(states)
	rc.Cov.Extra["transitions"] = float64(transitions)
	rc.Cov.Extra["exhaustive"] = true
	rc.Cov.Sample(map[string]interface{}{"universe_keys": K, "state_shape": "(enabled subset, threshold) with 1 <= threshold <= |subset|", "actions": "enable k / disable k in 4 spellings, disable unknown, set threshold 0..n+1 and 2^32-1, actions by a non-manager"})
	ProbeHistory(rc, rc.Pick(300, 900), false)
	// random walks
	for w := 0; w < rc.Pick(2, 8); w++ {
		e, err := StdEngine(rc, false, false, nil)
		if err != nil {
			continue
		}
		r := rc.Rand
		for i := 0; i < 500; i++ {
			var m sdk.Msg
			switch r.Intn(3) {
			case 0:
				m = &ct.MsgEnableAttester{From: e.M.AM, Attester: AttesterPool[r.Intn(6)].Spell(r.Intn(2))}
			case 1:
				m = &ct.MsgDisableAttester{From: e.M.AM, Attester: AttesterPool[r.Intn(6)].Spell(r.Intn(2))}
			default:
				m = &ct.MsgUpdateSignatureThreshold{From: e.M.AM, Amount: uint32(r.Intn(len(e.M.Attesters) + 2))}
			}
			e.Exec(Tx{Msgs: msgs1(m), Note: "C13 walk"})
		}
	}
}

func init() {
	Register(&Check{
		ID: "C10", Level: "exploration",
		Rule:   "all 18 privileged transaction types x all 32 subsets of {owner, pending owner, attester manager, pauser, token controller} held by the submitter (other slots held by distinct accounts), each cell on a real chain whose genesis (+ one ownership transfer for the pending slot) realises it, with arguments that are valid for the holder; oracle: success iff the submitter holds that type's role, and a failure leaves all four stores unchanged; plus the previous holder right after each kind of role update, upper-case spellings, the registry's signer annotation of all 25 message types, and hostile histories. distinct = (type, holding, outcome).",
		Shards: func(t string) int { return map[string]int{"quick": 4, "thorough": 16}[t] },
		Run:    runC10,
		Floors: func(c *Cov, tier string) []string {
			cells := map[string]bool{}
			for k := range c.Matrix["C10_table"] {
				cells[k[:strings.LastIndex(k, "/")]] = true
			}
			if len(cells) < 576 {
				return []string{fmt.Sprintf("only %d of 576 (type, holding) cells executed", len(cells))}
			}
			if len(c.Matrix["C10_near_holders"]) < 15 {
				return []string{fmt.Sprintf("near-holder submitters: %d types", len(c.Matrix["C10_near_holders"]))}
			}
			if len(c.Matrix["C10_previous_holder"]) < 40 {
				return []string{"previous-holder cases missing"}
			}
			if len(c.Matrix["C10_other_spellings"]) < 40 {
				return []string{fmt.Sprintf("requests under other spellings by non-holders: %d cells", len(c.Matrix["C10_other_spellings"]))}
			}
			return nil
		},
	})
	Register(&Check{
		ID: "C11", Level: "exploration",
		Rule:   "closure of a finite universe (3 accounts quick / 4 thorough): every role state (owner, pending|none, attester manager, pauser, token controller) x every action (the five role transactions by every submitter with every new holder, accept by every account, one representative of each other transaction type, malformed new-holder strings), each executed as one step on a real chain prepared in that state; oracle: the lifecycle automaton of the reference model, compared after every step with the Roles query, the export and the pending-owner getter; plus multi-step random walks. distinct = (state, action, outcome).",
		Shards: func(t string) int { return map[string]int{"quick": 6, "thorough": 16}[t] },
		Run:    runC11,
		Floors: func(c *Cov, tier string) []string {
			want := map[string]float64{"quick": 324, "thorough": 1280}[tier]
			if s, _ := c.Extra["states"].(float64); s < want {
				return []string{fmt.Sprintf("states visited %v of %v", s, want)}
			}
			return nil
		},
	})
	Register(&Check{
		ID: "C12", Level: "exploration",
		Rule:   "the 4 flag states x 8 user-facing flows with otherwise valid inputs, each before, after a redundant pause and after unpause; all administrative actions in all four flag states; pause/unpause attempts by every account; flags absent in genesis; oracle: a flow succeeds iff no flag naming it is set (send/receive flag: all eight; burn/mint flag: deposits, deposit replacement, mint), both flag queries and the export equal the model after every step. distinct = (flags, flow, phase, outcome).",
		Shards: func(t string) int { return map[string]int{"quick": 2, "thorough": 8}[t] },
		Run:    runC12,
		Floors: func(c *Cov, tier string) []string {
			cells := map[string]bool{}
			for k := range c.Matrix["C12_matrix"] {
				cells[k[:strings.LastIndex(k, "/")]] = true
			}
			if len(cells) < 4*8*2+8 {
				return []string{fmt.Sprintf("matrix cells executed: %d", len(cells))}
			}
			return nil
		},
	})
	Register(&Check{
		ID: "C13", Level: "exploration",
		Rule:   "closure over a universe of 4 keys (5 thorough): every start state (enabled subset, threshold) with 1 <= t <= |subset| installed through genesis x every action (enable / disable each key in four spellings, disable an unknown key, set threshold 0..n+1 and 2^32-1, actions by a non-manager) as one step on the real chain; oracle: the reference model's outcome for each action and the invariant 1 <= threshold <= #attesters after every step (attesters and threshold read through export and queries); plus random walks. distinct = (subset, threshold, action, outcome).",
		Shards: func(t string) int { return map[string]int{"quick": 2, "thorough": 8}[t] },
		Run:    runC13,
		Floors: func(c *Cov, tier string) []string {
			want := map[string]float64{"quick": 79, "thorough": 191}[tier]
			if s, _ := c.Extra["states"].(float64); s < want {
				return []string{fmt.Sprintf("states visited %v of %v", s, want)}
			}
			return nil
		},
	})
}
