package sim

import (
	"testing"
	"time"
)

func TestBenchChain(t *testing.T) {
	rc := &RunCtx{Cov: NewCov()}
	rc.Rand = newRand(1)
	t0 := time.Now()
	for i := 0; i < 200; i++ {
		if _, err := NewHistoryEngine(rc, GenOpts{}, false, false); err != nil {
			t.Fatal(err)
		}
	}
	t.Logf("chain creation: %v each", time.Since(t0)/200)
}
