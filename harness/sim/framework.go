package sim

import (
	sdkmath "cosmossdk.io/math"
	"encoding/binary"
	"encoding/json"
	"fmt"
	"github.com/cosmos/cosmos-sdk/telemetry"
	sdk "github.com/cosmos/cosmos-sdk/types"
	"hash/fnv"
	"math/rand"
	"os"
	"os/exec"
	"path/filepath"
	"sort"
	"strconv"
	"strings"
	"sync"
	"time"
)

// Violation is one firing of a monitor.
type Violation struct {
	Props   []string    `json:"props"`   // properties this firing refutes
	Monitor string      `json:"monitor"` // which monitor fired
	Sig     string      `json:"sig"`     // stable, specific signature (matched against known_findings.json)
	Detail  string      `json:"detail"`
	Case    interface{} `json:"case,omitempty"` // written-out failing case
	Shard   int         `json:"shard"`
}

func (v *Violation) has(p string) bool {
	for _, x := range v.Props {
		if x == p {
			return true
		}
	}
	return false
}

// Cov accumulates what a run actually observed.
type Cov struct {
	Evaluations int                       `json:"evaluations"`
	Assertions  map[string]int            `json:"assertions"`
	DontCare    int                       `json:"dontcare"`
	Samples     []interface{}             `json:"samples"`
	Matrix      map[string]map[string]int `json:"matrix"`
	Extra       map[string]interface{}    `json:"extra"`
	Notes       []string                  `json:"notes"`
	Inconcl     []string                  `json:"inconclusive"`
	distinct    map[uint64]struct{}
	maxSamples  int
}

func NewCov() *Cov {
	return &Cov{Assertions: map[string]int{}, Matrix: map[string]map[string]int{}, Extra: map[string]interface{}{},
		distinct: map[uint64]struct{}{}, maxSamples: 5}
}

func (c *Cov) Assert(name string) { c.Assertions[name]++ }
func (c *Cov) AssertN(name string, n int) {
	c.Assertions[name] += n
}

// Distinct registers a non-trivial case key; returns true when it is new.
func (c *Cov) Distinct(key string) bool {
	h := fnv.New64a()
	h.Write([]byte(key))
	k := h.Sum64()
	if _, ok := c.distinct[k]; ok {
		return false
	}
	c.distinct[k] = struct{}{}
	return true
}

func (c *Cov) Cell(matrix, cell string) {
	m := c.Matrix[matrix]
	if m == nil {
		m = map[string]int{}
		c.Matrix[matrix] = m
	}
	m[cell]++
}

func (c *Cov) Sample(s interface{}) {
	if len(c.Samples) < c.maxSamples {
		c.Samples = append(c.Samples, s)
	}
}

func (c *Cov) Inconclusive(why string) {
	if len(c.Inconcl) < 50 {
		c.Inconcl = append(c.Inconcl, why)
	}
}

func (c *Cov) merge(o *Cov, dist []uint64) {
	c.Evaluations += o.Evaluations
	c.DontCare += o.DontCare
	for k, v := range o.Assertions {
		c.Assertions[k] += v
	}
	for m, cells := range o.Matrix {
		for k, v := range cells {
			if c.Matrix[m] == nil {
				c.Matrix[m] = map[string]int{}
			}
			c.Matrix[m][k] += v
		}
	}
	for _, s := range o.Samples {
		c.Sample(s)
	}
	for k, v := range o.Extra {
		switch nv := v.(type) {
		case float64:
			if old, ok := c.Extra[k].(float64); ok {
				c.Extra[k] = old + nv
			} else {
				c.Extra[k] = nv
			}
		case bool:
			if old, ok := c.Extra[k].(bool); ok {
				c.Extra[k] = old && nv
			} else {
				c.Extra[k] = nv
			}
		default:
			if _, ok := c.Extra[k]; !ok {
				c.Extra[k] = v
			}
		}
	}
	c.Notes = append(c.Notes, o.Notes...)
	c.Inconcl = append(c.Inconcl, o.Inconcl...)
	for _, d := range dist {
		c.distinct[d] = struct{}{}
	}
}

// RunCtx is handed to a check's Run function (one per shard process).
type RunCtx struct {
	ID      string
	Tier    string
	Seed    int64
	Shard   int
	NShards int
	Cov     *Cov
	Viol    []Violation
	Rand    *rand.Rand
	sigSeen map[string]int
	engines int      // engines created so far (chooses the block-header style of the next one)
	CallLog *os.File // for crash attribution: every monitored call is logged before it is made
}

func (rc *RunCtx) Thorough() bool { return rc.Tier == "thorough" }

// Pick returns q for quick and t for thorough.
func (rc *RunCtx) Pick(q, t int) int {
	if rc.Thorough() {
		return t
	}
	return q
}

// Report records a violation (deduplicated by signature; at most 3 per signature are kept).
func (rc *RunCtx) Report(v Violation) {
	// what is printed and matched must be valid UTF-8 whatever bytes the failing input contained
	v.Sig, v.Detail = strings.ToValidUTF8(v.Sig, "?"), strings.ToValidUTF8(v.Detail, "?")
	if rc.sigSeen == nil {
		rc.sigSeen = map[string]int{}
	}
	rc.sigSeen[v.Sig]++
	if rc.sigSeen[v.Sig] > 2 || len(rc.Viol) > 200 {
		return
	}
	v.Shard = rc.Shard
	rc.Viol = append(rc.Viol, v)
}

// LogCall writes a line to the call log (flushed) before a call whose crash must be attributable.
func (rc *RunCtx) LogCall(format string, a ...interface{}) {
	if rc.CallLog != nil {
		fmt.Fprintf(rc.CallLog, format+"\n", a...)
	}
}

// Check is one registered property check.
type Check struct {
	ID     string
	Level  string // exploration | fault_enumeration
	Rule   string
	Shards func(tier string) int
	Run    func(rc *RunCtx)
	// Floors inspects the merged coverage and returns unmet floors (=> inconclusive).
	Floors func(c *Cov, tier string) []string
	// Assumptions listed in evidence.
	Assumptions []string
	// Prefix for shard i (default: "noble" for even shards, "cosmos" for odd shards in thorough; "noble" in quick).
	Prefix func(tier string, shard int) string
	// Race/asan: build variants this check's thorough tier additionally runs ("race", "asan").
	Extra func(tier string) []ExtraPass
	// Post inspects the merged coverage and may return violations (cross-process comparisons).
	Post func(c *Cov, tier string) []Violation
	// ShardEnv: extra environment for shard i (e.g. GOMAXPROCS).
	ShardEnv func(tier string, shard int) []string
}

// ExtraPass is an additional sanitizer pass run by the driver with another build of the binary.
type ExtraPass struct {
	Build string // "race" | "asan"
	Mode  string // passed as VERIF_SUBMODE to the shard
	N     int    // number of child processes
	Env   []string
}

var registry = map[string]*Check{}

func Register(c *Check) { registry[c.ID] = c }

type shardOut struct {
	Cov  *Cov        `json:"cov"`
	Viol []Violation `json:"violations"`
	Done bool        `json:"done"`
}

func envInt(k string, def int64) int64 {
	if v := os.Getenv(k); v != "" {
		if n, err := strconv.ParseInt(v, 10, 64); err == nil {
			return n
		}
	}
	return def
}

// RunShard executes one shard in this process and writes its partial result.
func RunShard(id string) int {
	ck := registry[id]
	if ck == nil {
		fmt.Fprintf(os.Stderr, "unknown check %s\n", id)
		return 3
	}
	rc := &RunCtx{ID: id, Tier: os.Getenv("VERIF_TIER"), Seed: envInt("VERIF_SEED", 1), Shard: int(envInt("VERIF_SHARD", 0)),
		NShards: int(envInt("VERIF_NSHARDS", 1)), Cov: NewCov()}
	if rc.Tier == "" {
		rc.Tier = "quick"
	}
	rc.Rand = rand.New(rand.NewSource(rc.Seed*1000003 + int64(rc.Shard)*7919 + 17))
	out := os.Getenv("VERIF_SHARD_OUT")
	if cl := os.Getenv("VERIF_CALLLOG"); cl != "" {
		f, err := os.OpenFile(cl, os.O_CREATE|os.O_WRONLY|os.O_TRUNC, 0o644)
		if err == nil {
			rc.CallLog = f
			defer f.Close()
		}
	}
	// node-local settings that must not matter: every other shard process runs with the SDK's telemetry switched on
	// (app.toml [telemetry] enabled = true), the way many production nodes do
	if (rc.Seed+int64(rc.Shard))%2 == 1 || os.Getenv("VERIF_TELEMETRY") == "1" {
		if _, err := telemetry.New(telemetry.Config{Enabled: true, ServiceName: "verif", EnableServiceLabel: true, GlobalLabels: [][]string{{"chain_id", "verif-1"}}}); err != nil {
			rc.Cov.Inconclusive("telemetry could not be enabled: " + err.Error())
		}
		rc.Cov.Cell("node_local", "telemetry=on")
		// ... and with denomination units registered with the SDK's process-wide registry (an application does that in
		// its init): two families with the same exponents, so that a conversion between them would change nothing but the name
		_ = sdk.RegisterDenom("uusdc", sdkmath.LegacyNewDecWithPrec(1, 6))
		_ = sdk.RegisterDenom("usdc", sdkmath.LegacyOneDec())
		_ = sdk.RegisterDenom("ueure", sdkmath.LegacyNewDecWithPrec(1, 6))
		_ = sdk.RegisterDenom("eure", sdkmath.LegacyOneDec())
		_ = sdk.RegisterDenom("uusdc2", sdkmath.LegacyNewDecWithPrec(1, 3))
		_ = sdk.SetBaseDenom("uusdc")
		rc.Cov.Cell("node_local", "denom-units=registered")
	} else {
		rc.Cov.Cell("node_local", "telemetry=off")
		rc.Cov.Cell("node_local", "denom-units=none")
	}
	ck.Run(rc)
	so := shardOut{Cov: rc.Cov, Viol: rc.Viol, Done: true}
	bz, err := json.Marshal(so)
	if err != nil {
		fmt.Fprintf(os.Stderr, "marshal shard output: %v\n", err)
		return 3
	}
	if out != "" {
		if err := os.WriteFile(out, bz, 0o644); err != nil {
			fmt.Fprintf(os.Stderr, "write shard output: %v\n", err)
			return 3
		}
		db := make([]byte, 0, 8*len(rc.Cov.distinct))
		for k := range rc.Cov.distinct {
			db = binary.LittleEndian.AppendUint64(db, k)
		}
		_ = os.WriteFile(out+".distinct", db, 0o644)
	} else {
		os.Stdout.Write(bz)
	}
	return 0
}

// KnownFindings is the committed known-findings file.
type KnownFindings struct {
	Findings []struct {
		Property  string `json:"property"`
		Signature string `json:"signature"`
		What      string `json:"what"`
	} `json:"findings"`
	Fixed []string `json:"fixed"`
}

func loadKnown(root string) *KnownFindings {
	kf := &KnownFindings{}
	bz, err := os.ReadFile(filepath.Join(root, "known_findings.json"))
	if err == nil {
		_ = json.Unmarshal(bz, kf)
	}
	return kf
}

type childResult struct {
	shard    int
	pass     string
	out      *shardOut
	dist     []uint64
	exitErr  error
	crashLog string
	lastCall string
	timedOut bool
}

// Drive runs all shards of a check as child processes, merges, writes evidence and returns the exit code.
func Drive(id string) int {
	ck := registry[id]
	if ck == nil {
		fmt.Fprintf(os.Stderr, "unknown check %s\n", id)
		return 3
	}
	start := time.Now()
	tier := os.Getenv("VERIF_TIER")
	if tier == "" {
		tier = "quick"
	}
	seed := envInt("VERIF_SEED", 1)
	root := os.Getenv("VERIF_ROOT")
	if root == "" {
		root = "/verif"
	}
	replaySig := os.Getenv("VERIF_REPLAY_SIG")
	onlyShard := int(envInt("VERIF_ONLY_SHARD", -1))
	work, err := os.MkdirTemp(filepath.Join(root, ".cache"), "run-"+id+"-")
	if err != nil {
		fmt.Fprintf(os.Stderr, "mkdtemp: %v\n", err)
		return 3
	}
	defer os.RemoveAll(work)
	n := 1
	if ck.Shards != nil {
		n = ck.Shards(tier)
	}
	self, _ := os.Executable()
	type job struct {
		shard, nshards int
		pass, bin      string
		env            []string
	}
	var jobs []job
	for i := 0; i < n; i++ {
		if onlyShard >= 0 && i != onlyShard {
			continue
		}
		jobs = append(jobs, job{shard: i, nshards: n, pass: "main", bin: self})
	}
	if ck.Extra != nil && onlyShard < 0 {
		for _, ep := range ck.Extra(tier) {
			bin := os.Getenv("VERIF_BIN_" + strings.ToUpper(ep.Build))
			if bin == "" {
				fmt.Fprintf(os.Stderr, "extra pass %s requested but VERIF_BIN_%s not set\n", ep.Build, strings.ToUpper(ep.Build))
				return 3
			}
			for i := 0; i < ep.N; i++ {
				jobs = append(jobs, job{shard: i, nshards: ep.N, pass: ep.Build + ":" + ep.Mode, bin: bin,
					env: append([]string{"VERIF_SUBMODE=" + ep.Mode}, ep.Env...)})
			}
		}
	}
	par := int(envInt("VERIF_PAR", 16))
	sem := make(chan struct{}, par)
	results := make([]childResult, len(jobs))
	var wg sync.WaitGroup
	timeout := time.Duration(envInt("VERIF_CHILD_TIMEOUT_S", 3000)) * time.Second
	for ji, j := range jobs {
		wg.Add(1)
		go func(ji int, j job) {
			defer wg.Done()
			sem <- struct{}{}
			defer func() { <-sem }()
			tag := fmt.Sprintf("%s-%d", strings.ReplaceAll(j.pass, ":", "_"), j.shard)
			outp := filepath.Join(work, "shard-"+tag+".json")
			logp := filepath.Join(work, "shard-"+tag+".log")
			callp := filepath.Join(work, "shard-"+tag+".calls")
			prefix := "noble"
			if ck.Prefix != nil {
				prefix = ck.Prefix(tier, j.shard)
			} else if tier == "thorough" && j.shard%2 == 1 {
				prefix = "cosmos"
			}
			args := []string{"-test.run", "^TestVerifShard$", "-test.timeout", "0"}
			if cd := os.Getenv("VERIF_COVERDIR"); cd != "" && j.pass == "main" {
				args = append(args, "-test.coverprofile", filepath.Join(cd, fmt.Sprintf("%s-%s.cov", id, tag)))
			}
			cmd := exec.Command(j.bin, args...)
			cmd.Env = append(os.Environ(),
				"VERIF_MODE=shard", "VERIF_CHECK="+id, "VERIF_TIER="+tier, fmt.Sprintf("VERIF_SEED=%d", seed),
				fmt.Sprintf("VERIF_SHARD=%d", j.shard), fmt.Sprintf("VERIF_NSHARDS=%d", j.nshards),
				"VERIF_SHARD_OUT="+outp, "VERIF_CALLLOG="+callp, "VERIF_PREFIX="+prefix, "VERIF_WORK="+work,
				"GOTRACEBACK=all")
			cmd.Env = append(cmd.Env, j.env...)
			if ck.ShardEnv != nil {
				cmd.Env = append(cmd.Env, ck.ShardEnv(tier, j.shard)...)
			}
			if strings.HasPrefix(j.pass, "race") {
				cmd.Env = append(cmd.Env, "GORACE=halt_on_error=0 log_path="+filepath.Join(work, "racelog-"+tag))
			}
			lf, _ := os.Create(logp)
			cmd.Stdout, cmd.Stderr = lf, lf
			res := childResult{shard: j.shard, pass: j.pass}
			if err := cmd.Start(); err != nil {
				res.exitErr = err
				results[ji] = res
				return
			}
			done := make(chan error, 1)
			go func() { done <- cmd.Wait() }()
			select {
			case err := <-done:
				res.exitErr = err
			case <-time.After(timeout):
				_ = cmd.Process.Signal(os.Interrupt)
				time.Sleep(200 * time.Millisecond)
				_ = cmd.Process.Kill()
				<-done
				res.timedOut = true
			}
			lf.Close()
			if bz, err := os.ReadFile(outp); err == nil {
				var so shardOut
				if json.Unmarshal(bz, &so) == nil && so.Done {
					res.out = &so
					if db, err := os.ReadFile(outp + ".distinct"); err == nil {
						for i := 0; i+8 <= len(db); i += 8 {
							res.dist = append(res.dist, binary.LittleEndian.Uint64(db[i:]))
						}
					}
				}
			}
			if res.out == nil {
				if lb, err := os.ReadFile(logp); err == nil {
					if len(lb) > 6000 {
						lb = append(lb[:3000], lb[len(lb)-3000:]...)
					}
					res.crashLog = string(lb)
				}
				if cb, err := os.ReadFile(callp); err == nil {
					lines := strings.Split(strings.TrimSpace(string(cb)), "\n")
					res.lastCall = lines[len(lines)-1]
				}
			} else if os.Getenv("VERIF_KEEP_LOGS") != "" {
				if lb, err := os.ReadFile(logp); err == nil && len(lb) > 0 {
					_ = os.WriteFile(filepath.Join(root, ".cache", "last-"+id+"-"+tag+".log"), lb, 0o644)
				}
			}
			results[ji] = res
		}(ji, j)
	}
	wg.Wait()

	merged := NewCov()
	printedCrash := false
	var viol []Violation
	var inconclusive []string
	for _, r := range results {
		if r.out == nil {
			why := fmt.Sprintf("shard %d (%s) produced no result (timeout=%v, err=%v, last call: %s)", r.shard, r.pass, r.timedOut, r.exitErr, r.lastCall)
			if r.lastCall != "" && !r.timedOut && strings.HasPrefix(r.lastCall, "CALL ") {
				// a fatal crash of the code under test inside a monitored call
				cp := filepath.Join(root, "replays", fmt.Sprintf("%s-%d-crash-%d.txt", id, seed, r.shard))
				_ = os.WriteFile(cp, []byte(r.lastCall+"\n\n"+r.crashLog), 0o644)
				viol = append(viol, Violation{Props: []string{"C20", id}, Monitor: "crash-tap/child-exit", Sig: "fatal:" + firstWords(r.lastCall, 4),
					Detail: "child process died inside a monitored call: " + r.lastCall, Case: r.crashLog, Shard: r.shard})
			} else {
				inconclusive = append(inconclusive, why)
				if !printedCrash {
					printedCrash = true
					fmt.Fprintf(os.Stderr, "---- shard %d log (first crashed shard only) ----\n%s\n", r.shard, trunc(r.crashLog, 2500))
				}
			}
			continue
		}
		merged.merge(r.out.Cov, r.dist)
		viol = append(viol, r.out.Viol...)
	}
	inconclusive = append(inconclusive, merged.Inconcl...)
	// race detector reports (counted from the log files, never from exit codes)
	if rl, _ := filepath.Glob(filepath.Join(work, "racelog-*")); true {
		total, attributed := 0, 0
		seenPair := map[string]bool{}
		for _, f := range rl {
			bz, err := os.ReadFile(f)
			if err != nil {
				continue
			}
			for _, blk := range strings.Split(string(bz), "==================") {
				if !strings.Contains(blk, "WARNING: DATA RACE") {
					continue
				}
				total++
				if strings.Contains(blk, "noble-cctp/x/cctp") {
					attributed++
					key := raceKey(blk)
					if !seenPair[key] {
						seenPair[key] = true
						viol = append(viol, Violation{Props: []string{"C18", id}, Monitor: "race-detector", Sig: "race:" + key,
							Detail: "data race involving module code:\n" + trunc(blk, 3000), Shard: -1})
					}
				} else if !seenPair["other:"+raceKey(blk)] {
					seenPair["other:"+raceKey(blk)] = true
					inconclusive = append(inconclusive, "race report outside the module (harness or SDK): "+trunc(blk, 1200))
				}
			}
		}
		hasRace := false
		for _, j := range jobs {
			if strings.HasPrefix(j.pass, "race") {
				hasRace = true
			}
		}
		if hasRace {
			merged.Extra["race_reports_total"] = float64(total)
			merged.Extra["race_reports_attributed_to_module"] = float64(attributed)
			merged.Extra["race_log_parsed"] = true
		}
	}
	if ck.Post != nil && onlyShard < 0 {
		viol = append(viol, ck.Post(merged, tier)...)
	}
	if ck.Floors != nil && onlyShard < 0 && replaySig == "" {
		for _, f := range ck.Floors(merged, tier) {
			inconclusive = append(inconclusive, "coverage floor not met: "+f)
		}
	}

	// classify violations
	kf := loadKnown(root)
	knownHit := map[string]bool{}
	var own []Violation
	other := map[string]int{}
	for _, v := range viol {
		if !v.has(id) && id != "HIST" {
			other[strings.Join(v.Props, ",")+" "+v.Monitor]++
			if os.Getenv("VERIF_SHOW_OTHER") != "" && other[strings.Join(v.Props, ",")+" "+v.Monitor] <= 2 {
				fmt.Printf("OTHER props=%v monitor=%s sig=%s\n   %s\n", v.Props, v.Monitor, v.Sig, trunc(v.Detail, 900))
			}
			continue
		}
		if replaySig != "" && v.Sig != replaySig {
			continue
		}
		matched := false
		for _, f := range kf.Findings {
			if f.Property == id && f.Signature == v.Sig {
				matched = true
				if !knownHit[v.Sig] {
					knownHit[v.Sig] = true
					fmt.Printf("KNOWN-FINDING: property=%s %s [%s]\n", id, f.What, v.Sig)
				}
			}
		}
		if !matched {
			own = append(own, v)
		}
	}
	if len(other) > 0 {
		merged.Extra["violations_of_other_properties_seen"] = other
	}
	code := 0
	os.MkdirAll(filepath.Join(root, "replays"), 0o755)
	seenSig := map[string]bool{}
	nrep := 0
	for _, v := range own {
		if seenSig[v.Sig] {
			continue
		}
		seenSig[v.Sig] = true
		nrep++
		rp := filepath.Join(root, "replays", fmt.Sprintf("%s-%d-%d.json", id, seed, nrep))
		rj, _ := json.MarshalIndent(map[string]interface{}{"check": id, "tier": tier, "seed": seed, "shard": v.Shard,
			"signature": v.Sig, "monitor": v.Monitor, "detail": v.Detail, "case": v.Case}, "", " ")
		_ = os.WriteFile(rp, rj, 0o644)
		fmt.Printf("VIOLATION property=%s replay=%s\n", id, rp)
		fmt.Printf("  monitor=%s sig=%s\n  %s\n", v.Monitor, v.Sig, trunc(v.Detail, 600))
		code = 1
	}
	if code == 0 && len(inconclusive) > 0 {
		for _, w := range inconclusive {
			fmt.Printf("INCONCLUSIVE property=%s %s\n", id, trunc(w, 400))
		}
		code = 2
	}

	// evidence
	if ck.Assumptions == nil {
		ck.Assumptions = []string{"the reference model (DESIGN.md Appendix A) transcribes the property statement correctly", "cosmos-sdk baseapp, x/bank and the fiat-token-factory keeper behave as in production"}
	}
	ev := map[string]interface{}{
		"property_id": id, "tier": tier, "seed": seed, "level": ck.Level, "wall_s": time.Since(start).Seconds(),
		"violations": len(own), "assumptions": ck.Assumptions,
	}
	cov := map[string]interface{}{
		"evaluations": merged.Evaluations, "distinct_nontrivial": len(merged.distinct), "rule": ck.Rule,
		"samples": merged.Samples, "assertions": merged.Assertions, "dontcare": merged.DontCare,
		"shards": len(jobs), "known_findings_hit": sortedKeys(knownHit), "inconclusive": inconclusive,
	}
	for m, cells := range merged.Matrix {
		cov["matrix_"+m] = cells
	}
	for k, v := range merged.Extra {
		cov[k] = v
	}
	if len(merged.Notes) > 0 {
		nn := merged.Notes
		if len(nn) > 40 {
			nn = nn[:40]
		}
		cov["notes"] = nn
	}
	if merged.Samples == nil {
		cov["samples"] = []interface{}{}
	}
	if cd := os.Getenv("VERIF_COVERDIR"); cd != "" {
		if hc := coverageSummary(cd); hc != nil {
			cov["handler_coverage"] = hc
		}
	}
	ev["coverage"] = cov
	if replaySig == "" && onlyShard < 0 {
		ej, _ := json.MarshalIndent(ev, "", " ")
		os.MkdirAll(filepath.Join(root, "evidence"), 0o755)
		_ = os.WriteFile(filepath.Join(root, "evidence", id+".json"), ej, 0o644)
	}
	verdict := map[int]string{0: "HELD on what was observed", 1: "VIOLATED", 2: "INCONCLUSIVE"}[code]
	fmt.Printf("%s tier=%s seed=%d: %s — evaluations=%d distinct=%d dontcare=%d shards=%d wall=%.1fs\n", id, tier, seed, verdict,
		merged.Evaluations, len(merged.distinct), merged.DontCare, len(jobs), time.Since(start).Seconds())
	return code
}

func sortedKeys(m map[string]bool) []string {
	out := make([]string, 0, len(m))
	for k := range m {
		out = append(out, k)
	}
	sort.Strings(out)
	return out
}

func firstWords(s string, n int) string {
	f := strings.Fields(s)
	if len(f) > n {
		f = f[:n]
	}
	return strings.Join(f, " ")
}

func trunc(s string, n int) string {
	if len(s) > n {
		return s[:n] + "…"
	}
	return s
}

func newRand(seed int64) *rand.Rand { return rand.New(rand.NewSource(seed)) }

func subMode() string { return os.Getenv("VERIF_SUBMODE") }

// coverageSummary merges the children's Go cover profiles and summarises statement coverage of
// the module under test (evidence of reach only; never a verdict).
func coverageSummary(dir string) map[string]interface{} {
	files, _ := filepath.Glob(filepath.Join(dir, "*.cov"))
	if len(files) == 0 {
		return nil
	}
	type blk struct {
		stmts int
		hit   bool
	}
	blocks := map[string]*blk{}
	for _, f := range files {
		bz, err := os.ReadFile(f)
		if err != nil {
			continue
		}
		for _, line := range strings.Split(string(bz), "\n") {
			if !strings.Contains(line, "noble-cctp/x/cctp/") || strings.Contains(line, ".pb.") {
				continue
			}
			parts := strings.Fields(line)
			if len(parts) != 3 {
				continue
			}
			n, _ := strconv.Atoi(parts[1])
			c, _ := strconv.Atoi(parts[2])
			b := blocks[parts[0]]
			if b == nil {
				b = &blk{stmts: n}
				blocks[parts[0]] = b
			}
			if c > 0 {
				b.hit = true
			}
		}
	}
	per := map[string][2]int{}
	var uncovered []string
	tot, cov := 0, 0
	for k, b := range blocks {
		file := k[:strings.Index(k, ":")]
		file = file[strings.Index(file, "x/cctp/"):]
		v := per[file]
		v[1] += b.stmts
		tot += b.stmts
		if b.hit {
			v[0] += b.stmts
			cov += b.stmts
		} else if strings.Contains(file, "keeper/") || strings.HasSuffix(file, "genesis.go") || strings.Contains(file, "types/message") || strings.Contains(file, "types/burn") {
			uncovered = append(uncovered, k[strings.Index(k, "x/cctp/"):])
		}
		per[file] = v
	}
	sort.Strings(uncovered)
	if len(uncovered) > 60 {
		uncovered = append(uncovered[:60], fmt.Sprintf("… %d more", len(uncovered)-60))
	}
	perOut := map[string]string{}
	for f, v := range per {
		if v[0] != v[1] && (strings.Contains(f, "keeper/") || strings.Contains(f, "genesis") || strings.Contains(f, "types/")) {
			perOut[f] = fmt.Sprintf("%d/%d", v[0], v[1])
		}
	}
	return map[string]interface{}{"statements_total": tot, "statements_covered": cov, "files_not_fully_covered": perOut, "uncovered_blocks": uncovered,
		"note": "statement coverage of github.com/circlefin/noble-cctp/x/cctp (generated .pb files excluded) reached by this run's workloads"}
}

// raceKey: the pair of outermost module (or first) frames of a race report, line numbers stripped.
func raceKey(blk string) string {
	var fr []string
	for _, line := range strings.Split(blk, "\n") {
		l := strings.TrimSpace(line)
		if strings.Contains(l, "(") && !strings.HasPrefix(l, "/") && (strings.Contains(l, "noble-cctp/x/cctp") || len(fr) == 0) {
			if i := strings.Index(l, "("); i > 0 {
				l = l[:i]
			}
			fr = append(fr, l)
		}
		if len(fr) >= 2 {
			break
		}
	}
	return strings.Join(fr, "|")
}
