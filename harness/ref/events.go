package ref

import (
	"encoding/base64"
	"encoding/json"
	"fmt"
	"math/big"
	"strconv"
)

// Event is one ABCI event with its attributes kept as the raw strings the node emitted.
type Event struct {
	Type  string
	Attrs map[string]string
	Order []string
}

// NewEvent builds an Event from (key, value) pairs; a duplicated key is an error.
func NewEvent(typ string, kv [][2]string) (*Event, error) {
	e := &Event{Type: typ, Attrs: map[string]string{}}
	for _, p := range kv {
		if _, dup := e.Attrs[p[0]]; dup {
			return nil, fmt.Errorf("event %s: duplicated attribute %s", typ, p[0])
		}
		e.Attrs[p[0]] = p[1]
		e.Order = append(e.Order, p[0])
	}
	return e, nil
}

func (e *Event) raw(k string) (string, error) {
	v, ok := e.Attrs[k]
	if !ok {
		return "", fmt.Errorf("event %s: attribute %s missing", e.Type, k)
	}
	return v, nil
}

// Bytes decodes a protobuf-JSON bytes attribute (base64 JSON string; "" = empty).
func (e *Event) Bytes(k string) ([]byte, error) {
	v, err := e.raw(k)
	if err != nil {
		return nil, err
	}
	var s string
	if err := json.Unmarshal([]byte(v), &s); err != nil {
		return nil, fmt.Errorf("event %s.%s: not a JSON string: %q", e.Type, k, v)
	}
	b, err := base64.StdEncoding.DecodeString(s)
	if err != nil {
		return nil, fmt.Errorf("event %s.%s: not base64: %q", e.Type, k, s)
	}
	return b, nil
}

// Str decodes a JSON string attribute.
func (e *Event) Str(k string) (string, error) {
	v, err := e.raw(k)
	if err != nil {
		return "", err
	}
	var s string
	if err := json.Unmarshal([]byte(v), &s); err != nil {
		return "", fmt.Errorf("event %s.%s: not a JSON string: %q", e.Type, k, v)
	}
	return s, nil
}

// Uint decodes an unsigned integer attribute, quoted (uint64, math.Int) or bare (uint32).
func (e *Event) Uint(k string) (*big.Int, error) {
	v, err := e.raw(k)
	if err != nil {
		return nil, err
	}
	s := v
	if len(v) > 0 && v[0] == '"' {
		if err := json.Unmarshal([]byte(v), &s); err != nil {
			return nil, fmt.Errorf("event %s.%s: bad quoted number %q", e.Type, k, v)
		}
	}
	n, ok := new(big.Int).SetString(s, 10)
	if !ok {
		return nil, fmt.Errorf("event %s.%s: not a decimal: %q", e.Type, k, v)
	}
	return n, nil
}

func (e *Event) Uint64(k string) (uint64, error) {
	n, err := e.Uint(k)
	if err != nil {
		return 0, err
	}
	if !n.IsUint64() {
		return 0, fmt.Errorf("event %s.%s: out of uint64 range: %s", e.Type, k, n)
	}
	return n.Uint64(), nil
}

func (e *Event) Bool(k string) (bool, error) {
	v, err := e.raw(k)
	if err != nil {
		return false, err
	}
	return strconv.ParseBool(v)
}
