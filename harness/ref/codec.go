// Package ref holds the independent reference artefacts: wire codec (written from
// Circle's CCTP message-format specification with literal offsets), attestation
// oracles (decred pure-Go secp256k1; the code under test uses go-ethereum's cgo
// libsecp256k1), and an ABCI typed-event decoder. Nothing here imports x/cctp.
package ref

import (
	"encoding/binary"
	"errors"
	"math/big"

	"golang.org/x/crypto/sha3"
)

// Keccak256 (legacy Keccak, as used by Ethereum).
func Keccak256(data ...[]byte) []byte {
	h := sha3.NewLegacyKeccak256()
	for _, d := range data {
		h.Write(d)
	}
	return h.Sum(nil)
}

// Message is a CCTP message header + body.
//
//	offset 0   uint32  version
//	offset 4   uint32  source domain
//	offset 8   uint32  destination domain
//	offset 12  uint64  nonce
//	offset 20  bytes32 sender
//	offset 52  bytes32 recipient
//	offset 84  bytes32 destination caller
//	offset 116 bytes   body
type Message struct {
	Version   uint32
	SrcDomain uint32
	DstDomain uint32
	Nonce     uint64
	Sender    []byte
	Recipient []byte
	Caller    []byte
	Body      []byte
}

var ErrShort = errors.New("ref: message shorter than 116 bytes")
var ErrField = errors.New("ref: field is not 32 bytes")
var ErrBurnLen = errors.New("ref: burn message is not 132 bytes")
var ErrAmount = errors.New("ref: amount out of [0, 2^256)")

func DecodeMessage(b []byte) (*Message, error) {
	if len(b) < 116 {
		return nil, ErrShort
	}
	return &Message{
		Version:   binary.BigEndian.Uint32(b[0:4]),
		SrcDomain: binary.BigEndian.Uint32(b[4:8]),
		DstDomain: binary.BigEndian.Uint32(b[8:12]),
		Nonce:     binary.BigEndian.Uint64(b[12:20]),
		Sender:    b[20:52],
		Recipient: b[52:84],
		Caller:    b[84:116],
		Body:      b[116:],
	}, nil
}

func EncodeMessage(m *Message) ([]byte, error) {
	if len(m.Sender) != 32 || len(m.Recipient) != 32 || len(m.Caller) != 32 {
		return nil, ErrField
	}
	out := make([]byte, 0, 116+len(m.Body))
	out = binary.BigEndian.AppendUint32(out, m.Version)
	out = binary.BigEndian.AppendUint32(out, m.SrcDomain)
	out = binary.BigEndian.AppendUint32(out, m.DstDomain)
	out = binary.BigEndian.AppendUint64(out, m.Nonce)
	out = append(out, m.Sender...)
	out = append(out, m.Recipient...)
	out = append(out, m.Caller...)
	out = append(out, m.Body...)
	return out, nil
}

// BurnMessage is the 132-byte token-messenger body.
//
//	offset 0   uint32  version
//	offset 4   bytes32 burn token
//	offset 36  bytes32 mint recipient
//	offset 68  uint256 amount
//	offset 100 bytes32 message sender
type BurnMessage struct {
	Version       uint32
	BurnToken     []byte
	MintRecipient []byte
	Amount        *big.Int
	Sender        []byte
}

func DecodeBurn(b []byte) (*BurnMessage, error) {
	if len(b) != 132 {
		return nil, ErrBurnLen
	}
	return &BurnMessage{
		Version:       binary.BigEndian.Uint32(b[0:4]),
		BurnToken:     b[4:36],
		MintRecipient: b[36:68],
		Amount:        new(big.Int).SetBytes(b[68:100]),
		Sender:        b[100:132],
	}, nil
}

func EncodeBurn(m *BurnMessage) ([]byte, error) {
	if len(m.BurnToken) != 32 || len(m.MintRecipient) != 32 || len(m.Sender) != 32 {
		return nil, ErrField
	}
	if m.Amount == nil || m.Amount.Sign() < 0 || m.Amount.BitLen() > 256 {
		return nil, ErrAmount
	}
	out := make([]byte, 0, 132)
	out = binary.BigEndian.AppendUint32(out, m.Version)
	out = append(out, m.BurnToken...)
	out = append(out, m.MintRecipient...)
	var amt [32]byte
	m.Amount.FillBytes(amt[:])
	out = append(out, amt[:]...)
	out = append(out, m.Sender...)
	return out, nil
}

// Pad32 left-pads b to 32 bytes; longer inputs keep their first 32 bytes (how values that are not 20-byte addresses
// are named in a 32-byte field is fixed by no statement: callers treat such content as don't-care).
func Pad32(b []byte) []byte {
	out := make([]byte, 32)
	if len(b) > 32 {
		copy(out, b[:32])
		return out
	}
	copy(out[32-len(b):], b)
	return out
}

func IsZero(b []byte) bool {
	for _, x := range b {
		if x != 0 {
			return false
		}
	}
	return true
}
