package ref

import (
	"bytes"
	"testing"
)

func TestAttestBasics(t *testing.T) {
	keys := KeyPool(5)
	msg := []byte("hello")
	var en [][]byte
	for _, k := range keys[:4] {
		en = append(en, k.Pub)
	}
	att := HonestAttestation(msg, keys[:3], 2)
	if !ExactAccept(msg, att, en, 3) {
		t.Fatal("honest rejected")
	}
	if SoundSigners(msg, att, en) != 3 {
		t.Fatal("sound count")
	}
	tw := append([]byte(nil), att...)
	copy(tw[65:130], HighSTwin(att[0:65]))
	if ExactAccept(msg, tw, en, 3) {
		t.Fatal("twin accepted")
	}
	if SoundSigners(msg, tw, en) != 2 {
		t.Fatalf("twin sound count %d", SoundSigners(msg, tw, en))
	}
	p, ok := recoverChunk(HighSTwin(att[0:65]), Keccak256(msg))
	p0, _ := recoverChunk(att[0:65], Keccak256(msg))
	if !ok || !bytes.Equal(p, p0) {
		t.Fatal("twin recovers differently")
	}
}
