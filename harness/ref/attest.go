package ref

import (
	"bytes"
	"crypto/sha256"
	"encoding/hex"
	"fmt"
	"math/big"
	"sort"
	"strings"

	"github.com/decred/dcrd/dcrec/secp256k1/v4"
	"github.com/decred/dcrd/dcrec/secp256k1/v4/ecdsa"
)

// Key is one deterministic attester key of the pool.
type Key struct {
	Idx  int
	Priv *secp256k1.PrivateKey
	Pub  []byte // 65-byte uncompressed
	Addr []byte // 20-byte Ethereum-style address
}

// KeyPool returns n deterministic keys.
func KeyPool(n int) []*Key {
	out := make([]*Key, n)
	for i := range out {
		seed := sha256.Sum256([]byte(fmt.Sprintf("verif/attester/%d", i)))
		priv := secp256k1.PrivKeyFromBytes(seed[:])
		pub := priv.PubKey().SerializeUncompressed()
		out[i] = &Key{Idx: i, Priv: priv, Pub: pub, Addr: Keccak256(pub[1:])[12:]}
	}
	return out
}

// Spell renders the public key in one of the accepted hex spellings.
func (k *Key) Spell(style int) string {
	h := hex.EncodeToString(k.Pub)
	switch style % 4 {
	case 0:
		return h
	case 1:
		return "0x" + h
	case 2:
		return strings.ToUpper(h)
	default:
		return "0X" + strings.ToUpper(h)
	}
}

// Sign returns the 65-byte r|s|v signature (v in {0,1}) over keccak256(msg).
func (k *Key) Sign(msg []byte) []byte {
	return k.SignDigest(Keccak256(msg))
}

func (k *Key) SignDigest(digest []byte) []byte {
	c := ecdsa.SignCompact(k.Priv, digest, false)
	out := make([]byte, 65)
	copy(out[0:64], c[1:65])
	out[64] = c[0] - 27
	return out
}

var curveN = secp256k1.S256().N

// HighSTwin returns the malleated twin (r, n-s, v^1) of a 65-byte signature.
func HighSTwin(sig []byte) []byte {
	out := append([]byte(nil), sig...)
	s := new(big.Int).SetBytes(sig[32:64])
	s.Sub(curveN, s)
	s.FillBytes(out[32:64])
	switch out[64] {
	case 0, 1:
		out[64] ^= 1
	case 27:
		out[64] = 28
	case 28:
		out[64] = 27
	}
	return out
}

// SortByAddr orders keys by increasing Ethereum address.
func SortByAddr(keys []*Key) []*Key {
	out := append([]*Key(nil), keys...)
	sort.Slice(out, func(i, j int) bool { return bytes.Compare(out[i].Addr, out[j].Addr) < 0 })
	return out
}

// HonestAttestation concatenates signatures of the given signers in address order;
// vstyle: 0 -> v in {0,1}; 1 -> v in {27,28}; 2 -> alternate, starting with {0,1}; 3 -> alternate, starting with {27,28}.
func HonestAttestation(msg []byte, signers []*Key, vstyle int) []byte {
	var out []byte
	for i, k := range SortByAddr(signers) {
		s := k.Sign(msg)
		if vstyle == 1 || (vstyle == 2 && i%2 == 1) || (vstyle == 3 && i%2 == 0) {
			s[64] += 27
		}
		out = append(out, s...)
	}
	return out
}

// ParseAttesterString decodes an attester string the way the property reads it: an
// optional 0x/0X prefix followed by exactly 130 hex digits. ok=false for anything else.
func ParseAttesterString(s string) ([]byte, bool) {
	if len(s) >= 2 && s[0] == '0' && (s[1] == 'x' || s[1] == 'X') {
		s = s[2:]
	}
	if len(s) != 130 {
		return nil, false
	}
	b, err := hex.DecodeString(s)
	if err != nil {
		return nil, false
	}
	return b, true
}

// recoverChunk recovers the uncompressed public key of one 65-byte chunk over digest.
func recoverChunk(chunk, digest []byte) ([]byte, bool) {
	v := chunk[64]
	if v == 27 || v == 28 {
		v -= 27
	}
	if v > 3 {
		return nil, false
	}
	c := make([]byte, 65)
	c[0] = 27 + v
	copy(c[1:], chunk[:64])
	pub, _, err := ecdsa.RecoverCompact(c, digest)
	if err != nil {
		return nil, false
	}
	return pub.SerializeUncompressed(), true
}

// ExactAccept is the iff oracle of C01.
//
//	accept <=> len(att) = 65*t, t >= 1, every chunk recovers to an enabled key,
//	           signer addresses strictly increase.
func ExactAccept(msg, att []byte, enabled [][]byte, t uint32) bool {
	if t == 0 || uint64(len(att)) != 65*uint64(t) {
		return false
	}
	digest := Keccak256(msg)
	var last []byte
	for i := 0; i < int(t); i++ {
		pub, ok := recoverChunk(att[i*65:(i+1)*65], digest)
		if !ok {
			return false
		}
		in := false
		for _, e := range enabled {
			if bytes.Equal(e, pub) {
				in = true
				break
			}
		}
		if !in {
			return false
		}
		addr := Keccak256(pub[1:])[12:]
		if last != nil && bytes.Compare(last, addr) >= 0 {
			return false
		}
		last = addr
	}
	return true
}

// SoundSigners counts the distinct enabled keys K for which plain ECDSA verification
// Verify(K, keccak(msg), r, s) holds for at least one 65-byte-aligned chunk of att. It
// uses no recovery code at all. C01: accept => SoundSigners >= t.
func SoundSigners(msg, att []byte, enabled [][]byte) int {
	digest := Keccak256(msg)
	seen := map[string]bool{}
	var pubs []*secp256k1.PublicKey
	var raws []string
	for _, e := range enabled {
		if seen[string(e)] {
			continue
		}
		seen[string(e)] = true
		p, err := secp256k1.ParsePubKey(e)
		if err != nil {
			continue
		}
		pubs = append(pubs, p)
		raws = append(raws, string(e))
	}
	ok := map[string]bool{}
	for off := 0; off+65 <= len(att); off += 65 {
		var r, s secp256k1.ModNScalar
		if r.SetByteSlice(att[off:off+32]) || s.SetByteSlice(att[off+32:off+64]) {
			continue
		}
		if r.IsZero() || s.IsZero() {
			continue
		}
		sig := ecdsa.NewSignature(&r, &s)
		for i, p := range pubs {
			if !ok[raws[i]] && sig.Verify(digest, p) {
				ok[raws[i]] = true
			}
		}
	}
	return len(ok)
}

// NegatePub returns the uncompressed encoding of -P (same X, Y' = p - Y): a different valid key.
func NegatePub(pub []byte) []byte {
	out := append([]byte(nil), pub...)
	y := new(big.Int).SetBytes(pub[33:65])
	y.Sub(secp256k1.S256().P, y)
	y.FillBytes(out[33:65])
	return out
}

// TextLikeNonces: ECDSA nonces k for which the x coordinate of k*G (the r word of the signature) begins with
// bytes that a content-sniffing reader takes for text: "0X", "0x", `{"`, `["` (found once by search, k = 1, 2, 3, ...).
var TextLikeNonces = []int64{26371, 33734, 37220, 69713}

// SignDigestWithK signs digest with the explicit nonce k: a perfectly valid signature of this key whose r word is
// the x coordinate of k*G. Low-s form, v in {0,1}.
func (k *Key) SignDigestWithK(digest []byte, nonce int64) []byte {
	c := secp256k1.S256()
	kk := big.NewInt(nonce)
	x, y := c.ScalarBaseMult(kk.Bytes())
	r := new(big.Int).Mod(x, curveN)
	d := new(big.Int).SetBytes(k.Priv.Serialize())
	z := new(big.Int).SetBytes(digest)
	s := new(big.Int).Mul(r, d)
	s.Add(s, z)
	s.Mul(s, new(big.Int).ModInverse(kk, curveN))
	s.Mod(s, curveN)
	v := byte(y.Bit(0))
	half := new(big.Int).Rsh(curveN, 1)
	if s.Cmp(half) > 0 {
		s.Sub(curveN, s)
		v ^= 1
	}
	out := make([]byte, 65)
	r.FillBytes(out[0:32])
	s.FillBytes(out[32:64])
	out[64] = v
	return out
}
