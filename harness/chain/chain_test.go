package chain

import (
	sdkmath "cosmossdk.io/math"
	"math/big"
	"testing"

	cctptypes "github.com/circlefin/noble-cctp/x/cctp/types"
	sdk "github.com/cosmos/cosmos-sdk/types"
)

func TestSmoke(t *testing.T) {
	SetPrefix("noble")
	owner := sdk.AccAddress(make([]byte, 20))
	owner[19] = 1
	gs := cctptypes.DefaultGenesis()
	gs.Owner = owner.String()
	gs.AttesterManager = owner.String()
	gs.Pauser = owner.String()
	gs.TokenController = owner.String()
	gs.TokenMessengerList = []cctptypes.RemoteTokenMessenger{{DomainId: 0, Address: append(make([]byte, 31), 7)}}
	c, err := New(Config{Genesis: gs, Funded: map[string]*big.Int{owner.String(): big.NewInt(1000)}, Allowance: big.NewInt(1 << 40)})
	if err != nil {
		t.Fatal(err)
	}
	tx, err := c.BuildTx(&cctptypes.MsgDepositForBurn{From: owner.String(), Amount: sdkmathInt(10), DestinationDomain: 0, MintRecipient: append(make([]byte, 31), 9), BurnToken: "uusdc"})
	if err != nil {
		t.Fatal(err)
	}
	c.Store.Phase = "tx"
	res, err := c.DeliverBlock([][]byte{tx})
	if err != nil {
		t.Fatal(err)
	}
	t.Logf("code=%d log=%s events=%d", res[0].Code, res[0].Log, len(res[0].Events))
	for _, e := range res[0].Events {
		t.Logf("ev %s", e.Type)
		for _, a := range e.Attributes {
			t.Logf("   %s=%s", a.Key, a.Value)
		}
	}
	t.Logf("deps=%+v", c.Deps.Log)
	t.Logf("ops=%d bal=%s sup=%s", len(c.Store.Ops), c.Balance(owner, "uusdc"), c.Supply("uusdc"))
	var r cctptypes.QueryRolesResponse
	if err := c.Query("Roles", &cctptypes.QueryRolesRequest{}, &r); err != nil {
		t.Fatal(err)
	}
	t.Logf("roles=%+v", r)
	c2, err := c.Restart()
	if err != nil {
		t.Fatal(err)
	}
	t.Logf("restart h=%d hash=%x vs %x", c2.Height, c2.AppHash, c.AppHash)
}

func sdkmathInt(v int64) sdkmath.Int { return sdkmath.NewInt(v) }
