// Package chain wires a real mini-chain around the x/cctp module under test:
// cosmos-sdk baseapp + x/auth + x/bank + the real noble-fiattokenfactory keeper + x/cctp,
// IAVL stores on a MemDB, transactions delivered through FinalizeBlock/Commit and
// queries through BaseApp.Query. Probes are interposed at the keeper's constructor
// arguments (store service, bank, fiat-token-factory); no source hooks are needed.
package chain

import (
	"bytes"
	"context"
	"crypto/sha256"
	"fmt"
	"math/big"
	"sort"

	"cosmossdk.io/log"
	sdkmath "cosmossdk.io/math"
	storetypes "cosmossdk.io/store/types"
	"cosmossdk.io/x/tx/signing"
	abci "github.com/cometbft/cometbft/abci/types"
	cmtproto "github.com/cometbft/cometbft/proto/tendermint/types"
	dbm "github.com/cosmos/cosmos-db"
	"github.com/cosmos/cosmos-sdk/baseapp"
	"github.com/cosmos/cosmos-sdk/client"
	"github.com/cosmos/cosmos-sdk/codec"
	"github.com/cosmos/cosmos-sdk/codec/address"
	codectypes "github.com/cosmos/cosmos-sdk/codec/types"
	"github.com/cosmos/cosmos-sdk/runtime"
	"github.com/cosmos/cosmos-sdk/std"
	sdk "github.com/cosmos/cosmos-sdk/types"
	"github.com/cosmos/cosmos-sdk/types/module"
	txtypes "github.com/cosmos/cosmos-sdk/types/tx"
	authkeeper "github.com/cosmos/cosmos-sdk/x/auth/keeper"
	authtx "github.com/cosmos/cosmos-sdk/x/auth/tx"
	authtypes "github.com/cosmos/cosmos-sdk/x/auth/types"
	bankkeeper "github.com/cosmos/cosmos-sdk/x/bank/keeper"
	banktypes "github.com/cosmos/cosmos-sdk/x/bank/types"
	"github.com/cosmos/gogoproto/proto"

	"github.com/circlefin/noble-cctp/x/cctp"
	cctpkeeper "github.com/circlefin/noble-cctp/x/cctp/keeper"
	cctptypes "github.com/circlefin/noble-cctp/x/cctp/types"
	ftfkeeper "github.com/circlefin/noble-fiattokenfactory/x/fiattokenfactory/keeper"
	ftftypes "github.com/circlefin/noble-fiattokenfactory/x/fiattokenfactory/types"
)

const MintDenom = "uusdc" // default minting denom

// Config describes one chain instance.
type Config struct {
	Prefix    string                  // bech32 account prefix (process-global in the SDK; must match SetPrefix)
	Genesis   *cctptypes.GenesisState // cctp genesis handed to InitGenesis (nil: default)
	Funded    map[string]*big.Int     // bech32 address -> uusdc balance
	Allowance *big.Int                // cctp module's minter allowance at the fiat-token-factory
	// GenesisJSON: when set, the module is initialised the way a node does it - through AppModule.InitGenesis with
	// these raw JSON bytes - instead of from the Genesis struct.
	GenesisJSON []byte
	// BankBlocked: bech32 addresses the bank refuses to pay out to (its blocked-address list).
	BankBlocked []string
	// FundedOther: balances in denoms other than the minting denom (look-alike spellings such as "UUSDC"):
	// denom -> bech32 address -> amount.
	FundedOther map[string]map[string]*big.Int
	Double      bool // use the ledger double instead of the real bank+FTF
	Fold        bool // double only: denom comparison is case-insensitive
	FTFPaused   bool
	// Blacklisted raw 20-byte addresses at the FTF.
	Blacklisted [][]byte
	MintDenom   string // fiat-token-factory minting denom (default "uusdc")
	DB          dbm.DB // nil: fresh MemDB
	Yield       func() // called at every cctp store access (C18 interleaving widening); may be nil
	SkipInit    bool   // re-open an existing DB (restart)
	// InitialHeight (0 = 1) and Header vary what a block carries besides its transactions (height, time,
	// proposer): none of it may influence the module.
	InitialHeight int64
	Header        func(req *abci.RequestFinalizeBlock)
	// ExtraUUSDC: optional additional supply headroom accounts etc. (unused)
}

// Chain is a running instance.
type Chain struct {
	Cfg      Config
	App      *baseapp.BaseApp
	Cdc      codec.Codec
	Registry codectypes.InterfaceRegistry
	TxCfg    client.TxConfig
	Keeper   *cctpkeeper.Keeper
	Bank     bankkeeper.BaseKeeper
	FTF      *ftfkeeper.Keeper
	Auth     authkeeper.AccountKeeper
	Ledger   *LedgerDouble
	Store    *StoreProbe
	Deps     *DepProbe
	Keys     map[string]*storetypes.KVStoreKey
	// LastExportPanic: text of a panic recovered while exporting this chain's genesis (set by the state tap).
	LastExportPanic string
	DB              dbm.DB
	Height          int64
	AppHash         []byte
	initErr         interface{}
}

var prefixSet string

// SetPrefix configures the process-global SDK bech32 prefix (once per process).
func SetPrefix(p string) {
	if prefixSet == p {
		return
	}
	if prefixSet != "" {
		panic("bech32 prefix already set to " + prefixSet)
	}
	cfg := sdk.GetConfig()
	cfg.SetBech32PrefixForAccount(p, p+"pub")
	cfg.SetBech32PrefixForValidator(p+"valoper", p+"valoperpub")
	cfg.SetBech32PrefixForConsensusNode(p+"valcons", p+"valconspub")
	prefixSet = p
}

func Prefix() string { return prefixSet }

var storeNames = []string{authtypes.StoreKey, banktypes.StoreKey, ftftypes.StoreKey, cctptypes.StoreKey, "ledgerdouble"}

// New builds, initialises (unless SkipInit) and commits block 1 of a chain.
func New(cfg Config) (c *Chain, err error) {
	if cfg.Prefix == "" {
		cfg.Prefix = prefixSet
	}
	if cfg.MintDenom == "" {
		cfg.MintDenom = MintDenom
	}
	if cfg.Prefix != prefixSet {
		return nil, fmt.Errorf("prefix %q differs from process prefix %q", cfg.Prefix, prefixSet)
	}
	c = &Chain{Cfg: cfg}
	c.DB = cfg.DB
	if c.DB == nil {
		c.DB = dbm.NewMemDB()
	}
	reg, err := codectypes.NewInterfaceRegistryWithOptions(codectypes.InterfaceRegistryOptions{
		ProtoFiles: proto.HybridResolver,
		SigningOptions: signing.Options{
			AddressCodec:          address.Bech32Codec{Bech32Prefix: cfg.Prefix},
			ValidatorAddressCodec: address.Bech32Codec{Bech32Prefix: cfg.Prefix + "valoper"},
		},
	})
	if err != nil {
		return nil, err
	}
	std.RegisterInterfaces(reg)
	authtypes.RegisterInterfaces(reg)
	banktypes.RegisterInterfaces(reg)
	ftftypes.RegisterInterfaces(reg)
	cctptypes.RegisterInterfaces(reg)
	c.Registry = reg
	c.Cdc = codec.NewProtoCodec(reg)
	c.TxCfg = authtx.NewTxConfig(c.Cdc, authtx.DefaultSignModes)

	logger := log.NewNopLogger()
	app := baseapp.NewBaseApp("cctpsim", logger, c.DB, c.TxCfg.TxDecoder(), baseapp.SetChainID("cctpsim-1"))
	app.SetInterfaceRegistry(reg)
	app.SetTxEncoder(c.TxCfg.TxEncoder())
	c.App = app

	c.Keys = map[string]*storetypes.KVStoreKey{}
	for _, n := range storeNames {
		c.Keys[n] = storetypes.NewKVStoreKey(n)
	}
	app.MountKVStores(c.Keys)

	maccPerms := map[string][]string{
		ftftypes.ModuleName:  {authtypes.Minter, authtypes.Burner},
		cctptypes.ModuleName: nil,
	}
	authority := authtypes.NewModuleAddress("gov").String()
	c.Auth = authkeeper.NewAccountKeeper(c.Cdc, runtime.NewKVStoreService(c.Keys[authtypes.StoreKey]),
		authtypes.ProtoBaseAccount, maccPerms, address.Bech32Codec{Bech32Prefix: cfg.Prefix}, cfg.Prefix, authority)
	blocked := map[string]bool{}
	for _, a := range cfg.BankBlocked {
		blocked[a] = true
	}
	c.Bank = bankkeeper.NewBaseKeeper(c.Cdc, runtime.NewKVStoreService(c.Keys[banktypes.StoreKey]), c.Auth,
		blocked, authority, logger)
	c.FTF = ftfkeeper.NewKeeper(c.Cdc, logger, runtime.NewKVStoreService(c.Keys[ftftypes.StoreKey]), c.Bank)
	c.Bank.AppendSendRestriction(c.FTF.SendRestrictionFn)

	c.Store = NewStoreProbe(runtime.NewKVStoreService(c.Keys[cctptypes.StoreKey]))
	c.Store.Yield = cfg.Yield
	c.Deps = &DepProbe{}
	var bankDep cctptypes.BankKeeper
	var ftfDep cctptypes.FiatTokenfactoryKeeper
	if cfg.Double {
		c.Ledger = NewLedgerDouble(runtime.NewKVStoreService(c.Keys["ledgerdouble"]), cfg.Fold)
		c.Ledger.MintingDenom = cfg.MintDenom
		bankDep, ftfDep = c.Ledger, c.Ledger
	} else {
		bankDep, ftfDep = c.Bank, c.FTF
	}
	c.Deps.bank, c.Deps.ftf = bankDep, ftfDep
	c.Keeper = cctpkeeper.NewKeeper(c.Cdc, logger, c.Store, bankProbe{c.Deps}, ftfProbe{c.Deps})

	cfgr := module.NewConfigurator(c.Cdc, app.MsgServiceRouter(), app.GRPCQueryRouter())
	cctp.NewAppModule(c.Keeper).RegisterServices(cfgr)
	if err := cfgr.Error(); err != nil {
		return nil, err
	}

	app.SetInitChainer(func(ctx sdk.Context, req *abci.RequestInitChain) (*abci.ResponseInitChain, error) {
		c.initGenesis(ctx)
		return &abci.ResponseInitChain{}, nil
	})
	if err := app.LoadLatestVersion(); err != nil {
		return nil, err
	}
	if cfg.SkipInit {
		c.Height = app.LastBlockHeight()
		c.AppHash = app.LastCommitID().Hash
		return c, nil
	}
	defer func() {
		if r := recover(); r != nil {
			err = fmt.Errorf("init panic: %v", r)
			c = nil
		}
	}()
	ih := cfg.InitialHeight
	if ih <= 0 {
		ih = 1
	}
	if _, err := app.InitChain(&abci.RequestInitChain{ChainId: "cctpsim-1", InitialHeight: ih}); err != nil {
		return nil, err
	}
	if c.initErr != nil {
		return nil, fmt.Errorf("init genesis: %v", c.initErr)
	}
	if _, err := c.DeliverBlock(nil); err != nil {
		return nil, err
	}
	return c, nil
}

// Restart opens a new BaseApp on the same DB (simulates a node restart).
func (c *Chain) Restart() (*Chain, error) {
	cfg := c.Cfg
	cfg.DB = c.DB
	cfg.SkipInit = true
	n, err := New(cfg)
	if err != nil {
		return nil, err
	}
	// keep probe logs independent; caller re-attaches what it needs
	return n, nil
}

func (c *Chain) initGenesis(ctx sdk.Context) {
	cfg := c.Cfg
	if err := c.Auth.Params.Set(ctx, authtypes.DefaultParams()); err != nil {
		panic(err)
	}
	bg := banktypes.DefaultGenesisState()
	bg.DenomMetadata = []banktypes.Metadata{{
		Base: cfg.MintDenom, Display: "usdc", Name: "usdc", Symbol: "USDC",
		DenomUnits: []*banktypes.DenomUnit{{Denom: cfg.MintDenom, Exponent: 0}, {Denom: "usdc", Exponent: 6}},
	}}
	total := new(big.Int)
	if !cfg.Double {
		addrs := make([]string, 0, len(cfg.Funded))
		for a := range cfg.Funded {
			addrs = append(addrs, a)
		}
		sort.Strings(addrs)
		for _, a := range addrs {
			v := cfg.Funded[a]
			if v.Sign() <= 0 {
				continue
			}
			bg.Balances = append(bg.Balances, banktypes.Balance{Address: a, Coins: sdk.NewCoins(sdk.NewCoin(cfg.MintDenom, sdkmath.NewIntFromBigInt(v)))})
			total.Add(total, v)
		}
		if total.Sign() > 0 {
			bg.Supply = sdk.NewCoins(sdk.NewCoin(cfg.MintDenom, sdkmath.NewIntFromBigInt(total)))
		}
		dens := make([]string, 0, len(cfg.FundedOther))
		for d := range cfg.FundedOther {
			dens = append(dens, d)
		}
		sort.Strings(dens)
		for _, d := range dens {
			if d == cfg.MintDenom {
				continue
			}
			as := make([]string, 0, len(cfg.FundedOther[d]))
			for a := range cfg.FundedOther[d] {
				as = append(as, a)
			}
			sort.Strings(as)
			dt := new(big.Int)
			for _, a := range as {
				v := cfg.FundedOther[d][a]
				if v.Sign() <= 0 {
					continue
				}
				coin := sdk.NewCoin(d, sdkmath.NewIntFromBigInt(v))
				found := false
				for i := range bg.Balances {
					if bg.Balances[i].Address == a {
						bg.Balances[i].Coins = bg.Balances[i].Coins.Add(coin)
						found = true
					}
				}
				if !found {
					bg.Balances = append(bg.Balances, banktypes.Balance{Address: a, Coins: sdk.NewCoins(coin)})
				}
				dt.Add(dt, v)
			}
			if dt.Sign() > 0 {
				bg.Supply = bg.Supply.Add(sdk.NewCoin(d, sdkmath.NewIntFromBigInt(dt)))
			}
		}
	}
	// the module accounts exist from genesis (as on the production chain), so that funds sent to their
	// addresses do not end up in plain base accounts
	c.Auth.GetModuleAccount(ctx, cctptypes.ModuleName)
	c.Auth.GetModuleAccount(ctx, ftftypes.ModuleName)
	c.Bank.InitGenesis(ctx, bg)

	// fiat-token-factory genesis by hand (its root package pulls ibc-go through ante.go)
	if _, found := c.Bank.GetDenomMetaData(ctx, cfg.MintDenom); !found {
		panic("denom metadata missing")
	}
	c.FTF.SetMintingDenom(ctx, ftftypes.MintingDenom{Denom: cfg.MintDenom})
	c.FTF.SetPaused(ctx, ftftypes.Paused{Paused: cfg.FTFPaused})
	allow := cfg.Allowance
	if allow == nil {
		allow = new(big.Int)
	}
	if allow.BitLen() > 256 {
		allow = new(big.Int).Sub(new(big.Int).Lsh(big.NewInt(1), 256), big.NewInt(1))
	}
	c.FTF.SetMinters(ctx, ftftypes.Minters{
		Address:   cctptypes.ModuleAddress.String(),
		Allowance: sdk.NewCoin(cfg.MintDenom, sdkmath.NewIntFromBigInt(allow)),
	})
	for _, b := range cfg.Blacklisted {
		c.FTF.SetBlacklisted(ctx, ftftypes.Blacklisted{AddressBz: b})
	}

	if cfg.Double {
		c.Ledger.MintingDenom = cfg.MintDenom
		c.Ledger.Init(ctx, cfg.Funded, cfg.Allowance, cfg.FTFPaused)
		c.Ledger.InitOther(ctx, cfg.FundedOther)
	}

	gs := cfg.Genesis
	if gs == nil {
		gs = cctptypes.DefaultGenesis()
	}
	func() {
		defer func() {
			if r := recover(); r != nil {
				c.initErr = r
			}
		}()
		if cfg.GenesisJSON != nil {
			cctp.NewAppModule(c.Keeper).InitGenesis(ctx, c.Cdc, cfg.GenesisJSON)
			return
		}
		cctp.InitGenesis(ctx, c.Keeper, *gs)
	}()
}

// TxResult is what the result/event tap records for one transaction.
type TxResult struct {
	Code      uint32
	Codespace string
	Log       string
	Data      []byte
	Events    []abci.Event
	TxHash    [32]byte
	GasUsed   int64
}

func (r *TxResult) OK() bool { return r.Code == 0 }

// IsPanic reports whether baseapp recovered a panic while running the tx.
func (r *TxResult) IsPanic() bool { return r.Code == 111222 }

// BuildTx encodes messages into tx bytes (no signatures; the chain has no ante handler).
func (c *Chain) BuildTx(msgs ...sdk.Msg) ([]byte, error) {
	b := c.TxCfg.NewTxBuilder()
	if err := b.SetMsgs(msgs...); err != nil {
		return nil, err
	}
	return c.TxCfg.TxEncoder()(b.GetTx())
}

// BuildRawTx builds tx bytes from raw (type URL, wire bytes) pairs, without going
// through the typed structs (used by the hostile wire-level workloads).
func BuildRawTx(anys ...*codectypes.Any) ([]byte, error) {
	body := &txtypes.TxBody{Messages: anys}
	bz, err := proto.Marshal(body)
	if err != nil {
		return nil, err
	}
	ai, err := proto.Marshal(&txtypes.AuthInfo{Fee: &txtypes.Fee{}})
	if err != nil {
		return nil, err
	}
	raw := &txtypes.TxRaw{BodyBytes: bz, AuthInfoBytes: ai}
	return proto.Marshal(raw)
}

// DeliverBlock executes the given transactions in one block and commits.
func (c *Chain) DeliverBlock(txs [][]byte) ([]TxResult, error) {
	h := c.App.LastBlockHeight() + 1
	c.Store.BeginBlock(h)
	if c.Cfg.InitialHeight > 1 && c.App.LastBlockHeight() == 0 {
		h = c.Cfg.InitialHeight
	}
	req := &abci.RequestFinalizeBlock{Height: h, Txs: txs}
	if c.Cfg.Header != nil {
		c.Cfg.Header(req)
	}
	res, err := c.App.FinalizeBlock(req)
	if err != nil {
		return nil, err
	}
	if _, err := c.App.Commit(); err != nil {
		return nil, err
	}
	c.Height = h
	c.AppHash = append([]byte(nil), res.AppHash...)
	out := make([]TxResult, len(res.TxResults))
	for i, r := range res.TxResults {
		out[i] = TxResult{Code: r.Code, Codespace: r.Codespace, Log: r.Log, Data: r.Data, Events: r.Events, TxHash: sha256.Sum256(txs[i]), GasUsed: r.GasUsed}
	}
	return out, nil
}

// QueryCtx returns a read-only context on the latest committed state.
func (c *Chain) QueryCtx() sdk.Context {
	ctx, err := c.App.CreateQueryContext(0, false)
	if err != nil {
		panic(err)
	}
	return ctx
}

// Query runs a gRPC query through BaseApp.Query (the production route).
func (c *Chain) Query(method string, req proto.Message, resp proto.Message) error {
	bz, err := proto.Marshal(req)
	if err != nil {
		return err
	}
	return c.QueryRaw(method, bz, resp)
}

func (c *Chain) QueryRaw(method string, reqBz []byte, resp proto.Message) error {
	r, err := c.App.Query(context.Background(), &abci.RequestQuery{Path: "/circle.cctp.v1.Query/" + method, Data: reqBz})
	if err != nil {
		return err
	}
	if r.Code != 0 {
		return &QueryError{Code: r.Code, Codespace: r.Codespace, Log: r.Log}
	}
	if resp != nil {
		return proto.Unmarshal(r.Value, resp)
	}
	return nil
}

type QueryError struct {
	Code      uint32
	Codespace string
	Log       string
}

func (e *QueryError) Error() string {
	return fmt.Sprintf("query error %s/%d: %s", e.Codespace, e.Code, e.Log)
}

// KV is one raw store entry.
type KV struct{ K, V []byte }

// Dump returns the committed raw content of a store.
func (c *Chain) Dump(store string) []KV {
	ctx := c.QueryCtx()
	st := ctx.MultiStore().GetKVStore(c.Keys[store])
	it := st.Iterator(nil, nil)
	defer it.Close()
	var out []KV
	for ; it.Valid(); it.Next() {
		out = append(out, KV{append([]byte(nil), it.Key()...), append([]byte(nil), it.Value()...)})
	}
	return out
}

// DumpAll returns a digest-friendly dump of every mounted store.
func (c *Chain) DumpAll() map[string][]KV {
	m := map[string][]KV{}
	for _, n := range storeNames {
		m[n] = c.Dump(n)
	}
	return m
}

// HashDump hashes a full dump (order-preserving).
func HashDump(d map[string][]KV) [32]byte {
	h := sha256.New()
	for _, n := range storeNames {
		h.Write([]byte(n))
		for _, kv := range d[n] {
			var l [8]byte
			big.NewInt(int64(len(kv.K))).FillBytes(l[:])
			h.Write(l[:])
			h.Write(kv.K)
			big.NewInt(int64(len(kv.V))).FillBytes(l[:])
			h.Write(l[:])
			h.Write(kv.V)
		}
	}
	var out [32]byte
	copy(out[:], h.Sum(nil))
	return out
}

// DiffDump lists keys whose value differs between two dumps: "store:hexkey".
func DiffDump(a, b map[string][]KV) []string {
	var out []string
	for _, n := range storeNames {
		ma := map[string][]byte{}
		for _, kv := range a[n] {
			ma[string(kv.K)] = kv.V
		}
		mb := map[string][]byte{}
		for _, kv := range b[n] {
			mb[string(kv.K)] = kv.V
		}
		for k, v := range ma {
			if w, ok := mb[k]; !ok {
				out = append(out, fmt.Sprintf("%s:-%q", n, k))
			} else if !bytes.Equal(v, w) {
				out = append(out, fmt.Sprintf("%s:~%q", n, k))
			}
		}
		for k := range mb {
			if _, ok := ma[k]; !ok {
				out = append(out, fmt.Sprintf("%s:+%q", n, k))
			}
		}
	}
	sort.Strings(out)
	return out
}

// Balance returns the uusdc (or other denom) balance on the committed state.
func (c *Chain) Balance(addr sdk.AccAddress, denom string) *big.Int {
	ctx := c.QueryCtx()
	if c.Cfg.Double {
		return c.Ledger.BalanceOf(ctx, addr, denom)
	}
	return c.Bank.GetBalance(ctx, addr, denom).Amount.BigInt()
}

// Supply returns total supply of denom on committed state.
func (c *Chain) Supply(denom string) *big.Int {
	ctx := c.QueryCtx()
	if c.Cfg.Double {
		return c.Ledger.SupplyOf(ctx, denom)
	}
	return c.Bank.GetSupply(ctx, denom).Amount.BigInt()
}

// Header helper for direct-call contexts.
func (c *Chain) UncachedCtx() sdk.Context {
	return c.App.NewUncachedContext(false, cmtproto.Header{Height: c.Height + 1, ChainID: "cctpsim-1"})
}
