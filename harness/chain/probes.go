package chain

import (
	"context"
	"crypto/sha256"
	"encoding/hex"
	"errors"
	"fmt"
	"math/big"
	"strings"
	"time"

	corestore "cosmossdk.io/core/store"
	sdkerrors "cosmossdk.io/errors"
	sdkmath "cosmossdk.io/math"
	sdk "github.com/cosmos/cosmos-sdk/types"
	sdkerrtypes "github.com/cosmos/cosmos-sdk/types/errors"

	cctptypes "github.com/circlefin/noble-cctp/x/cctp/types"
	ftftypes "github.com/circlefin/noble-fiattokenfactory/x/fiattokenfactory/types"
)

// ---------------------------------------------------------------- store probe

// StoreOp is one recorded write (or read, when RecordReads) on the cctp store.
type StoreOp struct {
	Phase string // "tx", "query", "export", "init", "direct"
	Tx    string // hex sha256 of tx bytes when executed inside a tx, else ""
	Op    byte   // 'S' set, 'D' delete, 'G' get, 'H' has, 'I' iterator, 'R' reverse iterator
	Key   []byte
	Val   []byte
}

// StoreProbe wraps the KVStoreService handed to the cctp keeper.
type StoreProbe struct {
	inner       corestore.KVStoreService
	Phase       string
	RecordReads bool
	Ops         []StoreOp // writes (and reads if RecordReads)
	Reads       int
	Writes      int
	Yield       func()
	height      int64
	Disabled    bool // when true nothing is recorded (used for concurrent read bursts)
}

func NewStoreProbe(inner corestore.KVStoreService) *StoreProbe {
	return &StoreProbe{inner: inner, Phase: "init"}
}

func (p *StoreProbe) BeginBlock(h int64) { p.height = h }

// Reset drops recorded operations.
func (p *StoreProbe) Reset() { p.Ops = p.Ops[:0] }

func txKeyOf(ctx context.Context) string {
	sctx, ok := ctx.(sdk.Context)
	if !ok {
		v := ctx.Value(sdk.SdkContextKey)
		if v == nil {
			return ""
		}
		sctx, ok = v.(sdk.Context)
		if !ok {
			return ""
		}
	}
	tb := sctx.TxBytes()
	if len(tb) == 0 {
		return ""
	}
	h := sha256.Sum256(tb)
	return hex.EncodeToString(h[:])
}

func (p *StoreProbe) OpenKVStore(ctx context.Context) corestore.KVStore {
	return &probedStore{p: p, inner: p.inner.OpenKVStore(ctx), tx: txKeyOf(ctx)}
}

type probedStore struct {
	p     *StoreProbe
	inner corestore.KVStore
	tx    string
}

func (s *probedStore) rec(op byte, k, v []byte) {
	p := s.p
	if p.Yield != nil {
		p.Yield()
	}
	if p.Disabled {
		return
	}
	isWrite := op == 'S' || op == 'D'
	if isWrite {
		p.Writes++
	} else {
		p.Reads++
		if !p.RecordReads {
			return
		}
	}
	p.Ops = append(p.Ops, StoreOp{Phase: p.Phase, Tx: s.tx, Op: op, Key: append([]byte(nil), k...), Val: append([]byte(nil), v...)})
}

func (s *probedStore) Get(key []byte) ([]byte, error) { s.rec('G', key, nil); return s.inner.Get(key) }
func (s *probedStore) Has(key []byte) (bool, error)   { s.rec('H', key, nil); return s.inner.Has(key) }
func (s *probedStore) Set(key, value []byte) error {
	s.rec('S', key, value)
	return s.inner.Set(key, value)
}
func (s *probedStore) Delete(key []byte) error { s.rec('D', key, nil); return s.inner.Delete(key) }
func (s *probedStore) Iterator(start, end []byte) (corestore.Iterator, error) {
	s.rec('I', start, end)
	return s.inner.Iterator(start, end)
}
func (s *probedStore) ReverseIterator(start, end []byte) (corestore.Iterator, error) {
	s.rec('R', start, end)
	return s.inner.ReverseIterator(start, end)
}

// ---------------------------------------------------------------- dependency probe

type FaultKind int

const (
	FaultNone FaultKind = iota
	FaultCleanErr
	FaultErrAfterEffect
	FaultPanic
)

func (f FaultKind) String() string {
	return [...]string{"none", "clean-error", "error-after-effect", "panic"}[f]
}

// DepCall is one request the module made to a dependency.
type DepCall struct {
	Tx       string
	Seq      int    // index among fallible calls within its tx
	Method   string // "Transfer", "Burn", "Mint", "GetMintingDenom", "GetBalance"
	From     string
	To       string
	Denom    string
	Amount   *big.Int
	Err      string // "" when the call returned ok
	Injected FaultKind
}

var ErrInjected = sdkerrors.Register("verifinject", 2, "injected dependency failure")

// DepProbe records and optionally fails the module's dependency calls.
type DepProbe struct {
	bank cctptypes.BankKeeper
	ftf  cctptypes.FiatTokenfactoryKeeper
	Log  []DepCall

	// FaultTx: hex tx hash the fault plan applies to ("*" = every tx); Faults: fallible-call index -> kind.
	FaultTx string
	Delay   time.Duration
	Faults  map[int]FaultKind

	curTx string
	seq   int
	errN  int
}

func (d *DepProbe) Reset() { d.Log = d.Log[:0]; d.curTx = ""; d.seq = 0 }

// injectedErr: the error handed back for an injected failure. Successive injections go through the error classes the
// real dependency uses for that call (the module must treat every class as a failure), ending with a plain error.
func (d *DepProbe) injectedErr(method string) error {
	d.errN++
	var pool []error
	switch method {
	case "Transfer":
		pool = []error{ErrInjected, sdkerrors.Wrap(sdkerrtypes.ErrInsufficientFunds, "injected"), sdkerrors.Wrap(sdkerrtypes.ErrUnauthorized, "injected: blocked"), sdkerrors.Wrap(ftftypes.ErrPaused, "injected")}
	case "Burn":
		pool = []error{ErrInjected, sdkerrors.Wrap(ftftypes.ErrBurn, "injected"), sdkerrors.Wrap(ftftypes.ErrUnauthorized, "injected"), sdkerrors.Wrap(ftftypes.ErrPaused, "injected"), sdkerrors.Wrap(sdkerrtypes.ErrInsufficientFunds, "injected")}
	case "Mint":
		pool = []error{ErrInjected, sdkerrors.Wrap(ftftypes.ErrMint, "injected"), sdkerrors.Wrap(ftftypes.ErrSendCoinsToAccount, "injected"), sdkerrors.Wrap(ftftypes.ErrUnauthorized, "injected"), sdkerrors.Wrap(ftftypes.ErrPaused, "injected"), sdkerrors.Wrap(ftftypes.ErrInvalidCoins, "injected")}
	}
	pool = append(pool, fmt.Errorf("injected plain error"))
	return pool[d.errN%len(pool)]
}

func (d *DepProbe) next(ctx context.Context) (tx string, seq int, fk FaultKind) {
	tx = txKeyOf(ctx)
	if tx != d.curTx {
		d.curTx = tx
		d.seq = 0
	}
	seq = d.seq
	d.seq++
	if d.Delay > 0 { // a slow dependency (a loaded node): the call takes this long, nothing else changes
		time.Sleep(d.Delay)
	}
	if d.Faults != nil && (d.FaultTx == "*" || d.FaultTx == tx) {
		fk = d.Faults[seq]
	}
	return
}

func errString(err error) string {
	if err == nil {
		return ""
	}
	s := err.Error()
	if s == "" {
		s = "error"
	}
	return s
}

type bankProbe struct{ d *DepProbe }

func (b bankProbe) GetBalance(ctx context.Context, addr sdk.AccAddress, denom string) sdk.Coin {
	b.d.Log = append(b.d.Log, DepCall{Tx: txKeyOf(ctx), Seq: -1, Method: "GetBalance", From: addr.String(), Denom: denom})
	return b.d.bank.GetBalance(ctx, addr, denom)
}

func (b bankProbe) SendCoinsFromAccountToModule(ctx context.Context, sender sdk.AccAddress, module string, amt sdk.Coins) (err error) {
	d := b.d
	tx, seq, fk := d.next(ctx)
	call := DepCall{Tx: tx, Seq: seq, Method: "Transfer", From: sender.String(), To: module, Injected: fk}
	if len(amt) == 1 {
		call.Denom = amt[0].Denom
		call.Amount = amt[0].Amount.BigInt()
	} else {
		call.Denom = fmt.Sprintf("<%d coins>", len(amt))
		call.Amount = new(big.Int)
	}
	idx := len(d.Log)
	d.Log = append(d.Log, call)
	switch fk {
	case FaultCleanErr:
		err = d.injectedErr("Transfer")
	case FaultPanic:
		d.Log[idx].Err = "panic"
		panic("injected dependency panic (Transfer)")
	case FaultErrAfterEffect:
		err = d.bank.SendCoinsFromAccountToModule(ctx, sender, module, amt)
		if err == nil {
			err = d.injectedErr("Transfer")
		}
	default:
		err = d.bank.SendCoinsFromAccountToModule(ctx, sender, module, amt)
	}
	d.Log[idx].Err = errString(err)
	return err
}

type ftfProbe struct{ d *DepProbe }

func (f ftfProbe) GetMintingDenom(ctx context.Context) ftftypes.MintingDenom {
	f.d.Log = append(f.d.Log, DepCall{Tx: txKeyOf(ctx), Seq: -1, Method: "GetMintingDenom"})
	return f.d.ftf.GetMintingDenom(ctx)
}

func (f ftfProbe) Burn(ctx sdk.Context, msg *ftftypes.MsgBurn) (resp *ftftypes.MsgBurnResponse, err error) {
	d := f.d
	tx, seq, fk := d.next(ctx)
	call := DepCall{Tx: tx, Seq: seq, Method: "Burn", From: msg.From, Denom: msg.Amount.Denom, Injected: fk}
	if !msg.Amount.Amount.IsNil() {
		call.Amount = msg.Amount.Amount.BigInt()
	}
	idx := len(d.Log)
	d.Log = append(d.Log, call)
	switch fk {
	case FaultCleanErr:
		err = d.injectedErr("Burn")
	case FaultPanic:
		d.Log[idx].Err = "panic"
		panic("injected dependency panic (Burn)")
	case FaultErrAfterEffect:
		resp, err = d.ftf.Burn(ctx, msg)
		if err == nil {
			resp, err = nil, d.injectedErr("Burn")
		}
	default:
		resp, err = d.ftf.Burn(ctx, msg)
	}
	d.Log[idx].Err = errString(err)
	return
}

func (f ftfProbe) Mint(ctx sdk.Context, msg *ftftypes.MsgMint) (resp *ftftypes.MsgMintResponse, err error) {
	d := f.d
	tx, seq, fk := d.next(ctx)
	call := DepCall{Tx: tx, Seq: seq, Method: "Mint", From: msg.From, To: msg.Address, Denom: msg.Amount.Denom, Injected: fk}
	if !msg.Amount.Amount.IsNil() {
		call.Amount = msg.Amount.Amount.BigInt()
	}
	idx := len(d.Log)
	d.Log = append(d.Log, call)
	switch fk {
	case FaultCleanErr:
		err = d.injectedErr("Mint")
	case FaultPanic:
		d.Log[idx].Err = "panic"
		panic("injected dependency panic (Mint)")
	case FaultErrAfterEffect:
		resp, err = d.ftf.Mint(ctx, msg)
		if err == nil {
			resp, err = nil, d.injectedErr("Mint")
		}
	default:
		resp, err = d.ftf.Mint(ctx, msg)
	}
	d.Log[idx].Err = errString(err)
	return
}

// ---------------------------------------------------------------- ledger double

// LedgerDouble is a minimal bank + fiat-token-factory kept in its own mounted KV
// store (so it participates in per-tx rollback and in the app hash), with unbounded
// balances and an optional case-insensitive denom comparison.
type LedgerDouble struct {
	svc          corestore.KVStoreService
	Fold         bool
	MintingDenom string // minting denom
}

func NewLedgerDouble(svc corestore.KVStoreService, fold bool) *LedgerDouble {
	return &LedgerDouble{svc: svc, Fold: fold, MintingDenom: MintDenom}
}

func (l *LedgerDouble) norm(denom string) string {
	if l.Fold {
		return strings.ToLower(denom)
	}
	return denom
}

func (l *LedgerDouble) get(ctx context.Context, key string) *big.Int {
	bz, err := l.svc.OpenKVStore(ctx).Get([]byte(key))
	if err != nil {
		panic(err)
	}
	return new(big.Int).SetBytes(bz)
}

func (l *LedgerDouble) put(ctx context.Context, key string, v *big.Int) {
	st := l.svc.OpenKVStore(ctx)
	if v.Sign() == 0 {
		_ = st.Delete([]byte(key))
		return
	}
	if err := st.Set([]byte(key), v.Bytes()); err != nil {
		panic(err)
	}
}

func balKey(addr []byte, denom string) string { return "bal/" + hex.EncodeToString(addr) + "/" + denom }

func (l *LedgerDouble) Init(ctx context.Context, funded map[string]*big.Int, allowance *big.Int, paused bool) {
	total := new(big.Int)
	for a, v := range funded {
		acc, err := sdk.AccAddressFromBech32(a)
		if err != nil {
			panic(err)
		}
		l.put(ctx, balKey(acc, l.MintingDenom), v)
		total.Add(total, v)
	}
	l.put(ctx, "sup/"+l.MintingDenom, total)
	l.put(ctx, "allow", allowance)
	if paused {
		l.put(ctx, "paused", big.NewInt(1))
	}
}

// InitOther credits balances in other denoms (the double keeps one balance per (account, denom as spelled) unless
// it folds case).
func (l *LedgerDouble) InitOther(ctx context.Context, other map[string]map[string]*big.Int) {
	for d, m := range other {
		if l.norm(d) == l.norm(l.MintingDenom) {
			continue
		}
		total := new(big.Int)
		for a, v := range m {
			acc, err := sdk.AccAddressFromBech32(a)
			if err != nil {
				panic(err)
			}
			l.put(ctx, balKey(acc, l.norm(d)), v)
			total.Add(total, v)
		}
		l.put(ctx, "sup/"+l.norm(d), total)
	}
}

func (l *LedgerDouble) BalanceOf(ctx context.Context, addr sdk.AccAddress, denom string) *big.Int {
	return l.get(ctx, balKey(addr, l.norm(denom)))
}
func (l *LedgerDouble) SupplyOf(ctx context.Context, denom string) *big.Int {
	return l.get(ctx, "sup/"+l.norm(denom))
}
func (l *LedgerDouble) Allowance(ctx context.Context) *big.Int { return l.get(ctx, "allow") }

func (l *LedgerDouble) GetBalance(ctx context.Context, addr sdk.AccAddress, denom string) sdk.Coin {
	b := l.BalanceOf(ctx, addr, denom)
	if b.BitLen() > 256 {
		b = new(big.Int).Sub(new(big.Int).Lsh(big.NewInt(1), 256), big.NewInt(1))
	}
	return sdk.Coin{Denom: denom, Amount: sdkmath.NewIntFromBigInt(b)}
}

func (l *LedgerDouble) SendCoinsFromAccountToModule(ctx context.Context, sender sdk.AccAddress, module string, amt sdk.Coins) error {
	if module != cctptypes.ModuleName {
		return errors.New("ledger double: unknown module " + module)
	}
	for _, c := range amt {
		d := l.norm(c.Denom)
		have := l.get(ctx, balKey(sender, d))
		need := c.Amount.BigInt()
		if have.Cmp(need) < 0 {
			return fmt.Errorf("ledger double: insufficient funds: %s < %s %s", have, need, d)
		}
		l.put(ctx, balKey(sender, d), new(big.Int).Sub(have, need))
		mk := balKey(cctptypes.ModuleAddress, d)
		l.put(ctx, mk, new(big.Int).Add(l.get(ctx, mk), need))
	}
	return nil
}

func (l *LedgerDouble) GetMintingDenom(ctx context.Context) ftftypes.MintingDenom {
	return ftftypes.MintingDenom{Denom: l.MintingDenom}
}

func (l *LedgerDouble) denomOK(d string) bool {
	if l.Fold {
		return strings.EqualFold(d, l.MintingDenom)
	}
	return d == l.MintingDenom
}

func (l *LedgerDouble) Burn(ctx sdk.Context, msg *ftftypes.MsgBurn) (*ftftypes.MsgBurnResponse, error) {
	if msg.From != cctptypes.ModuleAddress.String() {
		return nil, errors.New("ledger double: burn: not a minter")
	}
	if !l.denomOK(msg.Amount.Denom) {
		return nil, errors.New("ledger double: burn: wrong denom")
	}
	if msg.Amount.Amount.IsNil() || !msg.Amount.Amount.IsPositive() {
		return nil, errors.New("ledger double: burn: invalid amount")
	}
	if l.get(ctx, "paused").Sign() != 0 {
		return nil, errors.New("ledger double: burn: paused")
	}
	d := l.norm(msg.Amount.Denom)
	mk := balKey(cctptypes.ModuleAddress, d)
	have := l.get(ctx, mk)
	need := msg.Amount.Amount.BigInt()
	if have.Cmp(need) < 0 {
		return nil, errors.New("ledger double: burn: insufficient module funds")
	}
	l.put(ctx, mk, new(big.Int).Sub(have, need))
	l.put(ctx, "sup/"+d, new(big.Int).Sub(l.get(ctx, "sup/"+d), need))
	return &ftftypes.MsgBurnResponse{}, nil
}

func (l *LedgerDouble) Mint(ctx sdk.Context, msg *ftftypes.MsgMint) (*ftftypes.MsgMintResponse, error) {
	if msg.From != cctptypes.ModuleAddress.String() {
		return nil, errors.New("ledger double: mint: not a minter")
	}
	acc, err := sdk.AccAddressFromBech32(msg.Address)
	if err != nil {
		return nil, err
	}
	if !l.denomOK(msg.Amount.Denom) {
		return nil, errors.New("ledger double: mint: wrong denom")
	}
	if msg.Amount.Amount.IsNil() || !msg.Amount.Amount.IsPositive() {
		return nil, errors.New("ledger double: mint: invalid amount")
	}
	need := msg.Amount.Amount.BigInt()
	allow := l.get(ctx, "allow")
	if allow.Cmp(need) < 0 {
		return nil, errors.New("ledger double: mint: allowance exceeded")
	}
	if l.get(ctx, "paused").Sign() != 0 {
		return nil, errors.New("ledger double: mint: paused")
	}
	d := l.norm(msg.Amount.Denom)
	l.put(ctx, "allow", new(big.Int).Sub(allow, need))
	k := balKey(acc, d)
	l.put(ctx, k, new(big.Int).Add(l.get(ctx, k), need))
	l.put(ctx, "sup/"+d, new(big.Int).Add(l.get(ctx, "sup/"+d), need))
	return &ftftypes.MsgMintResponse{}, nil
}
