#!/usr/bin/env python3
"""Regenerates DESIGN.md sections 12.1 (mutation catalogue results) and 13.1 (seeded changes) from
selftest/results.json and seeded/*/meta.json + seeded/results.json."""
import json,glob,os,re,sys
sys.path.insert(0,'/verif/selftest')
from mutants import M
D='/verif/DESIGN.md'
s=open(D).read()
res={r['id']:r for r in json.load(open('/verif/selftest/results.json'))}
rows=[]
for m in M:
    mid=m[0]; note=m[3] if isinstance(m[2],list) else m[5]
    r=res.get(mid,{})
    caught=', '.join(f"{p}:{'caught' if c['caught'] else 'MISSED'}" for p,c in r.get('checks',{}).items()) or r.get('error','not run')[:60]
    sp=r.get('repo_suite_passes'); sp={True:'passes',False:'fails',None:'-'}[sp]
    rows.append(f"| {mid} | {', '.join(m[1])} | {note} | {sp} | {caught} |")
t12="### 12.1 Results (quick tier, seed 1)\n\n| mutant | owning checks | change | repo suite with mutant | verdict of the checks |\n|---|---|---|---|---|\n"+'\n'.join(rows)+"\n\nMutants whose note says EQUIVALENT cannot be observed by any execution (explained in the note) and are kept for the record.\n"
seeds=[]
cur=json.load(open('/verif/seeded/results.json'))
for d in sorted(glob.glob('/verif/seeded/S*-C*')):
    m=json.load(open(d+'/meta.json'))
    allc=cur.get(m['id'],{}).get('checks',{})
    also=sorted(p for p,c in allc.items() if c.get('caught') and p!=m['breaks'])
    mon='; '.join(x.replace('monitor=','').replace(' sig=',' / ') for x in m.get('catching_monitors',[])[:2])
    seeds.append(f"| {m['id']} | {m['breaks']} | {m['summary'][:230].replace('|','/')}… | {m['needs_to_manifest'][:200].replace('|','/')}… | {'yes' if m['caught_at_first_attempt'] else 'no'} | {'yes' if m['caught_now'] else 'NO'} ({mon}){' — also: '+', '.join(also) if also else ''} | {m.get('strengthening','-')} |")
t13="### 13.1 Seeded changes and the checks that catch them\n\n| id | breaks | change (sub-agent's words, shortened) | needs to manifest | caught at first attempt | caught now by the owning check (monitors) | what was strengthened |\n|---|---|---|---|---|---|---|\n"+'\n'.join(seeds)+"\n"
def put(s,title,body,nexthead):
    i=s.find(title)
    if i>=0:
        j=s.find(nexthead,i)
        return s[:i]+body+"\n"+s[j:]
    j=s.find(nexthead)
    return s[:j]+body+"\n"+s[j:]
s=put(s,"### 12.1 Results",t12,"## 13. Seeded changes")
s=put(s,"### 13.1 Seeded changes",t13,"## Appendix A.")
open(D,'w').write(s)
print("tables written")
