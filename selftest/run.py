#!/usr/bin/env python3
"""Self-validation: apply each catalogue mutant to a scratch copy of /repo, run the owning check(s)
at quick tier against it, and record whether a VIOLATION is printed. Scratch copies and their
build output are removed immediately. usage: run.py [ids...] [--jobs N] [--suite]"""
import sys, os, subprocess, json, shutil, time, concurrent.futures as cf
sys.path.insert(0, os.path.dirname(__file__))
from mutants import M
ROOT=os.environ.get('VERIF_EVAL_ROOT','/verif')
ENV=dict(os.environ, GOFLAGS='-mod=mod', GOPROXY='off', GOSUMDB='off', GOTOOLCHAIN='local')
def edits_of(m):
    if isinstance(m[2], list): ed=list(m[2]); note=m[3]
    else: ed=[(m[2],m[3],m[4])]; note=m[5]
    if len(m)>6 or (isinstance(m[2],list) and len(m)>4):
        ed += m[-1] if isinstance(m[-1],list) else []
    return ed, note
def run_one(m, suite):
    mid, props = m[0], m[1]
    ed, note = edits_of(m)
    scratch=f'/tmp/vmut/{mid}'; out=f'/tmp/vmut/out-{mid}'
    shutil.rmtree(scratch, ignore_errors=True); shutil.rmtree(out, ignore_errors=True)
    os.makedirs('/tmp/vmut', exist_ok=True)
    subprocess.run(['rsync','-a','--exclude','.git','/repo/',scratch+'/'],check=True)
    os.makedirs(out, exist_ok=True); shutil.copy(ROOT+'/known_findings.json', out)
    res={'id':mid,'props':props,'note':note,'checks':{}}
    try:
        for f,old,new in ed:
            p=f'{scratch}/x/cctp/{f}'; s=open(p).read()
            if s.count(old)!=1:
                res['error']=f'edit does not apply uniquely in {f} (count {s.count(old)})'; return res
            open(p,'w').write(s.replace(old,new))
        b=subprocess.run('go build ./x/... ', shell=True, cwd=scratch, env=dict(ENV,GOFLAGS=''), capture_output=True, text=True)
        if b.returncode!=0:
            res['error']='mutant does not compile: '+b.stderr[-600:]; return res
        if suite:
            t=subprocess.run('go test -vet=off -count=1 ./x/... 2>&1 | tail -5', shell=True, cwd=scratch, env=dict(ENV,GOFLAGS=''), capture_output=True, text=True)
            res['repo_suite_passes']=('FAIL' not in t.stdout)
        for prop in props:
            t0=time.time()
            r=subprocess.run([ROOT+'/check',prop,'--tier','quick'],cwd=ROOT,env=dict(ENV,VERIF_REPO=scratch,VERIF_OUT_ROOT=out),capture_output=True,text=True)
            lines=[l for l in r.stdout.split('\n') if l.startswith('VIOLATION') or l.startswith('  monitor=') or 'tier=quick' in l or l.startswith('INCONCLUSIVE') or l.startswith('BUILD')]
            res['checks'][prop]={'exit':r.returncode,'caught':r.returncode==1 and any(l.startswith('VIOLATION property='+prop) for l in lines),'wall_s':round(time.time()-t0,1),'lines':lines[:8]}
    finally:
        shutil.rmtree(scratch, ignore_errors=True); shutil.rmtree(out, ignore_errors=True)
        tag=subprocess.run(f'echo -n {scratch} | md5sum | cut -c1-8',shell=True,capture_output=True,text=True).stdout.strip()
        for v in ('cover','race','asan'):
            try: os.remove(f'{ROOT}/bin/sim.{v}.{tag}.test')
            except OSError: pass
        shutil.rmtree(f'{ROOT}/.cache/gomod.{tag}', ignore_errors=True)
    return res
def main():
    args=sys.argv[1:]; jobs=4; suite=False; ids=[]
    i=0
    while i<len(args):
        if args[i]=='--jobs': jobs=int(args[i+1]); i+=2
        elif args[i]=='--suite': suite=True; i+=1
        else: ids.append(args[i]); i+=1
    ms=[m for m in M if not ids or m[0] in ids]
    results=[]
    with cf.ThreadPoolExecutor(max_workers=jobs) as ex:
        for r in ex.map(lambda m: run_one(m,suite), ms):
            results.append(r)
            caught={p:c['caught'] for p,c in r['checks'].items()}
            print(r['id'], r.get('error',''), caught, r.get('repo_suite_passes',''), flush=True)
            for p,c in r['checks'].items():
                if not c['caught']: print('    ',p,c['lines'][-3:], flush=True)
    path=ROOT+'/selftest/results.json'
    old={}
    if os.path.exists(path):
        old={r['id']:r for r in json.load(open(path))}
    for r in results: old[r['id']]=r
    json.dump(sorted(old.values(),key=lambda r:r['id']),open(path,'w'),indent=1)
main()
