#!/usr/bin/env bash
# build.sh <variant>: (re)build the harness test binary against $REPO's current working tree.
# variants: cover (default; plain + coverage counters for x/cctp), race, asan
set -euo pipefail
cd "$(dirname "$0")"
. ./env.sh
./gen_gomod.sh
v="${1:-cover}"
mkdir -p bin
cd harness
case "$v" in
  cover) go test -c -tags verif -vet=off -cover -coverpkg=github.com/circlefin/noble-cctp/x/cctp/... -o ../bin/sim.cover.test ./sim ;;
  plain) go test -c -tags verif -vet=off -o ../bin/sim.plain.test ./sim ;;
  race)  go test -c -tags verif -vet=off -race -o ../bin/sim.race.test ./sim ;;
  asan)  CGO_ENABLED=1 go test -c -tags verif -vet=off -asan -o ../bin/sim.asan.test ./sim ;;
  *) echo "unknown variant $v" >&2; exit 3 ;;
esac
