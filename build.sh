#!/usr/bin/env bash
# build.sh <variant>: (re)build the harness test binary against $REPO's current working tree.
# variants: cover (default; plain + coverage counters for x/cctp), race, asan
# With VERIF_REPO set (scratch copies for self-validation) a separate -modfile and binary name are used.
set -euo pipefail
cd "$(dirname "$0")"
. ./env.sh
v="${1:-cover}"
mkdir -p bin .cache
tag=""
modflag=""
if [ "$REPO" != "/repo" ]; then
  tag=".$(echo -n "$REPO" | md5sum | cut -c1-8)"
  mf="$PWD/.cache/gomod$tag/go.mod"
  [ -f harness/go.mod ] || VERIF_REPO=/repo ./gen_gomod.sh   # -modfile still needs a go.mod at the module root
  ./gen_gomod.sh "$mf"
  modflag="-modfile=$mf"
else
  ./gen_gomod.sh
fi
cd harness
case "$v" in
  cover) go test $modflag -c -tags verif -vet=off -cover -coverpkg=github.com/circlefin/noble-cctp/x/cctp/... -o ../bin/sim.cover$tag.test ./sim ;;
  race)  go test $modflag -c -tags verif -vet=off -race -o ../bin/sim.race$tag.test ./sim ;;
  asan)  CGO_ENABLED=1 go test $modflag -c -tags verif -vet=off -asan -o ../bin/sim.asan$tag.test ./sim ;;
  *) echo "unknown variant $v" >&2; exit 3 ;;
esac
