# sourced by every script
export GOFLAGS=-mod=mod GOPROXY=off GOSUMDB=off GOTOOLCHAIN=local GOWORK=off
export CARGO_NET_OFFLINE=true PIP_NO_INDEX=1
export REPO="${VERIF_REPO:-/repo}"
export VERIF_ROOT="$(cd "$(dirname "${BASH_SOURCE[0]}")" && pwd)"
