#!/usr/bin/env python3
"""Regenerates MANIFEST.json from the table below (kept valid at all times)."""
import json
props=[json.loads(l)['id'] for l in open('properties.jsonl')]
T={  # id: (level, technique, level text, level note, design ref)
 "C01":("exploration","runtime monitor: exact + sound attestation oracles over direct verifier calls and real-chain transactions; ASan pass over the cgo recovery code (thorough)",
        "Every observed call of the exported verifier (composed adversarial mutations of honest attestations at every signature index, attester sets 1..8, thresholds 1..n) is judged by an exact iff-oracle built on decred's pure-Go secp256k1 and by a recovery-free soundness oracle; receive/replace transactions on the real baseapp chain are judged by the same exact oracle under the chain's own attester set. Exploration is the right level: the quantifier is over byte strings and configurations, sampled adversarially, not enumerable.",
        "Trusts decred secp256k1, x/crypto keccak, and the reading of 'accepted hex spelling' as optional 0x/0X + 130 hex digits.","DESIGN.md §4 C01"),
 "C16":("exploration","runtime monitor: differential against an independent reference codec + Python-struct golden vectors",
        "Message/BurnMessage Parse and Bytes are compared field by field and byte by byte with a reference codec written from the CCTP layout (literal offsets) on every length 0..400, around 8000, all field-size combinations 0/31/32/33 and integer extremes, plus golden vectors computed outside Go. Pure functions of one input, so a differential oracle over a dense input list is the strongest runtime evidence available.",
        "Trusts the transcription of the CCTP layout in harness/ref/codec.go (cross-checked by golden vectors produced with Python struct).","DESIGN.md §4 C16"),
 "C20":("exploration","runtime monitor: crash tap (baseapp ErrPanic, query ErrPanic, recover(), child exit status) over wire-level hostile inputs; ASan + race/checkptr passes (thorough)",
        "Wire-level generated messages of all 25 types (absent/duplicated/mistyped fields, hostile amounts, strings, byte lengths, CCTP messages, attestations) are delivered through the real baseapp in six chain states; all 19 queries get hostile requests and pagination; both decoders and the nine CLI address call sites (real cobra tree, calibrated on valid arguments first) run under recover(). Any panic is a violation; known upstream SDK pagination panics are listed as known findings.",
        "A clean run says no panic was provoked by the inputs generated, not that none exists.","DESIGN.md §4 C20"),
}
checks=[]
for p in props:
    if p not in T: continue
    lvl,tech,text,note,ref=T[p]
    checks.append({"property_id":p,"quick_cmd":f"./check {p} --tier quick","thorough_cmd":f"./check {p} --tier thorough",
      "evidence_file":f"/verif/evidence/{p}.json","replay_cmd_template":"./check "+p+" --replay {path}","engine":"cctpsim",
      "level_claimed":{"category":lvl,"text":text,"design_ref":ref},"level_note":note,"technique":tech})
m={"version":1,"setup_cmd":"./setup.sh",
 "hooks":{"guard":"verif","enable":"harness is built with `go test -c -tags verif` against /repo through a generated go.mod replace; no source hooks exist in /repo (probes wrap the keeper's constructor arguments), so the tag is a no-op on the repository","baseline_off_cmd":"cd /repo && go test -json -vet=off -count=1 -timeout 25m ./...","source_commits":[],"add_only":True},
 "engines":[{"name":"cctpsim","path":"harness","serves_properties":[c["property_id"] for c in checks],"kind_free_text":"runtime monitors (reference-model, differential, crash tap, write-set, ledger, event decoders) over a real baseapp mini-chain with probes at the keeper boundary; child process per shard"}],
 "checks":checks,
 "notes":"./check <id> --tier quick|thorough [--seed N] [--replay path]; exit 0 held / 1 VIOLATION / 2 inconclusive / 3 harness trouble. known_findings.json lists recorded findings and fixed defects.",
 "not_applicable":[{"property_id":p,"reason":"check not built yet (work in progress; see DESIGN.md section 4)"} for p in props if p not in T]}
json.dump(m,open('MANIFEST.json','w'),indent=1)
print("claimed:",[c["property_id"] for c in checks])
