#!/usr/bin/env bash
# Offline setup: generate harness/go.mod from /repo/go.mod, copy go.sum, warm the builds.
set -euo pipefail
cd "$(dirname "$0")"
. ./env.sh
./gen_gomod.sh
mkdir -p evidence replays bin .cache
# warm plain+cover build (the others are built on demand by ./check)
./build.sh cover
if [ "${VERIF_SETUP_FULL:-1}" = "1" ]; then
  ./build.sh race || true
  ./build.sh asan || true
fi
echo "setup ok"
