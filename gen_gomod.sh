#!/usr/bin/env bash
# Generate harness/go.mod from $REPO/go.mod (same require set, replace to $REPO).
set -euo pipefail
cd "$(dirname "$0")"
. ./env.sh
out=harness/go.mod
tmp=$(mktemp)
{
  echo "module verif/harness"
  echo
  echo "go 1.22.1"
  echo
  # copy require blocks verbatim (drop the api pseudo-version line; re-added below)
  awk '/^require \(/{p=1} p{print} /^\)/{if(p){p=0;print ""}}' "$REPO/go.mod" \
    | grep -v 'github.com/circlefin/noble-cctp/api '
  echo "require ("
  echo "	github.com/circlefin/noble-cctp v0.0.0"
  echo "	github.com/circlefin/noble-cctp/api v0.0.0"
  echo "	github.com/btcsuite/btcd/btcutil v1.1.5"
  echo ")"
  echo
  echo "replace github.com/circlefin/noble-cctp => $REPO"
  echo "replace github.com/circlefin/noble-cctp/api => $REPO/api"
  # carry over the repo's own replace directives (other than local ones)
  awk '/^replace \(/{p=1;next} /^\)/{p=0} p && /=>/ {sub(/^[ \t]+/,""); print "replace " $0} /^replace [^(]/{print}' "$REPO/go.mod" \
    | grep -v 'noble-cctp' || true
} > "$tmp"
if ! cmp -s "$tmp" "$out" 2>/dev/null; then mv "$tmp" "$out"; else rm -f "$tmp"; fi
# go.sum: repo's plus lines for extra modules we resolved once (kept in go.sum.extra)
cat "$REPO/go.sum" harness/go.sum.extra 2>/dev/null | sort -u > harness/go.sum.new
if ! cmp -s harness/go.sum.new harness/go.sum 2>/dev/null; then mv harness/go.sum.new harness/go.sum; else rm -f harness/go.sum.new; fi
