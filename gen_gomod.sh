#!/usr/bin/env bash
# Generate the harness go.mod from $REPO/go.mod (same require set, replace to $REPO).
# usage: gen_gomod.sh [outfile]   (default harness/go.mod; go.sum is written next to it)
set -euo pipefail
cd "$(dirname "$0")"
. ./env.sh
out="${1:-harness/go.mod}"
mkdir -p "$(dirname "$out")"
tmp=$(mktemp)
{
  echo "module verif/harness"
  echo
  echo "go 1.22.1"
  echo
  awk '/^require \(/{p=1} p{print} /^\)/{if(p){p=0;print ""}}' "$REPO/go.mod" \
    | grep -v 'github.com/circlefin/noble-cctp/api '
  echo "require ("
  echo "	github.com/circlefin/noble-cctp v0.0.0"
  echo "	github.com/circlefin/noble-cctp/api v0.0.0"
  echo "	github.com/btcsuite/btcd/btcutil v1.1.5"
  echo ")"
  echo
  echo "replace github.com/circlefin/noble-cctp => $REPO"
  echo "replace github.com/circlefin/noble-cctp/api => $REPO/api"
  awk '/^replace \(/{p=1;next} /^\)/{p=0} p && /=>/ {sub(/^[ \t]+/,""); print "replace " $0} /^replace [^(]/{print}' "$REPO/go.mod" \
    | grep -v 'noble-cctp' || true
} > "$tmp"
if ! cmp -s "$tmp" "$out" 2>/dev/null; then mv "$tmp" "$out"; else rm -f "$tmp"; fi
sum="${out%.mod}.sum"
cat "$REPO/go.sum" harness/go.sum.extra 2>/dev/null | sort -u > "$sum.new"
if ! cmp -s "$sum.new" "$sum" 2>/dev/null; then mv "$sum.new" "$sum"; else rm -f "$sum.new"; fi
