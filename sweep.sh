#!/usr/bin/env bash
# sweep.sh <tier> <seeds...>: run every check at the given seeds; print one line per (check, seed).
cd "$(dirname "$0")"
tier="$1"; shift
for s in "$@"; do
  for i in 01 02 03 04 05 06 07 08 09 10 11 12 13 14 15 16 17 18 19 20; do
    out=$(VERIF_OUT_ROOT=/tmp/vsweep ./check C$i --tier "$tier" --seed "$s" 2>&1); rc=$?
    echo "seed=$s C$i exit=$rc $(echo "$out" | grep -v '^KNOWN' | tail -1 | cut -c1-160)"
    if [ $rc -ne 0 ]; then echo "$out" | grep -v '^KNOWN' | head -12 | cut -c1-400; fi
  done
done
